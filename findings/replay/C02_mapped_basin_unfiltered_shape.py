"""Replay of the candidate finding findings/C02-cand-mapped-basin-shape.md.

A dataset whose `image` comes from a *mapped* file basin (basin file: 10 events, dataset: the 6
events [7, 2, 9, 4, 0, 5] of it) is exported with `filtered=False`.  Expected: 6 images, the images
of basin events 7, 2, 9, 4, 0, 5.  Exit code 1 (and a description) if the exported file differs.
usage: python C02_mapped_basin_unfiltered_shape.py [workdir]      (dclab importable)
"""
import pathlib
import sys
import tempfile
import types

import numpy as np

if "dclab._version" not in sys.modules:
    try:
        import dclab._version as _v
        tagged = not str(_v.version).startswith("0.0")
    except Exception:
        tagged = False
    if not tagged:      # untagged build: files written by it could not be re-opened
        stub = types.ModuleType("dclab._version")
        stub.version = stub.__version__ = "0.64.0"
        stub.version_tuple = stub.__version_tuple__ = (0, 64, 0)
        stub.commit_id = stub.__commit_id__ = None
        sys.modules["dclab._version"] = stub
import dclab  # noqa: E402
import h5py  # noqa: E402

wd = pathlib.Path(sys.argv[1] if len(sys.argv) > 1 else tempfile.mkdtemp())
wd.mkdir(parents=True, exist_ok=True)
meta = {"experiment": {"date": "2020-10-23", "event count": 0, "run index": 1, "sample": "s",
                       "time": "10:44:11", "run identifier": "rid"},
        "imaging": {"pixel size": 0.34, "roi size x": 8, "roi size y": 6},
        "setup": {"channel width": 20.0, "chip region": "channel", "flow rate": 0.04,
                  "medium": "CellCarrierB", "software version": "replay 1.0"}}
nb, bmap = 10, [7, 2, 9, 4, 0, 5]
images = np.arange(nb * 48, dtype=np.uint8).reshape(nb, 6, 8) + 1       # no all-zero image
deform = np.linspace(0.01, 0.1, nb)
with dclab.RTDCWriter(wd / "basin.rtdc", mode="reset") as hw:
    hw.store_metadata(meta)
    hw.store_feature("deform", deform)
    hw.store_feature("image", images)
with dclab.RTDCWriter(wd / "mapped.rtdc", mode="reset") as hw:
    hw.store_metadata(meta)
    hw.store_feature("deform", deform[bmap])
    hw.store_basin(basin_name="b", basin_type="file", basin_format="hdf5",
                   basin_locs=[str(wd / "basin.rtdc")], basin_feats=["image"],
                   basin_map=np.array(bmap, dtype=np.uint64))
bad = []
with dclab.new_dataset(wd / "mapped.rtdc") as ds:
    assert len(ds) == 6 and all(np.array_equal(ds["image"][i], images[bmap[i]]) for i in range(6))
    print("len(ds) =", len(ds), " len(ds['image']) =", len(ds["image"]),
          " ds['image'].shape =", ds["image"].shape)
    ds.export.hdf5(wd / "out.rtdc", features=["deform", "image"], filtered=False, override=True)
with h5py.File(wd / "out.rtdc", "r") as h5:
    out = h5["events/image"][:]
    print("exported: deform", h5["events/deform"].shape, "image", out.shape,
          "event count", h5.attrs["experiment:event count"])
    if out.shape[0] != 6:
        bad.append(f"{out.shape[0]} images exported for a dataset of 6 events "
                   f"({int((out.reshape(len(out), -1) == 0).all(axis=1).sum())} of them all-zero)")
    if not all(np.array_equal(out[i], images[bmap[i]]) for i in range(min(6, len(out)))):
        bad.append("the first images are not the images of the dataset's events")
for b in bad:
    print("VIOLATED:", b)
sys.exit(1 if bad else 0)
