import sys, json, pathlib, tempfile
sys.path.insert(0, str(pathlib.Path(__file__).resolve().parents[2]))
import os
os.environ.setdefault("DCLAB_REPO", "/repo")
from harness import common, gen
dclab = common.import_dclab()
import h5py, numpy as np
from dclab import cli
from dclab.util import hashobj
wd = pathlib.Path(tempfile.mkdtemp())
p = wd / "in.rtdc"
gen.make_rtdc(p, range(6), feats=["deform", "area_um"], rid="x")
with h5py.File(p, "a") as h:
    be = h.require_group("basin_events")
    be.create_dataset("userdef1", data=np.arange(3, dtype=float))
    be.create_dataset("userdef0", shape=(0,), dtype=float)          # empty dataset
    h["events"].create_dataset("basinmap0", data=np.array([0, 1, 2, 0, 1, 2], dtype=np.uint64))
    bd = {"description": None, "format": "h5dataset", "name": "b-internal", "type": "internal",
          "features": ["userdef0", "userdef1"], "mapping": "basinmap0", "paths": ["basin_events"]}
    lines = json.dumps(bd, indent=2).split("\n")
    h.require_group("basins").create_dataset(hashobj(lines), data=np.array([x.encode() for x in lines], dtype="S100"))
def basins(path):
    with h5py.File(path) as h:
        out = {}
        for k in h["basins"]:
            out[k] = json.loads(" ".join(x.decode() for x in h["basins"][k][:])).get("features")
        return out, sorted(h.get("basin_events", {}).keys()), h.attrs["setup:software version"]
for task in ("compress", "repack"):
    a, b = wd / f"{task}1.rtdc", wd / f"{task}2.rtdc"
    getattr(cli, task)(path_in=p, path_out=a)
    getattr(cli, task)(path_in=a, path_out=b)
    print(task, "input ", basins(p))
    print(task, "first ", basins(a))
    print(task, "second", basins(b))
