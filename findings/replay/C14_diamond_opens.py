"""Replay for findings/C14-diamond-opens.md: number of HDF5 files dclab opens for a chain of K
diamonds of file-type basins  L0 -> {a0, b0} -> L1 -> {a1, b1} -> L2 ...  (acyclic).

usage (from the verif root): DCLAB_REPO=/repo /venv/bin/python findings/replay/C14_diamond_opens.py [K]
"""
import sys, os, pathlib, tempfile
sys.path.insert(0, str(pathlib.Path(__file__).resolve().parent.parent.parent))
from harness import common, gen
dclab = common.import_dclab()
import h5py, pathlib, shutil
from dclab.rtdc_dataset.fmt_hdf5 import RTDC_HDF5
K = int(sys.argv[1]) if len(sys.argv) > 1 else 2
d = pathlib.Path(tempfile.mkdtemp(prefix="c14_diamonds_"))
# chain of K diamonds: L0 -> {a_i, b_i} -> L_{i+1}
names = {}
def mk(name, feats, targets):
    p = d / f"{name}.rtdc"
    gen.make_rtdc(p, [1, 2, 3, 4], feats=feats, rid="R")
    with dclab.RTDCWriter(p, mode="append") as hw:
        for t in targets:
            hw.store_basin(basin_name="to-" + t, basin_type="file", basin_format="hdf5",
                           basin_locs=[str(d / f"{t}.rtdc")], basin_feats=None, verify=False)
    return p
for i in range(K):
    mk(f"L{i}", ["frame"], [f"a{i}", f"b{i}"])
    mk(f"a{i}", ["frame"], [f"L{i+1}"])
    mk(f"b{i}", ["frame"], [f"L{i+1}"])
mk(f"L{K}", ["frame", "pos_x"], [])
n = [0]
orig = h5py.File.__init__
def wrapped(self, name, *a, **k):
    if isinstance(name, (str, pathlib.Path)) and str(name).endswith(".rtdc") and (not a and k.get("mode", "r") == "r"):
        n[0] += 1
    return orig(self, name, *a, **k)
h5py.File.__init__ = wrapped
import time
t0 = time.time()
with dclab.new_dataset(d / "L0.rtdc") as ds:
    fb = ds.features_basin
    x = ds["pos_x"][:]
shutil.rmtree(d, ignore_errors=True)
print("diamonds", K, "files", 3 * K + 1, "definitions", 4 * K, "h5 opens (incl. root)", n[0], "pos_x ok", "pos_x" in fb, round(time.time() - t0, 2), "s")
