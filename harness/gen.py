"""Generators of .rtdc files / feature data shared by several harnesses.

Every random choice comes from the `random.Random` handed in, so cases replay exactly.
Event payloads are *tokens*: event `t` of feature `f` carries a value that is a pure function
of `(f, t)` (see `payload`), so read-back data can be mapped to token lists exactly,
without any float comparison.
"""
import numpy as np

from . import common

#: complete metadata (no violation of the integrity checker) for a non-fluorescence file
BASE_META = {
    "experiment": {"date": "2020-10-23", "event count": 0, "run index": 1,
                   "sample": "verif", "time": "10:44:11"},
    "imaging": {"flash device": "LED", "flash duration": 2.0, "frame rate": 2000.0,
                "pixel size": 0.34, "roi position x": 10, "roi position y": 20,
                "roi size x": 16, "roi size y": 12},
    "setup": {"channel width": 20.0, "chip region": "channel", "flow rate": 0.04,
              "flow rate sample": 0.01, "flow rate sheath": 0.03,
              "identifier": "ZMD-verif", "medium": "CellCarrierB",
              "module composition": "Cell_Flow_2, Fluor", "software version": "verif 1.0"},
}

IMG_SHAPE = (12, 16)
TRACE_LEN = 9
SCALARS_FLOAT = ["deform", "area_um", "area_cvx", "bright_avg", "pos_x", "pos_y", "aspect",
                 "size_x", "size_y", "time", "temp"]


def payload(feat, t):
    """value of event-token `t` for feature `feat` (pure function)"""
    h = (hash_str(feat) * 1000003 + t * 7919) % 2**31
    if feat == "index":
        raise ValueError("index is enumerated by the writer")
    if feat in ("image", "image_bg"):
        a = (np.arange(IMG_SHAPE[0] * IMG_SHAPE[1], dtype=np.int64) * (t % 7 + 1) + h) % 256
        return a.reshape(IMG_SHAPE).astype(np.uint8)
    if feat == "mask":
        m = np.zeros(IMG_SHAPE, dtype=bool)
        r0 = t % (IMG_SHAPE[0] - 3)
        c0 = (t // 3) % (IMG_SHAPE[1] - 4)
        m[r0:r0 + 3, c0:c0 + 2 + (t % 3)] = True
        return m
    if feat == "contour":
        k = 4 + t % 5
        return (np.arange(2 * k, dtype=np.int64).reshape(k, 2) + t) % 250
    if feat.startswith("trace/"):
        return ((np.arange(TRACE_LEN, dtype=np.int64) * 3 + h) % 2000 - 1000).astype(np.int16)
    if feat in ("frame",):
        return np.uint64(1000 + 3 * t)
    if feat in ("fl1_max", "fl2_max", "fl3_max", "nevents", "ml_class", "fl1_npeaks"):
        return np.uint32(h % 50000)
    if feat == "time":
        return np.float64(t) / 8.0
    # generic float scalar: exactly representable dyadic value in (0, 64)
    return np.float64(h % 65536) / 1024.0 + 1.0 / 1024


def hash_str(s):
    v = 0
    for ch in s.encode():
        v = (v * 131 + ch) % 1000000007
    return v


def rows(feat, tokens):
    """stack payloads of `tokens` into what `store_feature` expects"""
    if feat == "contour":
        return [payload(feat, t) for t in tokens]
    if feat == "trace":
        raise ValueError("use trace_dict")
    return np.array([payload(feat, t) for t in tokens])


def trace_dict(names, tokens):
    return {n: np.array([payload("trace/" + n, t) for t in tokens]) for n in names}


def token_of(feat, value, universe):
    """inverse of `payload` over the token universe (exact comparison); None if no token"""
    for t in universe:
        p = payload(feat, t)
        if feat == "mask":
            if np.array_equal(np.asarray(value) != 0, p):
                return t
        elif np.array_equal(np.asarray(value), np.asarray(p)):
            return t
    return None


def tokens_of(feat, values, universe):
    """map every row of `values` to its token (fast path through a dict of bytes)"""
    table = {}
    for t in universe:
        p = payload(feat, t)
        if feat == "mask":
            p = np.asarray(p, dtype=bool)
        table[np.asarray(p).tobytes()] = t
    out = []
    for v in values:
        a = np.asarray(v)
        if feat == "mask":
            a = a != 0
        else:
            a = a.astype(np.asarray(payload(feat, 0)).dtype, copy=False)
        out.append(table.get(a.tobytes()))
    return out


def make_rtdc(path, tokens, feats=("deform", "area_um"), trace_names=(), logs=None,
              meta=None, rid=None):
    """write a complete .rtdc file whose event `i` carries token `tokens[i]`"""
    dclab = common.import_dclab()
    import copy
    m = copy.deepcopy(BASE_META)
    for sec, kv in (meta or {}).items():
        m.setdefault(sec, {}).update(kv)
    if rid is not None:
        m["experiment"]["run identifier"] = rid
    tokens = list(tokens)
    with dclab.RTDCWriter(path, mode="reset") as hw:
        hw.store_metadata(m)
        for f in feats:
            if f == "index":
                hw.store_feature("index", np.arange(len(tokens)))
            elif f == "trace":
                hw.store_feature("trace", trace_dict(trace_names or ("fl1_raw", "fl1_median"),
                                                     tokens))
            else:
                hw.store_feature(f, rows(f, tokens))
        for name, lines in (logs or {}).items():
            hw.store_log(name, lines)
    return path
