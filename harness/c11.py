"""C11 — metadata values are type-normalised and survive storage unchanged.

Correspondence between dclab's configuration code (`ConfigurationDict`, `Configuration`,
`load_from_file`, `meta_parse`, `meta_logic`, `RTDCWriter.store_metadata`,
`RTDC_HDF5.parse_config`) and the Lean model `DclabModel.Meta` (driver `Drive/C11.lean`),
plus the property's own oracle evaluated directly in Python.  `translate()` regenerates
`lean/DclabModel/Gen/MetaTable.lean` from the imported `dclab.definitions`.
"""
import json
import math
import pathlib
import warnings

import numpy as np

from . import common, gen
from .c11_table import translate  # noqa: F401  (used by ./check)

ID = "C11"
LEAN_MODULES = ["DclabModel.Properties.C11"]
RULE = ("(a) every key of the regenerated table, pattern keys of online_filter/filtering, user "
        "keys and invalid keys x ~33 value representations (one random value each in quick, six "
        "in thorough) assigned through ConfigurationDict(section).__setitem__ (compared with the "
        "Lean model: stored value with exact type tag, warnings, error class) and through "
        "Configuration()[s][k]=v, .update, Configuration(cfg=...), upper/swap-cased keys; the "
        "property oracle (normalise twice == once, documented type, case-insensitive, rejects, "
        "attribute round trip through an in-memory HDF5 file; stored value == documented "
        "converter of the COMMITTED baseline harness/c11_baseline.json applied to the input, "
        "for every key the baseline knows incl. the online_filter pattern rules) is evaluated "
        "in Python on every case, also in the search after a broken proof. (b) configuration-file route: hand-written and tostring()-rendered lines loaded "
        "with load_from_file/Configuration(files=) vs assignment of the text and vs the model. "
        "(c) store_metadata -> raw h5py attrs (vs model h5) and new_dataset (vs normalised), "
        "batches of keys; a sample carried through export.hdf5, compress, repack, condense, "
        "join, split, judged (like the re-opened source) against the in-memory normalisation of "
        "what was WRITTEN, never against what a re-opened file reports. About 30 % of the stored "
        "values (storage, carry-over, store histories, text route, sources) come from the edge "
        "of the value range (EDGE_VALUES per converter: nan/+inf/-inf as float, numpy scalar, "
        "text, 0-d array and inside pairs/2-d arrays/user sequences; -0.0; the smallest "
        "subnormal/normal and the largest double; 64-bit integers; blank texts and texts spelling "
        "special numbers), each accepted by the key's converter as asked from the code; NaN "
        "compares equal to NaN (same key present, value NaN), a missing key is never equal. (d) HISTORIES: assignments interleaved with register/deregister of "
        "temporary and plug-in features, every query repeated after each registry change and "
        "compared with an oracle recomputed from the current dfn state, with earlier answers for "
        "the same registry, and with the model (state = registry); several store_metadata calls "
        "on one file (same writer / append / replace) with old/new values related by "
        "broadcasting, reshaping, wrapping, type change over all shapes (size 0, size 1, nested "
        "one-element, string lists): file must hold the normalised LAST value with the same "
        "shape (raw h5py, new_dataset, export, compress; model attr map); strings over all "
        "printable ASCII punctuation and non-ASCII through Configuration.save -> "
        "Configuration(files=)/load_from_file: loaded == assignment of clean_text(rendering), "
        "plain strings are fixed points, second save -> load stable; floats of 1-17 significant "
        "digits and magnitude 1e-12..1e12 and integers up to 1e15 through the same route "
        "(|loaded - x| <= 0.5e-12, integers exact). (e) every route (section update, "
        "Configuration.update, Configuration(cfg=), ConfigurationDict(sec, src), "
        "Configuration(files=)) x every kind of source (dict, ConfigurationDict with same / no "
        "/ other section, Configuration strict / disable_checks, a dataset's config, a loaded "
        "file) x keys valid/unknown/mixed-case x values of all representations incl. ''/None: "
        "the target equals item-by-item assignment of the source's items (state, warnings, "
        "exception class). (f) carry-over with DATA: sources holding fluorescence maxima, traces, "
        "images, masks (3-7 events), metadata of every stored section + user entries, the "
        "data-describing attributes (samples per event, channel count, roi size) optionally "
        "contradicting the data or absent (raw h5py), through export.hdf5 with a random feature "
        "subset x event selection and through compress/repack/condense/split/join: every key of "
        "every metadata section and of user has in the output the value and type of the source's "
        "ORIGINALS (raw HDF5 attributes read with h5py, normalised by in-memory assignment; the "
        "re-opened source must report exactly these), nothing is invented; keys a tool parses "
        "before writing (join: experiment date/time) are well-formed on that route; admitted deviations are only those the OUTPUT's data justify (event count; "
        "samples per event / roi size = source or trace length / image shape; channel count = "
        "source, number of maxima only if the source has none) and keys naming the new file; "
        "export cases are replayed in the model (attr-store of the source configuration, "
        "attr-rectify with the output's data shape, attr-get vs raw HDF5 attributes). (g) "
        "keyval_str2typ on ~195 texts (numeric spellings, boolean words, list texts, quotes, "
        "feature names, blanks, random strings) and keyval_typ2str / the text round trip on ~90 "
        "values vs the model (guess, typ2str, textrt) and vs a Python round-trip oracle (strings "
        "inside StrGuard verbatim, booleans, numbers within 0.5e-12, numeric lists). distinct = distinct "
        "(section,key,tagged value) cases / histories that reached a converter or a rejection "
        "branch.")
TRUSTED_BASE = [
    "the '{:.12f}' rendering of floats in keyval_typ2str is a parameter of the model (the harness "
    "hands the rendered text in); the data shape of an output file (events, trace length, image "
    "shape, fl?_max presence) is read with h5py from the documented file layout",
    "h5py/HDF5 attribute layer: its Python-type map is measured at start-up and compared with "
    "the model's `h5` (mismatch fails the correspondence); NumPy array construction/`float()` of "
    "arrays (numpy 2.x raises TypeError for ndim>0)",
    "floats are exact rationals in the model: numeric strings and floats used by the generator "
    "are dyadic (exactly representable, <= 12 fractional decimal digits); str.lower() is ASCII "
    "lower-casing (generator uses only caseless non-ASCII characters); the sign of a zero is "
    "not compared (-0.0 == 0.0, tagged as 0); integers handed to converters that go through "
    "float() are exactly representable doubles (float rounding of larger integers is trusted, "
    "`double_exact`); integers beyond 64 bit have no HDF5 type (h5py raises TypeError, nothing "
    "is written) and are not generated for storage; digit-group underscores are not generated",
]
ASSUMPTIONS = ["the configuration-file loader strips exactly: everything from the first '#', "
               "white space at both ends, then ' and blanks, then \" and blanks, then white space "
               "(Meta.cleanText); values that are empty afterwards are skipped; newlines are "
               "not generated",
               "Configuration.tostring writes floats as '{:.12f}': 12 decimals, i.e. a float "
               "read back differs by at most 0.5e-12 (exactly equal once |x| >= 2**13, where "
               "the spacing of doubles exceeds that); integers and strings are written exactly",
               "HDF5 attributes return numpy scalars/arrays of the stored kind (measured)",
               "text rendering precision of Configuration.tostring ({:.12f}) is outside the model; "
               "the configuration-file claim is about the text that is read"]
NOT_PROVED = [
    "conv_typed (full): false for lcstr applied to bytes (returns bytes) - proved as "
    "conv_typed_partial with witness lcstr_bytes_untyped (observation O11)",
    "conv_storage_roundtrip excludes fintlist (arrays are not accepted back, witness "
    "fintlist_h5_breaks); table_fintlist_not_stored shows no stored section uses it",
    "str(value) for sequences/arrays and floats without short decimal expansion is "
    "`unmodelled` (Python oracle only)",
    "text round trip of strings: StrGuard proved sufficient (guess_str_roundtrip); necessity only by "
    "one witness per clause (guess_str_outside_guard); list-of-floats round trip and the '{:.12f}' "
    "rendering of floats (parameter fmt, handed in by the harness) are correspondence-only; lists of "
    "booleans/strings are not re-readable (witness guess_bool_list_breaks)",
    "whole-file tostring rendering and Configuration-level routes (item/update/cfg=/files=/copy as "
    "one map): correspondence only; the metadata path of compress/repack (attribute copy) and of "
    "condense/join/split beyond the shared store_metadata + rectify route (export_carries): oracle "
    "only",
]

INF = float("inf")


# ------------------------------------------------------------------------------------------
# tagged exact values
class Unencodable(Exception):
    pass


def enc_f(x):
    x = float(x)
    if x != x:
        return "nan"
    if x == INF:
        return "+inf"
    if x == -INF:
        return "-inf"
    p, q = x.as_integer_ratio()
    return str(p) if q == 1 else f"{p}/{q}"


def enc_str(s):
    return ".".join(str(ord(c)) for c in s)


def enc_scal(v):
    if v is None:
        return "N"
    if isinstance(v, (bool,)):
        return "b:%d" % v
    if isinstance(v, np.bool_):
        return "B:%d" % bool(v)
    if isinstance(v, np.integer):
        return "I:%d" % int(v)
    if isinstance(v, np.floating):
        return "F:" + enc_f(v)
    if isinstance(v, int):
        return "i:%d" % v
    if isinstance(v, float):
        return "f:" + enc_f(v)
    if isinstance(v, str):
        return "s:" + enc_str(v)
    if isinstance(v, bytes):
        return "y:" + enc_str(v.decode("latin1"))
    raise Unencodable(repr(v))


def enc_num(x, kind):
    if kind == "b":
        return "b:%d" % bool(x)
    if kind in "iu":
        return "i:%d" % int(x)
    return "f:" + enc_f(x)


def enc(v):
    """tagged, exact rendering of a Python value (the syntax of Drive/C11.lean)"""
    if isinstance(v, np.ndarray):
        k = v.dtype.kind
        if k not in "biuf" or v.ndim > 2:
            raise Unencodable(f"array {v.dtype} ndim {v.ndim}")
        if v.ndim == 0:
            return "A0" + enc_num(v[()], k)
        if v.ndim == 1:
            return "A1[" + ";".join(enc_num(x, k) for x in v) + "]"
        if v.shape[0] == 0:
            raise Unencodable("array without rows")
        return "A2[" + "|".join(";".join(enc_num(x, k) for x in r) for r in v) + "]"
    if isinstance(v, (list, tuple)):
        if isinstance(v, list) and len(v) and all(isinstance(r, list) for r in v):
            return "L2[" + "|".join(";".join(enc_scal(x) for x in r) for r in v) + "]"
        return ("L[" if isinstance(v, list) else "T[") + ";".join(enc_scal(x) for x in v) + "]"
    return enc_scal(v)


def enc_safe(v):
    try:
        return enc(v)
    except Unencodable as e:
        return "?" + str(e)[:60]


def dec_f(s):
    if s == "nan":
        return float("nan")
    if s == "+inf":
        return INF
    if s == "-inf":
        return -INF
    if "/" in s:
        p, q = s.split("/")
        return int(p) / int(q)
    return float(int(s))


def dec_str(s):
    return "".join(chr(int(c)) for c in s.split(".")) if s else ""


def dec_scal(t):
    if t == "N":
        return None
    k, r = t[0], t[2:]
    return {"s": lambda: dec_str(r), "y": lambda: dec_str(r).encode("latin1"),
            "i": lambda: int(r), "f": lambda: dec_f(r), "b": lambda: bool(int(r)),
            "I": lambda: (np.int64(int(r)) if -2 ** 63 <= int(r) < 2 ** 63
                                else np.uint64(int(r))), "F": lambda: np.float64(dec_f(r)),
            "B": lambda: np.bool_(bool(int(r)))}[k]()


def dec_num(t):
    k, r = t[0], t[2:]
    return {"i": lambda: int(r), "f": lambda: dec_f(r), "b": lambda: bool(int(r))}[k]()


def dec(t):
    """inverse of `enc` (numpy dtypes become int64/float64/bool)"""
    def row(s, f):
        return [f(x) for x in s.split(";")] if s else []
    if t.startswith("L2["):
        return [row(r, dec_scal) for r in t[3:-1].split("|")]
    if t.startswith("L["):
        return row(t[2:-1], dec_scal)
    if t.startswith("T["):
        return tuple(row(t[2:-1], dec_scal))
    if t.startswith("A0"):
        return np.array(dec_num(t[2:]))
    if t.startswith("A1["):
        return np.array(row(t[3:-1], dec_num))
    if t.startswith("A2["):
        return np.array([row(r, dec_num) for r in t[3:-1].split("|")])
    return dec_scal(t)


def pyeq(a, b):
    """Python equality; element-wise for sequences/arrays; nan == nan"""
    try:
        if isinstance(a, (str, bytes)) or isinstance(b, (str, bytes)):
            return type(a) is type(b) and a == b or (isinstance(a, str) and isinstance(b, str)
                                                      and a == b)
        sa = isinstance(a, (list, tuple, np.ndarray)) and np.ndim(a) > 0
        sb = isinstance(b, (list, tuple, np.ndarray)) and np.ndim(b) > 0
        if sa or sb:
            if not (sa and sb):
                return False
            aa, bb = np.asarray(a), np.asarray(b)
            if aa.shape != bb.shape:
                return False
            if aa.dtype.kind in "biuf" and bb.dtype.kind in "biuf":
                return bool(np.array_equal(aa, bb, equal_nan=True))
            return all(pyeq(x, y) for x, y in zip(aa.ravel().tolist(), bb.ravel().tolist()))
        if a is None or b is None:
            return a is b
        fa, fb = float(a), float(b)
        return fa == fb or (fa != fa and fb != fb)
    except Exception:
        return False


# ------------------------------------------------------------------------------------------
# dclab access
def _mods():
    common.import_dclab()
    import dclab.definitions as dfn
    from dclab.rtdc_dataset import config as cfgmod
    return dfn, cfgmod


WARN_NAMES = {"EmptyConfigurationKeyWarning": "empty",
              "BadUserConfigurationValueWarning": "badValue",
              "BadUserConfigurationKeyWarning": "badUserKey",
              "WrongConfigurationTypeWarning": "wrongType"}


def warn_names(rec):
    out = set()
    for w in rec:
        n = w.category.__name__
        msg = str(w.message)
        if n in WARN_NAMES:
            out.add(WARN_NAMES[n])
        elif n == "UnknownConfigurationKeyWarning":
            if "deprecated" in msg:
                out.add("deprecated")
            elif msg.startswith("Unknown section"):
                out.add("unknownSection")
            else:
                out.add("unknownKey")
        elif n == "UserWarning" and "deprecated" in msg:
            out.add("deprecated")
    return out


def fmt_warns(ws):
    return ",".join(sorted(ws)) if ws else "-"


def answer(d, key, exc, ws):
    """canonical answer of one assignment: stored <tag> / rejected / err:<class>, warnings"""
    if exc is not None:
        return common.err_class(exc), ws
    lk = key.lower() if isinstance(key, str) else key
    try:
        present = lk in d
    except Exception:
        present = False
    if present:
        return "stored " + enc_safe(d[lk]), ws
    return "rejected", ws


_BASELINE = {}


def baseline_doc(sec, lk, valid):
    """(converter name, type tuple or None) DOCUMENTED for the key by the committed baseline
    (harness/c11_baseline.json), or None when the baseline does not know the key"""
    import numbers
    if not _BASELINE:
        from .c11_table import BASELINE_JSON
        d = json.loads(BASELINE_JSON.read_text())
        _BASELINE["rows"] = {(r[0], r[1]): (r[2], r[3]) for r in d["rows"]}
        _BASELINE["patterns"] = d["online_filter_patterns"]
        _BASELINE["types"] = {"builtins.str": str, "builtins.tuple": tuple,
                              "numpy.ndarray": np.ndarray, "builtins.bool": bool,
                              "numpy.bool": np.bool_, "builtins.float": float,
                              "numbers.Integral": numbers.Integral, "builtins.list": list,
                              "numbers.Number": numbers.Number}
    hit = _BASELINE["rows"].get((sec, lk))
    if hit is None and sec == "online_filter" and valid:
        for suffix, conv, typ in _BASELINE["patterns"]:
            if lk.endswith(suffix):
                hit = (conv, typ)
                break
    if hit is None:
        return None
    try:
        typ = tuple(_BASELINE["types"][t] for t in hit[1].split("|"))
    except KeyError:
        typ = None
    return hit[0], typ


def baseline_convert(name, v):
    """apply the documented converter (by name) of the tree under test"""
    from dclab.definitions import meta_parse
    if name == "identity":
        return v
    f = {"float": float, "str": str}.get(name) or getattr(meta_parse, name)
    return f(v)


def set_primary(sec, key, v):
    """`ConfigurationDict(section=sec)[key] = v` — the object the model describes"""
    _dfn, cfgmod = _mods()
    d = cfgmod.ConfigurationDict(section=sec)
    exc = None
    with warnings.catch_warnings(record=True) as rec:
        warnings.simplefilter("always")
        try:
            d[key] = v
        except Exception as e:  # noqa
            exc = e
    a, ws = answer(d, key, exc, warn_names(rec))
    return a, ws, (d.get(key.lower()) if a.startswith("stored") else None)


def set_route(route, sec, key, v):
    """the other ways of setting a value; returns (answer, warnings)"""
    _dfn, cfgmod = _mods()
    exc, cfg = None, None
    with warnings.catch_warnings(record=True) as rec:
        warnings.simplefilter("always")
        try:
            if route == "cfg_item":
                cfg = cfgmod.Configuration()
                cfg[sec][key] = v
            elif route == "cfg_update":
                cfg = cfgmod.Configuration()
                cfg.update({sec: {key: v}})
            elif route == "dict_update":
                cfg = {sec: cfgmod.ConfigurationDict(section=sec)}
                cfg[sec].update({key: v})
            elif route == "dict_init":
                cfg = {sec: cfgmod.ConfigurationDict(sec, {key: v})}
            elif route == "cfg_init":
                cfg = cfgmod.Configuration(cfg={sec: {key: v}})
        except Exception as e:  # noqa
            exc = e
    ws = warn_names(rec)
    if exc is not None:
        return common.err_class(exc), ws
    lk = key.lower()
    if route.startswith("cfg"):
        base = cfgmod.Configuration()
        had = sec in base and lk in base[sec]
        if sec in cfg and lk in cfg[sec]:
            if had and enc_safe(cfg[sec][lk]) == enc_safe(base[sec][lk]) and sec == "filtering":
                # a default of the filtering section: indistinguishable from "not stored"
                return "default " + enc_safe(cfg[sec][lk]), ws
            return "stored " + enc_safe(cfg[sec][lk]), ws
        return "rejected", ws
    return answer(cfg[sec], key, None, ws)


# ------------------------------------------------------------------------------------------
# generators
FLOATS = [0.0, 2.5, -0.125, 1000.0, 17.0, 0.5, -3.0, 1.0, 0.015625, 123456.75]
INTS = [0, 1, -3, 17, 2 ** 40, 2, 255, -1]
TEXTS = ["Channel", "abc", "ZMD-123", "µ-Chip 1", "x y", "none", "A,B", "0x10", "Reservoir",
         "2020-10-23", "12:00:00.5", "CellCarrierB"]


def small_seq(rng, n=None):
    n = rng.randint(0, 3) if n is None else n
    kind = rng.choice(["int", "float", "bool", "str", "mixed", "none", "zero"])
    out = []
    for _ in range(n):
        k = kind if kind not in ("mixed",) else rng.choice(["int", "float", "bool", "str"])
        if k == "int":
            out.append(rng.choice(INTS[:6]))
        elif k == "float":
            out.append(rng.choice(FLOATS))
        elif k == "bool":
            out.append(rng.random() < 0.5)
        elif k == "str":
            out.append(rng.choice(["1", "2.5", "0", "", "true", "x", " 3 "]))
        elif k == "zero":
            out.append(rng.choice([0, 0.0, 1, False, 4]))
        else:
            out.append(rng.choice([None, 1, 2.5]))
    return out


def representations(rng):
    """one random value per representation class"""
    R = {}
    R["str_int"] = rng.choice(["0", "1", "3", "-7", "+12", " 42 ", "007"])
    R["str_float"] = rng.choice(["2.5", "0.0", "-0.125", "1e3", ".5", "5.", "25E-1", "1.5e2",
                                 "2.50000", "0.500000000000"])
    R["str_special"] = rng.choice(["nan", "inf", "-inf", "Infinity", "NaN", "+INF"])
    R["str_bool"] = rng.choice(["True", "False", "true", "FALSE", "tRuE", "false"])
    R["str_text"] = rng.choice(TEXTS)
    R["str_list"] = rng.choice(["[1, 2]", "0,1", "[]", "[0, 3, 5]", "1,,2", "[1.5, 2]", " [4] ",
                                "[0]", "0, 0, 7", "[x]"])
    R["str_empty"] = ""
    R["str_space"] = rng.choice([" ", "  "])
    R["bytes_num"] = rng.choice([b"1.5", b"3", b"0", b" 2 "])
    R["bytes_text"] = rng.choice([b"AB", b"True", b"chip", b""])
    R["int"] = rng.choice(INTS[1:])
    R["int_zero"] = 0
    R["float"] = rng.choice(FLOATS[1:])
    R["float_zero"] = 0.0
    R["float_special"] = rng.choice([float("nan"), INF, -INF])
    R["bool"] = rng.random() < 0.5
    R["np_int"] = rng.choice([np.int32(5), np.uint8(0), np.int64(-3), np.uint16(300), np.int8(1),
                              np.uint64(7), np.int64(0)])
    R["np_float"] = rng.choice([np.float32(1.5), np.float64(0.0), np.float64(2.5),
                                np.float16(0.5), np.float32(-0.25), np.float64("nan"),
                                np.float32(0.0), np.float64(1e3)])
    R["np_bool"] = rng.choice([np.bool_(True), np.bool_(False)])
    R["arr0"] = rng.choice([np.array(3), np.array(2.5), np.array(True), np.array(0),
                            np.array(0.0), np.array(False), np.array(7, dtype=np.uint8)])
    n1 = rng.randint(0, 3)
    R["arr1"] = rng.choice([np.array([rng.choice(INTS[:6]) for _ in range(n1)], dtype=np.int64),
                            np.array([rng.choice(FLOATS) for _ in range(n1)], dtype=float),
                            np.array([rng.random() < 0.5 for _ in range(n1)], dtype=bool),
                            np.array([rng.choice(FLOATS) for _ in range(n1)], dtype=np.float32)])
    R["arr1_pair"] = rng.choice([np.array([1.5, 2.5]), np.array([0, 3]),
                                 np.array([True, False]),
                                 np.array([rng.choice(FLOATS), rng.choice(FLOATS)])])
    shp = rng.choice([(2, 2), (1, 2), (3, 2), (1, 1), (2, 0), (2, 3)])
    base = np.array([[rng.choice(FLOATS) for _ in range(shp[1])] for _ in range(shp[0])],
                    dtype=float).reshape(shp)
    R["arr2"] = rng.choice([base, base.astype(np.int64), base.astype(np.float32), base != 0])
    R["list"] = small_seq(rng)
    R["tuple"] = tuple(small_seq(rng))
    R["list_pair"] = rng.choice([[1.5, 2.5], [0, 1], ["1", "2.5"], [True, 2], [1, None],
                                 [rng.choice(FLOATS), rng.choice(INTS[:6])]])
    R["tuple_pair"] = tuple(rng.choice([[1.5, 2.5], [0, 0], ["0.5", 2], [False, True]]))
    R["list2"] = rng.choice([[[1, 2], [3, 4]], [[1.5, 2.5]], [[1, 2], [3]], [[], []],
                             [["1", "2"], [3, 4.5]], [[0.5, 1], [2, 3], [4, 5.25]], [[True]],
                             [[1, None]], [["x", 1]]])
    R["none"] = None
    return R


def random_case_key(rng, key):
    return "".join(c.upper() if rng.random() < 0.5 else c.lower() for c in key)


def all_keys(ctx, dfn):
    """[(section, key, klass)] — table keys, pattern keys, user keys, invalid keys"""
    keys = []
    for cfg in (dfn.CFG_METADATA, dfn.CFG_ANALYSIS):
        for sec in cfg:
            for item in cfg[sec]:
                keys.append((sec, item[0], "table"))
    feats = list(dfn.scalar_feature_names)
    sample = feats if ctx.thorough else ctx.rng.sample(feats, 6)
    sample = sample + ["ml_score_a1z"]
    for f in sample:
        g = ctx.rng.choice(feats)
        for k in (f"{f} min", f"{f} max", f"{f} soft limit", f"{f} polygon points",
                  f"{f},{g} soft limit", f"{f},{g} polygon points"):
            keys.append(("online_filter", k, "pattern"))
        keys.append(("filtering", f"{f} {ctx.rng.choice(['min', 'max'])}", "pattern"))
    keys += [("online_filter", k, "pattern-odd") for k in
             ["area_um", "area_um foo", "area_um xmin", "deform,area_um min"]]
    keys += [("user", k, "user") for k in ["my key", "Answer", "n", "µ value", "x min"]]
    keys += [("online_filter", "nofeat min", "invalid"),
             ("online_filter", "area_um,nofeat soft limit", "invalid"),
             ("online_filter", "area_um,deform,bright_avg soft limit", "invalid"),
             ("online_filter", "ml_score_ABC max", "invalid"),
             ("filtering", "nofeat max", "invalid"), ("filtering", "limit events auto", "invalid"),
             ("filtering", "whatever", "invalid"), ("setup", "no such key", "invalid"),
             ("experiment", "area_um min", "invalid"), ("user", " ", "invalid"),
             ("user", "", "invalid"), ("plotting", "contour color", "invalid"),
             ("analysis", "x", "invalid"), ("nosection", "key", "invalid"),
             ("imaging", "flash  duration", "invalid")]
    return keys


# ------------------------------------------------------------------------------------------
# in-memory HDF5 attribute layer
class AttrLayer:
    """one in-memory HDF5 file whose root attributes are used to measure the type map"""

    def __init__(self):
        import h5py
        self.h5 = h5py.File("c11-attrs.h5", "w", driver="core", backing_store=False)
        self.n = 0

    def roundtrip(self, v):
        """value as returned by `parse_config` after `store_metadata` wrote `v`"""
        if isinstance(v, bytes):
            v = v.decode("utf-8")
        self.n += 1
        name = "a"
        self.h5.attrs[name] = v
        r = self.h5.attrs[name]
        del self.h5.attrs[name]
        if isinstance(r, bytes):
            r = r.decode("utf-8")
        return r

    def close(self):
        self.h5.close()


H5_PROBES = [True, False, 0, 3, -5, 2 ** 40, 2.5, 0.0, float("nan"), INF, "abc", "µm", "A b",
             b"abc", (1.5, 2.5), [1, 2], [1.5, 2], [True, False], [True, 2], [], [0],
             [[1, 2], [3, 4]], [[1.5, 2], [3, 4]], np.array(2.5), np.array(3), np.array(True),
             np.array([[1.0, 2.0], [3.0, 4.0]]), np.array([1, 2, 3]), np.zeros((2, 0)),
             np.array([], dtype=float), np.bool_(True), np.int32(4), np.uint8(0),
             np.float32(1.5), np.float64(-0.125), (0.0, 0.0), [False, 0.5]]


def measure_h5(ctx, attrs, lines):
    """queue the model's `h5` for the probe values; returns [(tag, measured tag)]"""
    out = []
    for v in H5_PROBES:
        try:
            got = enc_safe(attrs.roundtrip(v))
        except Exception as e:  # noqa
            got = common.err_class(e)
        out.append((enc(v), got))
        lines.append("h5 " + enc(v))
    return out


# ------------------------------------------------------------------------------------------
# part (a): assignment
OTHER_ROUTES = ["dict_update", "dict_init", "cfg_item", "cfg_update", "cfg_init"]


def oracle_assign(sec, key, v, attrs, dfn, cfgmod, quick_routes):
    """Evaluate the property's own oracle on one assignment.
    Returns (primary answer, warnings, stored value, [failure strings], info dict)."""
    fails = []
    a, ws, w = set_primary(sec, key, v)
    info = {}
    with warnings.catch_warnings():
        warnings.simplefilter("ignore")
        try:
            valid = bool(cfgmod.verify_section_key(sec, key.lower()))
        except Exception:
            valid = None
    info["valid"] = valid
    empty = isinstance(v, str) and v == ""
    # rejects
    if valid is not None and (v is None or empty or not valid):
        if not a.startswith("rejected"):
            fails.append(f"rejects: [{sec}]:{key!r} = {v!r} is not rejected ({a})")
        elif not ws:
            fails.append(f"rejects: [{sec}]:{key!r} = {v!r} rejected without a warning")
    elif valid and a.startswith("rejected"):
        fails.append(f"valid assignment [{sec}]:{key!r} = {v!r} was not stored")
    # case-insensitive
    for k2 in (key.upper(), key.swapcase()):
        if k2 == key:
            continue
        a2, ws2, _w2 = set_primary(sec, k2, v)
        if a2 != a or ws2 != ws:
            fails.append(f"case: [{sec}]:{k2!r} gives {a2} {fmt_warns(ws2)}, "
                         f"{key!r} gives {a} {fmt_warns(ws)}")
    # routes
    for route in quick_routes:
        if route.startswith("cfg") and sec not in dfn.config_keys and sec != "user":
            if route == "cfg_item":
                continue   # Configuration()[unknown section] is a KeyError by construction
        a3, ws3 = set_route(route, sec, key, v)
        same = a3 == a or (a3.startswith("default ") and
                           (a.startswith("rejected") or a == "stored " + a3[8:]))
        if not same or (ws3 - {"wrongType"}) != (ws - {"wrongType"}):
            fails.append(f"route {route}: {a3} {fmt_warns(ws3)} vs item assignment {a} "
                         f"{fmt_warns(ws)} for [{sec}]:{key!r} = {v!r}")
    # documented converter / type of the committed baseline (pins every key it knows)
    doc = baseline_doc(sec, key.lower(), bool(valid)) if (valid and v is not None
                                                          and not empty) else None
    if doc is not None:
        try:
            with warnings.catch_warnings():
                warnings.simplefilter("ignore")
                want = "stored " + enc_safe(baseline_convert(doc[0], v))
        except Exception as e:  # noqa
            want = common.err_class(e)
        if want != a and not ("?" in want and a.startswith("stored")):
            fails.append(f"documented converter: [{sec}]:{key!r} = {v!r} -> {a}; the documented "
                         f"converter {doc[0]} gives {want}")
        elif a.startswith("stored") and doc[0] != "identity" and doc[1] is not None \
                and not isinstance(w, doc[1]) and not (doc[0] == "lcstr"
                                                       and isinstance(v, bytes)):
            fails.append(f"documented type: [{sec}]:{key!r} = {v!r} stored as "
                         f"{type(w).__name__}, documented {doc[1]}")
    if a.startswith("stored"):
        lk = key.lower()
        # idempotent
        a4, _ws4, _w4 = set_primary(sec, lk, w)
        if a4 != a:
            fails.append(f"idempotence: [{sec}]:{lk!r}: {v!r} -> {a}; assigning that again "
                         f"-> {a4}")
        # documented type
        func = dfn.get_config_value_func(sec, lk)
        typ = dfn.get_config_value_type(sec, lk)
        has_conv = getattr(func, "__name__", "") != "<lambda>"
        info["conv"] = getattr(func, "__name__", "?") if has_conv else "identity"
        if has_conv and typ is not None and not isinstance(w, typ):
            if info["conv"] == "lcstr" and isinstance(v, bytes):
                info["O11"] = True
            else:
                fails.append(f"type: [{sec}]:{lk!r} = {v!r} stored as {type(w).__name__}, "
                             f"documented {typ}")
        # attribute round trip (only sections that are written to files)
        if sec in dfn.CFG_METADATA or sec == "user":
            try:
                back = attrs.roundtrip(w)
                storable = True
            except Exception:
                storable = False   # h5py cannot hold the value; keys without converter
                #                    (user section, <feat> min|max) store what they are given
                if has_conv:
                    fails.append(f"storage: normalised value {w!r} of [{sec}]:{lk!r} cannot be "
                                 f"written as HDF5 attribute")
            if storable:
                info["h5"] = enc_safe(back)
                a5, ws5, w5 = set_primary(sec, lk, back)
                info["reassigned"] = a5 + " " + fmt_warns(ws5)
                if not a5.startswith("stored") or not pyeq(w5, w):
                    if not (isinstance(w, bytes)):
                        fails.append(f"storage: [{sec}]:{lk!r} normalised {w!r}; after the HDF5 "
                                     f"attribute layer ({back!r}) -> {a5}")
                elif has_conv and enc_safe(w5) != enc_safe(w):
                    fails.append(f"storage: [{sec}]:{lk!r} {w!r} re-read as {w5!r} "
                                 f"(type changed)")
    return a, ws, w, fails, info


def split_answer(s):
    """('stored <tag>' | 'rejected' | 'err:..', warning set or None)"""
    toks = s.strip().split(" ")
    if toks[0] == "stored":
        ws = toks[2] if len(toks) > 2 else "-"
        return " ".join(toks[:2]), (set() if ws == "-" else set(ws.split(",")))
    if toks[0] == "rejected":
        ws = toks[1] if len(toks) > 1 else "-"
        return "rejected", (set() if ws == "-" else set(ws.split(",")))
    return toks[0], None


def mem_case_line(sec, key, v):
    return f"case s:{enc_str(sec)} s:{enc_str(key)} {enc(v)}"


def compare_model(case, ans, ws, info, mline):
    """impl vs impl-mirror; returns None or a description"""
    parts = [p.strip() for p in mline.split(" ## ")]
    m0 = parts[0]
    if "unmodelled" in m0 or m0 == "bad-op":
        return None if m0 != "bad-op" else "driver answered bad-op"
    v = case["value"]
    ws_i = set(ws)
    toks = m0.split(" ")
    if toks[0] in ("stored", "rejected"):
        m_ws = set() if toks[-1] == "-" else set(toks[-1].split(","))
        m_ans = " ".join(toks[:-1])
    else:
        m_ws, m_ans = None, m0
    if isinstance(v, np.floating) and not isinstance(v, np.float64):
        ws_i.discard("wrongType")
        if m_ws:
            m_ws.discard("wrongType")
    if m_ans != ans:
        return f"[{case['sec']}]:{case['key']!r} = {v!r}: impl '{ans}' model '{m_ans}'"
    if m_ws is not None and m_ws != ws_i:
        return (f"[{case['sec']}]:{case['key']!r} = {v!r}: warnings impl {fmt_warns(ws_i)} "
                f"model {fmt_warns(m_ws)}")
    if len(parts) == 4 and "h5" in info and not info["h5"].startswith("?"):
        if parts[2] != info["h5"]:
            return (f"HDF5 type map: stored {ans}; h5py returns {info['h5']}, model h5 gives "
                    f"{parts[2]}")
        if parts[3] != info.get("reassigned"):
            return (f"re-assignment after storage of [{case['sec']}]:{case['key']!r}: impl "
                    f"'{info.get('reassigned')}' model '{parts[3]}'")
    return None


# ------------------------------------------------------------------------------------------
# part (b): configuration file
def file_load(ctx, sec_hdr, key, text, idx):
    """write one line to a config file and load it both ways; returns (answer, answer2)"""
    _dfn, cfgmod = _mods()
    p = ctx.workdir / f"cfg{idx % 8}.txt"
    p.write_text(f"# verif\n[{sec_hdr}]\n{key} = {text}\n", encoding="utf-8")
    lk, ls = key.strip().lower(), sec_hdr.lower()
    with warnings.catch_warnings():
        warnings.simplefilter("ignore")
        try:
            raw = cfgmod.load_from_file(p)
            a1 = ("stored " + enc_safe(raw[ls][lk])) if (ls in raw and lk in raw[ls]) \
                else "rejected"
        except Exception as e:  # noqa
            a1 = common.err_class(e)
        try:
            cfg = cfgmod.Configuration(files=[p])
            a2 = ("stored " + enc_safe(cfg[ls][lk])) if (ls in cfg and lk in cfg[ls]) \
                else "rejected"
        except Exception as e:  # noqa
            a2 = common.err_class(e)
    return a1, a2


VALID_LINES = [("setup", "channel width", "20.0"), ("setup", "chip region", "channel"),
               ("imaging", "pixel size", "0.34"), ("experiment", "sample", "abc def"),
               ("experiment", "run index", "3"), ("user", "my key", "hello"),
               ("user", "n", "3"), ("plotting", "kde", "histogram"), ("plotting", "bins", "12")]
MALFORMED_LINES = ["= 3", " = x", "  =  ", "novalue =", "novalue2 = ''", "just some text", "   ",
                   "# a comment", "key = # only a comment", "=", "== 2"]


def malformed_file_probe(ctx, spec_fail):
    """Lines without key, without value or without '=' are rejected and not stored: a file with
    such lines mixed in loads, through both entry points, exactly like the file without them."""
    _dfn, cfgmod = _mods()
    rng = ctx.rng
    for j in range(ctx.n(24, 300)):
        good = rng.sample(VALID_LINES, rng.randint(1, len(VALID_LINES)))
        secs = []
        for sec, _k, _v in good:
            if sec not in secs:
                secs.append(sec)
        clean, dirty, used = [], [], []
        for sec in secs:
            clean.append(f"[{sec}]")
            dirty.append(f"[{sec}]")
            for s2, k, v in good:
                if s2 != sec:
                    continue
                for _ in range(rng.randint(0, 2)):
                    bad = rng.choice(MALFORMED_LINES)
                    dirty.append(bad)
                    used.append(bad)
                clean.append(f"{k} = {v}")
                dirty.append(f"{k} = {v}")
            if rng.random() < 0.5:
                bad = rng.choice(MALFORMED_LINES)
                dirty.append(bad)
                used.append(bad)
        pc, pd = ctx.workdir / "mal_clean.cfg", ctx.workdir / "mal_dirty.cfg"
        pc.write_text("\n".join(clean) + "\n", encoding="utf-8")
        pd.write_text("\n".join(dirty) + "\n", encoding="utf-8")
        ctx.case(("malformed", tuple(dirty)), nontrivial=bool(used))
        ctx.stat("malformed_line_files")
        for route in ("load_from_file", "Configuration"):
            def load(path):
                with warnings.catch_warnings():
                    warnings.simplefilter("ignore")
                    if route == "load_from_file":
                        c = cfgmod.load_from_file(path)
                    else:
                        c = cfgmod.Configuration(files=[path])
                    return {s_: {k_: enc_safe(c[s_][k_]) for k_ in c[s_].keys()} for s_ in c.keys()
                            if s_ in secs}
            try:
                want = load(pc)
            except Exception as e:  # noqa: the clean file must load; if not, nothing is judged
                ctx.stat("malformed_probe_clean_file_refused")
                continue
            try:
                got = load(pd)
            except Exception as e:  # noqa
                spec_fail.append((f"{route} raises {type(e).__name__} on a configuration file "
                                  f"with the malformed lines {sorted(set(used))[:4]} (they must be "
                                  f"rejected and not stored)",
                                  {"kind": "malformed-file", "lines": dirty, "route": route}))
                break
            if got != want:
                spec_fail.append((f"{route}: malformed lines {sorted(set(used))[:4]} change what is "
                                  f"loaded: {got} instead of {want}"[:400],
                                  {"kind": "malformed-file", "lines": dirty, "route": route}))
                break


def clean_text(t):
    """what load_from_file makes of the text right of '='"""
    return t.split("#")[0].strip().strip("' ").strip('" ').strip()


# ------------------------------------------------------------------------------------------
# part (c): storage
NOT_CARRIED = {("experiment", "event count"), ("experiment", "run index"),
               ("setup", "software version"), ("fluorescence", "samples per event"),
               ("fluorescence", "channel count"), ("imaging", "roi size x"),
               ("imaging", "roi size y"), ("experiment", "date"), ("experiment", "time"),
               ("experiment", "run identifier"), ("experiment", "sample"),
               ("fluorescence", "channels installed"), ("fluorescence", "laser count"),
               ("fluorescence", "lasers installed")}


def has_conv(sec, key):
    dfn, _c = _mods()
    return getattr(dfn.get_config_value_func(sec, key.lower()), "__name__", "") != "<lambda>"


def write_file(path, entries, n_events=4):
    """complete .rtdc file whose metadata contain `entries` = [(sec, key, value)]"""
    meta = {}
    for sec, key, v in entries:
        meta.setdefault(sec, {})[key] = v
    gen.make_rtdc(path, list(range(n_events)), feats=("deform", "area_um"), meta=meta)
    return path


def read_config(path):
    dclab = common.import_dclab()
    with warnings.catch_warnings():
        warnings.simplefilter("ignore")
        with dclab.new_dataset(path) as ds:
            return {s: {k: ds.config[s][k] for k in ds.config[s].keys()}
                    for s in ds.config.keys()}


_COUNTER = [0]


def storage_fail(ctx, entries):
    """None if the batch stores and re-opens with values equal to the normalised ones"""
    import h5py
    _COUNTER[0] += 1   # fresh name: a failed open can leave the previous file locked
    path = ctx.workdir / f"st{_COUNTER[0]}.rtdc"
    try:
        with warnings.catch_warnings():
            warnings.simplefilter("ignore")
            write_file(path, entries)
    except Exception as e:  # noqa
        return f"store_metadata raised {e!r}"[:200]
    try:
        cfg = read_config(path)
    except Exception as e:  # noqa
        return (f"file written by store_metadata cannot be opened: {type(e).__name__}: "
                f"{str(e)[:120]}")
    with h5py.File(path, "r") as h5:
        raw = dict(h5.attrs)
    for sec, key, v in entries:
        lk = key.lower()
        _a, _ws, w = set_primary(sec, lk, v.decode("utf-8") if isinstance(v, bytes) else v)
        got = cfg.get(sec, {}).get(lk, "<missing>")
        if isinstance(got, str) and got == "<missing>":
            return f"[{sec}]:{lk} = {v!r} missing after re-opening"
        if not pyeq(got, w):
            return f"[{sec}]:{lk} = {v!r}: normalised {w!r}, re-opened {got!r}"
        if has_conv(sec, lk) and enc_safe(got) != enc_safe(w):
            return f"[{sec}]:{lk} = {v!r}: normalised {w!r}, re-opened {got!r} (type differs)"
        r = raw.get(f"{sec}:{key}")
        if isinstance(r, bytes):
            r = r.decode("utf-8")
        if r is None or not pyeq(r, w):
            return f"[{sec}]:{lk} = {v!r}: raw HDF5 attribute {r!r} != normalised {w!r}"
    return None


NAN = float("nan")
TINY = 5e-324                      # smallest subnormal double
SMALL = 2.2250738585072014e-308    # smallest normal double
HUGE = 1.7976931348623157e308      # largest finite double
#: values at the edge of the value range, per converter: non-finite floats, signed zeros,
#: subnormals, the largest doubles, integers up to 64 bit (those handed to converters that go
#: through float() are exactly representable doubles: the model computes with exact numbers),
#: texts that are blank or empty after stripping, texts spelling special numbers
EDGE_VALUES = {
    "float": [NAN, INF, -INF, -0.0, TINY, -TINY, SMALL, HUGE, -HUGE, np.float32("nan"),
              np.float64("-inf"), np.float16("inf"), np.float64("nan"), "nan", "inf", "-inf",
              "NaN", "-0.0", b"nan", np.array(NAN), np.array(-INF), 2 ** 62, -2 ** 63, 2 ** 63,
              np.float32(1e-45), np.uint64(2 ** 63)],
    "fint": [2 ** 62, -2 ** 63, 2 ** 53, 2 ** 63, np.int64(-2 ** 63), np.uint64(2 ** 63), -0.0,
             "-0", "9007199254740992", 4e18, np.float64(-0.0)],
    "fbool": [-0.0, np.float64(-0.0), TINY, "FALSE", "TRUE"],
    "fboolorfloat": [NAN, INF, -INF, -0.0, TINY, HUGE, np.float32("nan"), np.float64("inf"),
                     "nan", "-inf", SMALL],
    "f1dfloatduple": [(NAN, 1.5), [INF, -INF], np.array([NAN, NAN]), (-0.0, TINY),
                      ["nan", "inf"], np.array([HUGE, -HUGE]), (NAN, INF),
                      np.array([np.nan, 0.5], dtype=np.float32)],
    "f2dfloatarray": [[[NAN, 1.0], [INF, -INF]], np.array([[NAN, 0.5]]), [[-0.0, TINY]],
                      np.array([[HUGE, -HUGE], [SMALL, NAN]]), [[NAN, NAN]], NAN, [INF, NAN]],
    "lcstr": [" ", "NaN", " X ", "\t", "INF", "None", "0"],
    "str": [" ", "  x ", "\t", "nan", "None", "0", "-0.0", "inf", "   ", "''", NAN, -0.0, INF],
    "identity": [NAN, INF, -INF, -0.0, TINY, HUGE, np.float32("nan"), np.float64("nan"),
                 2 ** 63 - 1, -2 ** 63, np.float16("-inf"), SMALL],
    "user": [NAN, INF, -INF, -0.0, TINY, HUGE, -HUGE, np.float32("nan"), np.float64("nan"),
             np.float16("inf"), [NAN], [NAN, 1.0], (INF,), np.array([NAN, INF]), [-0.0],
             [[NAN, -INF]], np.array([[NAN]]), np.array(NAN), 2 ** 63 - 1, -2 ** 63,
             2 ** 64 - 1, 2 ** 63, np.uint64(2 ** 64 - 1), " ", "  ", "nan", "None", " x ",
             np.array([], dtype=np.float32), [TINY, HUGE]],
}


def double_exact(v):
    """no integer in `v` is changed by float(): converters that go through float() round larger
    integers to the nearest double (trusted: float rounding; the model computes exactly)"""
    try:
        if isinstance(v, (str, bytes)) or v is None:
            return True
        if isinstance(v, (list, tuple)):
            return all(double_exact(x) for x in v)
        a = np.asarray(v)
        if a.dtype.kind in "iu":
            return all(int(float(x)) == int(x) for x in a.ravel().tolist())
        if a.dtype.kind == "O":
            return all(double_exact(x) for x in a.ravel().tolist())
        return True
    except Exception:  # noqa
        return True


def edge_value(rng, dfn, sec, key):
    """a value at the edge of the value range that the key's converter ACCEPTS, or None.

    Acceptance is asked from the code itself (in-memory assignment), so a converter that starts
    to refuse a class of values shows up in the assignment part, not as a storage failure."""
    n = getattr(dfn.get_config_value_func(sec, key), "__name__", "")
    pool = EDGE_VALUES.get(n)
    if pool is None:
        pool = EDGE_VALUES["user" if sec == "user" else "identity"]
    v = pool[rng.randrange(len(pool))]
    try:
        a, _ws, _w = set_primary(sec, key, v.decode("utf-8") if isinstance(v, bytes) else v)
    except Exception:  # noqa
        return None
    return v if a.startswith("stored") else None


def good_value(rng, dfn, sec, key, edge=0.3):
    """a value (random representation) the key's converter accepts; with probability `edge`
    one from the edge of the value range (`EDGE_VALUES`)"""
    func = dfn.get_config_value_func(sec, key)
    n = getattr(func, "__name__", "")
    if edge and rng.random() < edge:
        v = edge_value(rng, dfn, sec, key)
        if v is not None:
            return v
    if n == "fbool":
        return rng.choice([True, False, "true", "False", 0, 1, np.bool_(True), 2.5, b"0"])
    if n == "fint":
        return rng.choice([3, "7", 2.5, True, np.int32(5), np.uint8(0), "1e3", np.float32(4.0),
                           0, b"12"])
    if n == "float":
        return rng.choice([2.5, "0.125", 3, np.float32(1.5), True, np.int64(-3), "1e3", 0,
                           np.array(0.5), b"2.5"])
    if n == "fboolorfloat":
        return rng.choice([True, False, 0.5, 2, "true", "0.0", np.bool_(True), np.bool_(False),
                           np.int32(3), np.float32(0.25), 0, np.float64(1.5), np.uint8(0)])
    if n == "f1dfloatduple":
        return rng.choice([(1.5, 2.5), [0, 3], np.array([0.5, 0.25]), ["1", 2.5], (True, 0),
                           np.array([1, 2], dtype=np.int32)])
    if n == "f2dfloatarray":
        return rng.choice([[[1, 2], [3, 4.5]], np.array([[0.5, 1.0], [2.0, 3.0], [4.0, 5.0]]),
                           [[1.5, 2.5]], np.array([[1, 2], [3, 4]]), [1.5, 2.5], 3])
    if n == "lcstr":
        return rng.choice(["Channel", "RESERVOIR", "zmd-1", b"Chip-A"])
    if n == "str":
        return rng.choice(TEXTS + [b"bytes-text", "A", "tblr"])
    # identity (user section, online_filter min/max)
    if sec == "user":
        from . import c11_hist
        return c11_hist.container_values(rng)
    return rng.choice([2.5, 3, np.float64(0.5), 0])


def storable_keys(ctx, dfn):
    keys = []
    for sec in dfn.CFG_METADATA:
        if sec == "fmt_tdms":
            continue   # removed by store_metadata on purpose
        for item in dfn.CFG_METADATA[sec]:
            if (sec, item[0]) in (("experiment", "event count"), ("setup", "software version")):
                continue   # rewritten by the writer (O8)
            keys.append((sec, item[0]))
    feats = list(dfn.scalar_feature_names)
    for f in ctx.rng.sample(feats, 8):
        g = ctx.rng.choice(feats)
        keys += [("online_filter", f"{f} min"), ("online_filter", f"{f} max"),
                 ("online_filter", f"{f} soft limit"),
                 ("online_filter", f"{f},{g} polygon points"),
                 ("online_filter", f"{f},{g} soft limit")]
    keys += [("user", k) for k in ["my key", "n", "µ value", "a list", "flag", "x min"]]
    return keys


def carry_through(ctx, entries, j):
    """export.hdf5, compress, repack, condense, join, split: metadata must be carried over"""
    dclab = common.import_dclab()
    from dclab import cli
    wd = ctx.workdir / f"carry{j}"
    wd.mkdir(exist_ok=True)
    src = wd / "src.rtdc"
    fails = []
    with warnings.catch_warnings():
        warnings.simplefilter("ignore")
        try:
            write_file(src, entries, n_events=6)
            ref = read_config(src)
        except Exception as e:  # noqa
            return [f"source file: {e!r}"[:200]]
        outs = {}
        try:
            with dclab.new_dataset(src) as ds:
                ds.export.hdf5(wd / "export.rtdc", features=["deform", "area_um"], override=True)
            outs["export.hdf5"] = [wd / "export.rtdc"]
        except Exception as e:  # noqa
            fails.append(f"export.hdf5 raised {e!r}"[:200])
        for name, fn in (("compress", lambda o: cli.compress(path_in=src, path_out=o)),
                         ("repack", lambda o: cli.repack(path_in=src, path_out=o)),
                         ("condense", lambda o: cli.condense(path_in=src, path_out=o))):
            o = wd / f"{name}.rtdc"
            try:
                fn(o)
                outs[name] = [o]
            except Exception as e:  # noqa
                fails.append(f"{name} raised {e!r}"[:200])
        try:
            sp = cli.split(path_in=src, path_out=wd / "split", split_events=3, ret_out_paths=True)
            outs["split"] = list(sp)
        except Exception as e:  # noqa
            fails.append(f"split raised {e!r}"[:200])
        try:
            src2 = wd / "src2.rtdc"
            write_file(src2, entries + [("experiment", "run index", 2)], n_events=3)
            cli.join(paths_in=[src, src2], path_out=wd / "join.rtdc")
            outs["join"] = [wd / "join.rtdc"]
        except Exception as e:  # noqa
            fails.append(f"join raised {e!r}"[:200])
        # reference = the normalised ORIGINALS (in-memory assignment of what was written), not
        # what the re-opened source reports: a reader that loses or alters a value would
        # otherwise lose it in the reference and in the output alike.  The re-opened source is
        # judged as one more view.
        views = [("re-opened source", src, ref)]
        for tool, paths in outs.items():
            for p in paths:
                try:
                    views.append((tool, p, read_config(p)))
                except Exception as e:  # noqa
                    fails.append(f"{tool}: output cannot be opened: {e!r}"[:200])
            ctx.stat("carried:" + tool)
        last = {(sec, key): v for sec, key, v in entries}   # a repeated key: last value wins
        for (sec, key), v in last.items():
            lk = key.lower()
            if (sec, lk) in NOT_CARRIED:
                continue
            _a, _ws, want = set_primary(sec, lk, v.decode("utf-8") if isinstance(v, bytes) else v)
            for tool, p, got in views:
                have = got.get(sec, {}).get(lk, "<missing>")
                if isinstance(have, str) and have == "<missing>":
                    fails.append(f"{tool}: [{sec}]:{lk} written as {v!r} (normalised {want!r}) "
                                 f"is missing")
                elif not pyeq(have, want) or (has_conv(sec, lk)
                                              and enc_safe(have) != enc_safe(want)):
                    fails.append(f"{tool}: [{sec}]:{lk} written as {v!r}, normalised {want!r}, "
                                 f"file gives {have!r}")
    return fails


# ------------------------------------------------------------------------------------------
def corpus_cases():
    out = []
    corpus = common.VERIF / "corpus" / "C11"
    if corpus.exists():
        for p in sorted(corpus.glob("*.json")):
            out.append(json.loads(p.read_text()))
    return out


def run_replay_case(ctx, rp, attrs=None, verbose=False):
    """re-execute one recorded input; returns list of failure strings"""
    dfn, cfgmod = _mods()
    own = attrs is None
    attrs = attrs or AttrLayer()
    try:
        kind = rp.get("kind", "assign")
        if kind == "malformed-file":
            pth = ctx.workdir / "mal_replay.cfg"
            pth.write_text("\n".join(rp["lines"]) + "\n", encoding="utf-8")
            try:
                with warnings.catch_warnings():
                    warnings.simplefilter("ignore")
                    if rp.get("route") == "Configuration":
                        cfgmod.Configuration(files=[pth])
                    else:
                        cfgmod.load_from_file(pth)
            except Exception as e:  # noqa
                return [f"{rp.get('route')} raises {type(e).__name__} on a configuration file with "
                        f"malformed lines (they must be rejected and not stored)"]
            return []
        if kind == "assign":
            v = dec(rp["value"])
            a, ws, _w, fails, info = oracle_assign(rp["sec"], rp["key"], v, attrs, dfn, cfgmod,
                                                   OTHER_ROUTES)
            if verbose:
                print("impl:", a, fmt_warns(ws), info)
            return fails
        if kind == "store":
            entries = [(s, k, dec(t)) for s, k, t in rp["entries"]]
            f = storage_fail(ctx, entries)
            return [f] if f else []
        if kind == "carry":
            entries = [(s, k, dec(t)) for s, k, t in rp["entries"]]
            return carry_through(ctx, entries, 99)
        if kind == "guessrt":
            from . import c11_guess
            return c11_guess.replay_case(ctx, rp, verbose=verbose)
        if kind == "carrydata":
            from . import c11_carry
            return c11_carry.replay_case(ctx, rp, verbose=verbose)
        if kind in ("reghist", "storehist", "text", "sources"):
            from . import c11_hist
            return c11_hist.replay_case(ctx, rp, verbose=verbose)
        if kind == "file":
            a1, a2 = file_load(ctx, rp["sec"], rp["key"], rp["text"], 0)
            t = clean_text(rp["text"])
            try:
                known = bool(dfn.config_key_exists(rp["sec"].lower(), rp["key"].lower()))
            except Exception:
                known = False
            try:
                if not known and t != "":
                    t = cfgmod.keyval_str2typ(rp["key"], t)[1]
                a, _ws, _w = set_primary(rp["sec"].lower(), rp["key"], t)
            except Exception as e:  # noqa
                a = common.err_class(e)
                a2 = a1
            if verbose:
                print("file:", a1, a2, "assignment of the text:", a)
            return [] if (a2 == a or (a.startswith("rejected") and a2.startswith("rejected"))) \
                else [f"file route {a2} vs assignment {a}"]
        return []
    finally:
        if own:
            attrs.close()


def run(ctx):
    dfn, cfgmod = _mods()
    rng = ctx.rng
    attrs = AttrLayer()
    lines = []
    spec_fail = []        # (what, replay)
    mirror_bad = []

    # ---- 0. corpus -------------------------------------------------------------------
    for c in corpus_cases():
        for f in run_replay_case(ctx, c, attrs):
            spec_fail.append((f, c))
        ctx.stat("corpus")

    malformed_file_probe(ctx, spec_fail)

    # ---- 1. HDF5 type map ---------------------------------------------------------------
    h5_meas = measure_h5(ctx, attrs, lines)
    n_h5 = len(lines)

    # ---- 2. assignments -----------------------------------------------------------------
    keys = all_keys(ctx, dfn)
    draws = ctx.n(1, 6)
    cases = []
    rare = {"fboolorfloat", "f1dfloatduple", "fintlist", "lcstr"}
    for sec, key, klass in keys:
        cname = getattr(dfn.get_config_value_func(sec, key), "__name__", "")
        # converters used by one or two keys only get more values per representation
        for _ in range(draws * (8 if cname in rare else 1)):
            for rname, v in representations(rng).items():
                kk = key
                r = rng.random()
                if r < 0.25:
                    kk = random_case_key(rng, key)
                elif r < 0.35:
                    kk = key.upper()
                cases.append({"sec": sec, "key": kk, "klass": klass, "rep": rname, "value": v})
    results = []
    for i, c in enumerate(cases):
        routes = OTHER_ROUTES if (ctx.thorough or i % 4 == 0) else [OTHER_ROUTES[i % 5]]
        try:
            a, ws, w, fails, info = oracle_assign(c["sec"], c["key"], c["value"], attrs, dfn,
                                                  cfgmod, routes)
        except Unencodable:
            continue
        tag = enc(c["value"])
        results.append((c, a, ws, info, len(lines)))
        lines.append(mem_case_line(c["sec"], c["key"], c["value"]))
        branch = a.split(" ")[0]
        ctx.case((c["sec"], c["key"].lower(), tag), nontrivial=True,
                 sample={"section": c["sec"], "key": c["key"], "value": tag, "impl": a,
                         "warnings": fmt_warns(ws)} if (i % 997 == 5) else None)
        ctx.stat("rep:" + c["rep"])
        ctx.stat("branch:" + branch)
        ctx.stat("conv:" + info.get("conv", "-"))
        ctx.stat("keyclass:" + c["klass"])
        if info.get("O11"):
            ctx.note("O11: lcstr applied to bytes returns bytes (documented type str); "
                     "store_metadata decodes bytes first, so files are not affected")
        for f in fails:
            spec_fail.append((f, {"kind": "assign", "sec": c["sec"], "key": c["key"],
                                  "value": tag}))

    # ---- 3. configuration file route ---------------------------------------------------
    file_cases = []
    table_keys = [(s, k) for s, k, kl in keys if kl in ("table", "pattern", "user")
                  or (kl == "invalid" and k.strip() and s in dfn.config_keys)]
    for idx, (sec, key) in enumerate(table_keys):
        for _ in range(ctx.n(1, 4)):
            R = representations(rng)
            text = R[rng.choice(["str_int", "str_float", "str_bool", "str_text", "str_list",
                                 "str_special"])]
            # rendering of a normalised value by tostring/keyval_typ2str
            v = good_value(rng, dfn, sec, key)
            _a, _ws, w = set_primary(sec, key, v)
            rendered = False
            if w is not None and rng.random() < 0.5:
                try:
                    text = cfgmod.keyval_typ2str(key, w)[1]
                    rendered = True
                except Exception:
                    pass
            if "\n" in text:
                continue
            hdr = sec if rng.random() < 0.6 else random_case_key(rng, sec)
            kk = key if rng.random() < 0.6 else random_case_key(rng, key)
            pad = rng.choice(["", " ", "  "])
            file_cases.append((hdr, kk, pad + text + pad, rendered))
    file_results = []
    for idx, (hdr, kk, text, rendered) in enumerate(file_cases):
        a1, a2 = file_load(ctx, hdr, kk, text, idx)
        if rendered and a1.startswith("err"):
            ctx.note("O12: Configuration.tostring renders tuple/array values (f1dfloatduple, "
                     "f2dfloatarray keys) as text that load_from_file refuses; rendering is "
                     "outside C11 (DESIGN section 8)")
        t = clean_text(text)
        sec = hdr.lower()
        known_key = False
        try:
            known_key = bool(dfn.config_key_exists(sec, kk.lower()))
        except Exception:
            pass
        tv = t
        if not known_key and t != "":
            # keys without table entry ([filtering]: <feat> min|max): the loader guesses the type
            ctx.stat("file:type-guessed")
            try:
                tv = cfgmod.keyval_str2typ(kk, t)[1]
            except Exception as e:  # noqa  ("[x]" is not a list of floats)
                tv = e
            if isinstance(tv, float) and not pyeq(tv, float(t.replace(",", "."))):
                spec_fail.append((f"keyval_str2typ({t!r}) = {tv!r}",
                                  {"kind": "file", "sec": hdr, "key": kk, "text": text}))
        if isinstance(tv, Exception):
            a = common.err_class(tv)
        else:
            a, _ws, _w = set_primary(sec, kk, tv)
        ctx.case(("file", sec, kk.lower(), text), nontrivial=True)
        ctx.stat("file:" + a2.split(" ")[0])
        ok = (a2 == a) or (a2.startswith("rejected") and (a.startswith("rejected") or t == ""))
        if not ok and t == "" and a1 == "rejected":
            # a line without value is skipped: the key keeps what a fresh Configuration holds
            # (some [filtering] keys have defaults)
            with warnings.catch_warnings():
                warnings.simplefilter("ignore")
                fresh = cfgmod.Configuration()
            dflt = ("stored " + enc_safe(fresh[sec][kk.lower()])) \
                if (sec in fresh and kk.lower() in fresh[sec]) else "rejected"
            ok = a2 == dflt
        # a value the converter refuses makes load_from_file raise like the assignment
        if not ok and not (a.startswith("err") and a1 == a):
            spec_fail.append((f"configuration file line '[{hdr}] {kk} = {text}' gives {a2}; "
                              f"assigning the text gives {a}",
                              {"kind": "file", "sec": hdr, "key": kk, "text": text}))
        if known_key and t != "":
            file_results.append(((hdr, kk, text), a2 if not a2.startswith("err") else a1,
                                 len(lines)))
            lines.append(f"file s:{enc_str(sec)} s:{enc_str(kk)} s:{enc_str(text)}")

    # ---- 4. storage ----------------------------------------------------------------------
    skeys = storable_keys(ctx, dfn)
    n_batches = ctx.n(10, 120)
    for b in range(n_batches):
        chosen = rng.sample(skeys, rng.randint(6, 14))
        if b == 0:
            chosen.append(("qpi", "scale to filter"))
        entries = []
        seen = set()
        for sec, key in chosen:
            if (sec, key) in seen or (sec, key) == ("setup", "software version"):
                continue
            seen.add((sec, key))
            v = good_value(rng, dfn, sec, key)
            if b == 0 and (sec, key) == ("qpi", "scale to filter"):
                v = True
            kk = key if sec == "user" else key   # store_metadata requires exact (lower) keys
            entries.append((sec, kk, v))
        f = storage_fail(ctx, entries)
        ctx.case(("store", [(s, k, enc_safe(v)) for s, k, v in entries]), nontrivial=True,
                 sample={"stored": [(s, k, enc_safe(v)) for s, k, v in entries[:4]],
                         "result": f or "re-opened values equal the normalised ones"}
                 if b == 1 else None)
        ctx.stat("store_batches")
        ctx.stat("store_keys", len(entries))
        if f:
            small = common.ddmin(entries, lambda e: storage_fail(ctx, e) is not None,
                                 max_tests=60)
            f2 = storage_fail(ctx, small) or f
            spec_fail.append((f2, {"kind": "store",
                                   "entries": [(s, k, enc_safe(v)) for s, k, v in small]}))
    # values the converter refuses must make store_metadata raise (nothing half-written)
    for _ in range(ctx.n(25, 250)):
        sec, key = rng.choice(skeys)
        v = representations(rng)[rng.choice(["str_text", "list2", "arr1", "none", "str_empty",
                                             "arr2", "tuple"])]
        if sec == "user":
            continue
        a, _ws, _w = set_primary(sec, key, v.decode() if isinstance(v, bytes) else v)
        if not a.startswith("err"):
            continue
        try:
            with warnings.catch_warnings():
                warnings.simplefilter("ignore")
                _COUNTER[0] += 1
                write_file(ctx.workdir / f"bad{_COUNTER[0]}.rtdc", [(sec, key, v)])
            got = "stored"
        except Exception as e:  # noqa
            got = common.err_class(e)
        ctx.case(("store-bad", sec, key, enc_safe(v)), nontrivial=True)
        ctx.stat("store_refused")
        if got != a:
            spec_fail.append((f"store_metadata([{sec}]:{key} = {v!r}) -> {got}, item assignment "
                              f"-> {a}", {"kind": "store", "entries": [(sec, key, enc_safe(v))]}))

    # ---- 5. carried through export and the command-line tools ------------------------------
    for j in range(ctx.n(2, 12)):
        chosen = [k for k in rng.sample(skeys, 12) if k not in NOT_CARRIED]
        entries = [(s, k, good_value(rng, dfn, s, k)) for s, k in dict.fromkeys(chosen)]
        if j == 0:
            entries.append(("qpi", "scale to filter", 0.5))
            entries.append(("user", "flag", True))
        fails = carry_through(ctx, entries, j)
        ctx.case(("carry", [(s, k, enc_safe(v)) for s, k, v in entries]), nontrivial=True)
        for f in fails:
            spec_fail.append((f, {"kind": "carry",
                                  "entries": [(s, k, enc_safe(v)) for s, k, v in entries]}))

    attrs.close()

    # ---- 6. histories: feature registry, repeated store_metadata, text route ---------------
    from . import c11_hist
    checks = []
    hist_lines = []
    c11_hist.part_registry(ctx, hist_lines, checks, spec_fail)
    c11_hist.part_store_hist(ctx, hist_lines, checks, spec_fail)
    c11_hist.part_text(ctx, hist_lines, checks, spec_fail)
    c11_hist.part_sources(ctx, hist_lines, checks, spec_fail)
    from . import c11_carry
    c11_carry.part_carry(ctx, hist_lines, checks, spec_fail, skeys, with_model=True)
    from . import c11_guess
    guess_checks = []
    c11_guess.part_guess(ctx, hist_lines, checks, spec_fail, guess_checks)
    off = len(lines)
    lines += hist_lines

    # ---- model -------------------------------------------------------------------------------
    if ctx.lean_ok:
        out = ctx.lean("C11", lines)
        for (tag, got), m in zip(h5_meas, out[:n_h5]):
            ctx.stat("h5_probes")
            if got != m:
                mirror_bad.append(f"HDF5 attribute type map: h5py maps {tag} to {got}, the "
                                  f"model's h5 to {m}")
        for c, a, ws, info, li in results:
            d = compare_model(c, a, ws, info, out[li])
            if "unmodelled" in out[li]:
                ctx.stat("model_unmodelled")
            if d:
                mirror_bad.append(d)
        for (hdr, kk, text), a2, li in file_results:
            m = out[li]
            if "unmodelled" in m:
                continue
            toks = m.split(" ")
            m_ans = " ".join(toks[:-1]) if toks[0] in ("stored", "rejected") else m
            if m_ans != a2:
                mirror_bad.append(f"file route '[{hdr}] {kk} = {text}': impl '{a2}' model "
                                  f"'{m_ans}'")

        for li, want, what in guess_checks:
            m = c11_guess.canon_model(out[off + li])
            if m == "unmodelled":
                ctx.stat("model_unmodelled")
                continue
            ctx.stat("guess_model_checks")
            if m != want:
                mirror_bad.append(f"{what}: impl '{want}' model '{m}'")
        for li, want, what, mode, deps in checks:
            m = out[off + li]
            if "unmodelled" in m:
                continue
            if mode == "number":
                # model: exact value of the written decimal; implementation: nearest double
                from fractions import Fraction
                toks = m.split(" ")
                ok_num = False
                if toks[0] == "stored" and toks[1][:2] in ("f:", "i:"):
                    try:
                        ok_num = float(Fraction(toks[1][2:])) == float(want) and \
                            (toks[1][0] == "i") == (type(want) is int)
                    except Exception:
                        ok_num = False
                ctx.stat("history_model_checks")
                if not ok_num:
                    mirror_bad.append(f"{what}: impl {want!r} model '{m}'")
                continue
            if mode == "attr":
                if any(out[off + j] != "ok" for j in deps):
                    ctx.stat("history_model_skipped")
                    continue
                same = m == want
            else:
                ma, mw = split_answer(m)
                wa, ww = split_answer(want)
                if mode == "nowarn" or mw is None or ww is None:
                    same = ma == wa
                else:
                    same = ma == wa and (mw - {"wrongType"}) == (ww - {"wrongType"})
            ctx.stat("history_model_checks")
            if not same:
                mirror_bad.append(f"{what}: impl '{want}' model '{m}'")

    # ---- verdicts ------------------------------------------------------------------------------
    seen = set()
    for what, rp in spec_fail:
        k = what.split(":")[0] + str(rp.get("sec")) + str(rp.get("key", ""))[:12]
        if k in seen:
            continue
        seen.add(k)
        ctx.violation("spec", what[:300], rp)
    if mirror_bad and not spec_fail:
        # every case already evaluated the property's oracle; an extended search over more
        # random values (10x) looks for an input on which the implementation itself fails
        found = False
        attrs = AttrLayer()
        try:
            for _ in range(10):
                for sec, key, klass in keys:
                    R = representations(rng)
                    rname = rng.choice(list(R))
                    try:
                        _a, _ws, _w, fails, _i = oracle_assign(sec, key, R[rname], attrs, dfn,
                                                               cfgmod, OTHER_ROUTES)
                    except Unencodable:
                        continue
                    if fails:
                        ctx.violation("spec", fails[0][:300],
                                      {"kind": "assign", "sec": sec, "key": key,
                                       "value": enc_safe(R[rname])})
                        found = True
                        break
                if found:
                    break
        finally:
            attrs.close()
        if not found:
            ctx.violation("mirror", f"configuration code differs from its Lean model "
                                    f"({len(mirror_bad)} cases), first: {mirror_bad[0]}"[:400],
                          {"correspondence": "Drive/C11.lean vs dclab.rtdc_dataset.config / "
                                             "dclab.definitions.meta_parse",
                           "first": mirror_bad[:5]})
    ctx.stat("mirror_disagreements", len(mirror_bad))


def replay(ctx, data):
    rp = data["replay"]
    if "kind" not in rp and "sec" not in rp:
        print("no concrete input in this replay file:", json.dumps(rp)[:400])
        return True
    fails = run_replay_case(ctx, rp, verbose=True)
    for f in fails:
        print("FAIL:", f)
    return bool(fails)
