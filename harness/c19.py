"""C19 — remote range-cached access returns the bytes and data of the resource.

Correspondence between `dclab.http_utils.HTTPFile` (real code, in-process fake `requests`
session) and the Lean model `DclabModel.Http` (driver `Drive/C19.lean`), plus RTDC_HTTP vs
RTDC_HDF5 on generated files with tiny chunk sizes so that eviction happens during HDF5
parsing.
"""
import json
import os

import numpy as np

from . import common, gen

ID = "C19"
LEAN_MODULES = ["DclabModel.Properties.C19"]
RULE = ("(a) seeded histories of seek/tell/read on HTTPFile for resources of size k*cs+{-1,0,1}, "
        "cs in {1,2,3,7,16,64}, keep in {2,3,8,200}; every answer, the cache key order and the "
        "issued Range requests are compared with the Lean model after each op, and every "
        "in-range read with blob[pos:pos+n] directly; about one read in ten is hit by an injected "
        "download failure at a chosen request of its chunk loop (position must not move, the retry "
        "must return the bytes); the same histories are driven through S3File with a fake "
        "s3_object that honours RFC 7233 ranges; groups of 2-3 file objects open at the same time "
        "(same or different resources, different chunk sizes) with interleaved histories, each "
        "member judged like a file object alone in the process. (b) RTDC_HTTP (patched to small chunk "
        "size/capacity) vs RTDC_HDF5 on generated .rtdc files. distinct = distinct "
        "(cs,keep,len,op list) histories containing at least one read that crosses a chunk "
        "boundary or triggers an eviction.")
TRUSTED_BASE = [
    "modelled, not verified: the `requests` session (replaced by harness.common.FakeSession: "
    "206 with blob[a:b+1], 416 with an arbitrary body for unsatisfiable ranges), sockets, "
    "retries, ETag handling; h5py's use of the file object",
    "theorems require chunk_size > 0, keep_chunks >= 2 and reads inside the resource; "
    "keep_chunks = 1 is known finding F20",
]
ASSUMPTIONS = ["server honours Range requests exactly (bytes a..b inclusive)"]
NOT_PROVED = ["S3File: boto3 client construction, authentication and the real S3 wire protocol (the "
              "file object is driven offline with a fake s3_object; its download_range/_parse_header "
              "are exercised by the same histories as HTTPFile)",
              "RTDC_HTTP == RTDC_HDF5 is correspondence-only on top of read_exact"]

URL = "http://verif.invalid/res.bin"


class Skip(Exception):
    """this sub-comparison cannot be made on the tree under test (private name gone)"""


class InjectedFault(OSError):
    """a transient network failure injected by the harness"""


class FaultySession(common.FakeSession):
    """FakeSession whose (fail_in+1)-th Range request from now raises InjectedFault"""
    fail_in = None

    def get(self, url, headers=None, **kw):
        if (headers or {}).get("Range") is not None and self.fail_in is not None:
            if self.fail_in == 0:
                self.log.append((url, headers["Range"]))
                self.fail_in = None
                raise InjectedFault("injected download failure")
            self.fail_in -= 1
        rng_h = (headers or {}).get("Range")
        if url in self.blobs and rng_h is None:
            import hashlib
            blob = self.blobs[url]
            self.log.append((url, None))
            return common.FakeResponse(200, blob, {
                "content-length": str(len(blob)),
                "etag": '"%s"' % hashlib.md5(blob).hexdigest()})      # ETag identifies the content
        if url in self.blobs and rng_h is not None:
            import re
            if not re.fullmatch(r"bytes=\d+-\d+", str(rng_h)):       # not a byte range a server
                self.log.append((url, rng_h))                         # would satisfy
                return common.FakeResponse(416, self.oob, reason="Range Not Satisfiable")
        return super().get(url, headers=headers, **kw)


class FakeS3Object:
    """stands in for boto3's s3.Object: content_length, e_tag, get(Range='bytes=a-b')"""

    def __init__(self, blob, oob):
        self.blob, self.oob, self.log, self.fail_in = blob, oob, [], None

    @property
    def content_length(self):
        return len(self.blob)

    @property
    def e_tag(self):
        return '"verif-etag-%d"' % len(self.blob)

    def get(self, Range=None, **kw):
        import io
        self.log.append((URL, Range))
        if not (isinstance(Range, str) and Range.startswith("bytes=")):
            return {"Body": io.BytesIO(self.oob)}
        if self.fail_in is not None:
            if self.fail_in == 0:
                self.fail_in = None
                raise InjectedFault("injected download failure")
            self.fail_in -= 1
        try:
            a, b = Range[6:].split("-")
            a, b = int(a), int(b)
        except ValueError:
            return {"Body": io.BytesIO(self.oob)}
        if a >= len(self.blob) or b < a:
            return {"Body": io.BytesIO(self.oob)}
        return {"Body": io.BytesIO(self.blob[a:b + 1])}


def open_file(case, oob, ses=None, url=URL):
    """the file object under test and the object that logs its requests"""
    from dclab import http_utils
    blob = bytes(case["blob"])
    if case.get("kind", "http") == "s3":
        from dclab.rtdc_dataset import fmt_s3
        f = fmt_s3.S3File("verif-bucket/res.bin", "http://verif.invalid:9000")
        srv = FakeS3Object(blob, oob)
        f.s3_object = srv
        # S3File takes no chunk parameters: the small configurations are set on the instance
        if not (hasattr(f, "_chunk_size") and hasattr(f, "_keep_chunks")):
            raise Skip("S3File has no _chunk_size/_keep_chunks attributes any more")
        f._chunk_size, f._keep_chunks = case["cs"], case["keep"]
        return f, srv
    if ses is None:
        ses = FaultySession(oob=oob)
        http_utils.session_cache.sessions["verif.invalid"] = ses
    ses.blobs[url] = blob
    return http_utils.HTTPFile(url, chunk_size=case["cs"], keep_chunks=case["keep"]), ses


# --------------------------------------------------------------------------------------
def gen_history(rng, thorough, faults=True, blob=None, same_len_as=None):
    cs = rng.choice([1, 2, 3, 7, 16, 64])
    keep = rng.choice([2, 2, 3, 8, 200])
    k = rng.randint(0, 9 if thorough else 6)
    length = max(1, k * cs + rng.choice([-1, 0, 1]))
    if blob is not None:
        length = len(blob)
    elif same_len_as is not None:
        length = len(same_len_as)
    blob = bytes(blob) if blob is not None else bytes(rng.randrange(256) for _ in range(length))
    nops = rng.randint(5, 120 if thorough else 50)
    ops = []
    pos = 0
    for _ in range(nops):
        r = rng.random()
        if r < 0.55:
            # a read; mostly inside the resource
            left = length - pos
            if 0 <= pos and left > 0 and rng.random() < 0.93:
                kind = rng.random()
                to_boundary = cs - pos % cs
                if kind < 0.3 and to_boundary <= left:
                    n = to_boundary                      # ends exactly on a chunk boundary
                elif kind < 0.45:
                    n = left                             # reaches the end of the resource
                elif kind < 0.7:
                    n = min(left, rng.randint(1, 3 * cs + 1))   # spans chunks
                else:
                    n = rng.randint(1, left)
            elif pos >= 0 and rng.random() < 0.5:
                n = 0                                    # read(0): returns b"" (and jumps to EOF)
            elif pos >= 0:
                n = max(0, left) + rng.randint(1, cs + 1)      # beyond EOF (mirror only)
            else:
                continue
            if faults and n > 0 and pos + n <= length and rng.random() < 0.18:
                # a read hit by a download failure at request number `budget`+1 of its loop; whether
                # it fails depends on what is cached (a failed read must not move the position)
                ops.append(("readf", n, rng.choice([0, 0, 1, 1, 2, (n // cs) + 1])))
                ops.append(("tell",))
                if rng.random() < 0.7:
                    ops.append(("seek", pos, 0))     # no-op if the read failed (re-synchronises)
                    ops.append(("read", n))          # the retry
                    pos = pos + n
                else:
                    ops.append(("seek", pos, 0))
                continue
            ops.append(("read", n))
            pos = pos + n if n > 0 else length
        elif r < 0.9:
            w = rng.choice([0, 0, 1, 2])
            if rng.random() < 0.95:
                target = rng.choice([rng.randint(0, length), (rng.randint(0, length) // cs) * cs,
                                     max(0, length - rng.randint(0, cs))])
            else:
                target = length + rng.randint(1, cs)
            off = target if w == 0 else (target - pos if w == 1 else target - length)
            ops.append(("seek", off, w))
            pos = target
        else:
            ops.append(("tell",))
    return {"cs": cs, "keep": keep, "blob": list(blob), "ops": ops}


def fmt_range(r):
    """'bytes=a-b' -> 'a-(b+1)' (the model's half-open notation); anything else verbatim"""
    import re
    m = re.fullmatch(r"bytes=(\d+)-(-?\d+)", str(r))
    if not m:
        return "?" + str(r)
    return f"{int(m.group(1))}-{int(m.group(2)) + 1}"


class Runner:
    """drives one real HTTPFile / S3File through the ops of `case`, one op per `step()`"""

    def __init__(self, case, oob=b"\xfe\xfd", ses=None, url=URL):
        common.import_dclab()
        self.case = case
        self.f, self.srv = open_file(case, oob, ses=ses, url=url)
        self.url = url
        self.blob = bytes(case["blob"])
        self.out, self.states, self.specfail = [], [], []
        self.pos = 0
        self.i = 0

    def done(self):
        return self.i >= len(self.case["ops"])

    def step(self):
        case, f, srv, blob, pos, i = self.case, self.f, self.srv, self.blob, self.pos, self.i
        op = case["ops"][i]
        out, specfail = self.out, self.specfail
        try:
            if op[0] in ("read", "readf"):
                n = op[1]
                inside = pos >= 0 and n >= 0 and pos + n <= len(blob)
                if op[0] == "readf":
                    srv.fail_in = op[2]
                try:
                    d = f.read(n)
                except InjectedFault:
                    out.append("err:io")
                    p = f.tell()
                    if p != pos:
                        specfail.append((i, f"read({n}) at {pos} failed with a download error but "
                                            f"moved the position to {p}"))
                        pos = p
                except Exception as e:  # noqa
                    if inside and case["keep"] >= 2:
                        specfail.append((i, f"read({n}) at {pos} (inside the resource of "
                                            f"{len(blob)} bytes, chunk size {case['cs']}, "
                                            f"keep_chunks {case['keep']}) raised "
                                            f"{type(e).__name__}: {str(e)[:120]}"))
                    raise
                else:
                    out.append("data " + ",".join(str(b) for b in d))
                    if inside and bytes(d) != blob[pos:pos + n]:
                        specfail.append((i, f"read({n}) at {pos} returned {list(d)[:20]}… "
                                            f"instead of blob[{pos}:{pos + n}]"))
                    pos = pos + n if n > 0 else len(blob)
                finally:
                    srv.fail_in = None
            elif op[0] == "seek":
                f.seek(op[1], op[2])
                out.append("ok")
                pos = op[1] if op[2] == 0 else (pos + op[1] if op[2] == 1 else len(blob) + op[1])
            else:
                p = f.tell()
                out.append(f"pos {p}")
                if p != pos:
                    specfail.append((i, f"tell() = {p}, expected {pos}"))
        except Exception as e:  # noqa
            out.append(common.err_class(e))
        if case["keep"] >= 2 and len(f.cache) > case["keep"]:
            specfail.append((i, f"{len(f.cache)} chunks cached > keep_chunks={case['keep']}"))
        reqs = [fmt_range(r) for (u, r) in srv.log if r is not None and u == self.url]
        self.states.append("cache " + ",".join(str(k) for k in f.cache.keys())
                           + " reqs " + ";".join(reqs))
        self.pos = pos
        self.i += 1

    def close(self):
        try:
            self.f.close()
        except Exception:  # noqa
            pass

    def result(self):
        return self.out, self.states, self.specfail


def run_impl(case, oob=b"\xfe\xfd"):
    """drive the real HTTPFile / S3File; returns (lines, state_lines, direct spec failures)"""
    r = Runner(case, oob)
    while not r.done():
        r.step()
    r.close()
    return r.result()


def run_group(group, oob=b"\xfe\xfd"):
    """several file objects alive at the same time (same or different resources, different chunk
    sizes and capacities), their histories interleaved by `schedule`; returns one result per member"""
    common.import_dclab()
    from dclab import http_utils
    ses = FaultySession(oob=oob)
    http_utils.session_cache.sessions["verif.invalid"] = ses
    runners = []
    for c in group["members"]:
        runners.append(Runner(c, oob, ses=ses, url=c["url"]))
    for k in group["schedule"]:
        if not runners[k].done():
            runners[k].step()
    for r in runners:
        while not r.done():
            r.step()
    for r in runners:
        r.close()
    return [r.result() for r in runners]


def gen_group(rng, thorough):
    """2-3 concurrently open files; each resource is served under its own URL, members of the
    same resource share the URL (and hence the ETag)"""
    nres = rng.choice([1, 1, 2])
    members = []
    blobs = {}
    for j in range(rng.choice([2, 2, 3])):
        r = rng.randrange(nres)
        c = gen_history(rng, thorough, faults=False, blob=blobs.get(r),
                        same_len_as=(blobs.get(0) if rng.random() < 0.5 else None))
        blobs.setdefault(r, c["blob"])
        c["url"] = f"http://verif.invalid/group-res{r}.bin"
        c["ops"] = c["ops"][:40]
        members.append(c)
    schedule = []
    for k, c in enumerate(members):
        schedule += [k] * len(c["ops"])
    # interleave in bursts: a file usually performs a few operations in a row
    rng.shuffle(schedule)
    return {"members": members, "schedule": schedule}


def model_lines(case, oob=b"\xfe\xfd"):
    lines = ["blob " + " ".join(str(b) for b in case["blob"]),
             "oob " + " ".join(str(b) for b in oob),
             f"new {case['cs']} {case['keep']}"]
    for op in case["ops"]:
        lines.append(" ".join(str(x) for x in op))
        lines.append("state")
    return lines


def compare(case, impl_out, impl_states, model_out):
    """first index where impl and the model's impl-mirror disagree, or None"""
    body = model_out[3:]
    for i in range(len(case["ops"])):
        m_ans = body[2 * i].split(" ## ")[0].strip()
        m_state = body[2 * i + 1].strip()
        if m_ans != impl_out[i].strip():
            return i, f"op {case['ops'][i]}: impl '{impl_out[i][:60]}' model '{m_ans[:60]}'"
        i_state = impl_states[i].strip()
        if case.get("group"):        # request logs of files sharing a URL cannot be told apart
            m_state, i_state = m_state.split(" reqs")[0].strip(), i_state.split(" reqs")[0].strip()
        if m_state != i_state:
            return i, f"after op {case['ops'][i]}: impl '{impl_states[i][:80]}' model '{m_state[:80]}'"
    return None


def nontrivial(case):
    cs = case["cs"]
    pos = 0
    chunks = set()
    L = len(case["blob"])
    for op in case["ops"]:
        if op[0] == "readf":
            if op[1] > 0 and pos // cs != (pos + op[1] - 1) // cs:
                return True
        elif op[0] == "read":
            n = op[1]
            if n > 0 and pos // cs != (pos + n - 1) // cs:
                return True
            chunks.add(pos // cs)
            pos = pos + n if n > 0 else L
        elif op[0] == "seek":
            pos = op[1] if op[2] == 0 else (pos + op[1] if op[2] == 1 else L + op[1])
    return len(chunks) > case["keep"]


def spec_fails(case):
    try:
        return bool(run_impl(case)[2])
    except Exception:
        return False


def group_fails(g):
    try:
        return any(r[2] for r in run_group(g))
    except Exception:  # noqa
        return False


def shrink_group(g):
    """shorten the members' op lists (and the schedule with them) while some member still fails"""
    g = {"members": [dict(c) for c in g["members"]], "schedule": list(g["schedule"])}
    for k in range(len(g["members"])):
        def pred(ops, k=k):
            cand = {"members": [dict(c) for c in g["members"]], "schedule": g["schedule"]}
            cand["members"][k]["ops"] = ops
            return group_fails(cand)
        ops = g["members"][k]["ops"]
        if len(ops) > 1:
            small = common.ddmin(ops, pred, max_tests=60)
            if pred(small):
                g["members"][k]["ops"] = small
    return g


def shrink(case, pred):
    ops = common.ddmin(case["ops"], lambda o: pred(dict(case, ops=o)))
    return dict(case, ops=ops)


# --------------------------------------------------------------------------------------
def part_b(ctx, n_files):
    """RTDC_HTTP on generated files vs RTDC_HDF5 on the same bytes.

    Only three URLs are used, so the same URL serves a *replaced* resource again and again
    (re-opening must show the new file); one file per run is larger than the default chunk size
    and is read through the unpatched default `HTTPFile`.
    """
    dclab = common.import_dclab()
    from dclab import http_utils
    from dclab.rtdc_dataset import fmt_http
    ses = common.install_fake_session()
    orig = fmt_http.HTTPFile

    def compare(path, url, keep):
        diffs = []
        try:
            with dclab.new_dataset(path) as dl, fmt_http.RTDC_HTTP(url) as dr:
                if len(dl) != len(dr):
                    diffs.append(f"len {len(dl)} vs {len(dr)}")
                if sorted(dl.features_innate) != sorted(dr.features_innate):
                    diffs.append("features differ")
                for f in dl.features_innate:
                    if f not in dr.features_innate:
                        continue
                    if f == "trace":
                        for tn in dl["trace"]:
                            if not np.array_equal(dl["trace"][tn][:], dr["trace"][tn][:]):
                                diffs.append(f"trace {tn}")
                    elif f == "contour":
                        for i in range(len(dl)):
                            if not np.array_equal(dl[f][i], dr[f][i]):
                                diffs.append(f"contour {i}")
                                break
                    else:
                        if not np.array_equal(dl[f][:], dr[f][:], equal_nan=True):
                            diffs.append(f"feature {f}")
                if dict(dl.logs) != dict(dr.logs):
                    diffs.append("logs")
                ca = {s: dict(dl.config[s]) for s in dl.config.keys() if s not in ("filtering",)}
                cb = {s: dict(dr.config[s]) for s in dr.config.keys() if s not in ("filtering",)}
                if ca != cb:
                    diffs.append("config")
                if keep is not None and len(dr._fhttp.cache) > keep:
                    diffs.append(f"cache size {len(dr._fhttp.cache)} > {keep}")
        except Exception as e:  # noqa: the local file opens and reads, the remote one must too
            diffs.append(f"reading through RTDC_HTTP raised {e!r}"[:200])
        return diffs

    try:
        for j in range(n_files):
            n = ctx.rng.randint(1, 40)
            tokens = [ctx.rng.randrange(1000) for _ in range(n)]
            feats = ["deform", "area_um", "index"] + ctx.rng.sample(
                ["image", "mask", "contour", "trace", "frame", "fl1_max", "time"],
                ctx.rng.randint(0, 4))
            path = ctx.workdir / f"b{j}.rtdc"
            gen.make_rtdc(path, tokens, feats=feats,
                          logs={"log-a": ["line %d" % i for i in range(ctx.rng.randint(1, 5))]})
            blob = path.read_bytes()
            url = f"http://verif.invalid/b{j % 3}.rtdc"      # URLs are re-used: resource replaced
            ses.blobs[url] = blob
            cs = ctx.rng.choice([512, 1024, 4096, 2**14])
            keep = ctx.rng.choice([2, 3, 8])
            fmt_http.HTTPFile = (lambda u, cs=cs, keep=keep:
                                 http_utils.HTTPFile(u, chunk_size=cs, keep_chunks=keep))
            diffs = compare(path, url, keep)
            ctx.case(("B", feats, n, cs, keep), nontrivial=len(blob) > cs * keep,
                     sample={"part": "B", "features": feats, "events": n, "chunk_size": cs,
                             "keep": keep, "bytes": len(blob)} if j == 0 else None)
            ctx.stat("partB_files")
            if diffs:
                ctx.violation("spec", f"RTDC_HTTP differs from RTDC_HDF5: {diffs[:4]}",
                              {"part": "B", "tokens": tokens, "feats": feats, "cs": cs,
                               "keep": keep, "url_reused": j >= 3})
        # one incompressible file larger than the default chunk size, default HTTPFile
        fmt_http.HTTPFile = orig
        rs = np.random.RandomState(ctx.rng.randrange(2**31))
        nbig = 24
        pbig = ctx.workdir / "big.rtdc"
        with dclab.RTDCWriter(pbig, mode="reset") as hw:
            hw.store_metadata(gen.BASE_META)
            hw.store_feature("deform", rs.rand(nbig))
            hw.store_feature("area_um", rs.rand(nbig) * 100)
            hw.store_feature("image", rs.randint(0, 256, size=(nbig, 120, 160), dtype=np.uint8))
        url = "http://verif.invalid/b0.rtdc"                 # again a re-used URL
        ses.blobs[url] = pbig.read_bytes()
        diffs = compare(pbig, url, None)
        ctx.case(("B", "big", nbig), nontrivial=True)
        ctx.stat("partB_big_bytes", len(ses.blobs[url]))
        if diffs:
            ctx.violation("spec", "RTDC_HTTP (default chunk size, file of "
                                  f"{len(ses.blobs[url])} bytes) differs from RTDC_HDF5: {diffs[:4]}",
                          {"part": "B", "big": True, "events": nbig})
    finally:
        fmt_http.HTTPFile = orig


def default_config(ctx, s3_ok):
    """HTTPFile / S3File with their DEFAULT chunk size and capacity on a resource of several
    chunks: every read against blob[pos:pos+n] and every request a whole-chunk range (the Lean
    model is not driven with resources of this size)"""
    common.import_dclab()
    from dclab import http_utils
    rs = np.random.RandomState(ctx.rng.randrange(2**31))
    for kind in ["http"] + (["s3"] if s3_ok else []):
        try:
            if kind == "http":
                probe = http_utils.HTTPFile(URL)
            else:
                from dclab.rtdc_dataset import fmt_s3
                probe = fmt_s3.S3File("verif-bucket/res.bin", "http://verif.invalid:9000")
            cs = getattr(probe, "_chunk_size", 2**18)
            probe.close()
        except Exception as e:  # noqa
            ctx.note(f"default-configuration run skipped for {kind}: {e!r}"[:200])
            continue
        L = 3 * cs + int(rs.randint(1, cs))
        blob = rs.randint(0, 256, size=L, dtype=np.uint8).tobytes()
        case = {"cs": cs, "keep": 200, "blob": blob, "ops": [], "kind": kind}
        # open_file passes cs/keep explicitly for http (they equal the defaults) and sets them
        # on the instance for s3 (idem)
        f, srv = open_file(case, b"<416>")
        bad = None
        pos = 0
        for _ in range(40):
            r = rs.rand()
            if r < 0.5:
                pos = int(rs.choice([rs.randint(0, L), (rs.randint(0, L) // cs) * cs,
                                     max(0, L - rs.randint(0, 2 * cs))]))
                f.seek(pos)
            n = int(rs.choice([1, cs - pos % cs, min(L - pos, cs + 17), rs.randint(0, L - pos + 1)]))
            n = max(0, min(n, L - pos))
            if n == 0:
                continue
            try:
                d = f.read(n)
            except Exception as e:  # noqa
                bad = f"read({n}) at {pos} raised {e!r}"[:200]
                break
            if bytes(d) != blob[pos:pos + n]:
                bad = f"read({n}) at {pos} returned other bytes than blob[{pos}:{pos + n}]"
                break
            pos += n
            if f.tell() != pos:
                bad = f"tell() = {f.tell()} after reading to {pos}"
                break
        for (_u, r) in srv.log:
            if r is not None and bad is None:
                a, b = (int(x) for x in r[6:].split("-"))
                if a % cs != 0 or b + 1 != min(a + cs, L):
                    bad = f"request {r} is not a whole-chunk range (chunk size {cs}, length {L})"
        ctx.case(("default", kind, L), nontrivial=True)
        ctx.stat("default_config_" + kind)
        if bad:
            ctx.violation("spec", f"{'HTTPFile' if kind == 'http' else 'S3File'} with default "
                                  f"chunk size: {bad}",
                          {"part": "default", "kind": kind, "length": L, "chunk_size": cs})


def source_check(ctx):
    """S3File.download_range must use the same inclusive-end convention (not reachable offline)"""
    import ast
    import re
    for rel in ("dclab/http_utils.py", "dclab/rtdc_dataset/fmt_s3.py"):
        src = (common.REPO / rel).read_text()
        tree = ast.parse(src)
        for node in ast.walk(tree):
            if isinstance(node, ast.FunctionDef) and node.name == "download_range":
                seg = ast.get_source_segment(src, node)
                if not re.search(r'bytes=\{start\}-\{stop\s*-\s*1\}', seg):
                    ctx.violation("mirror", f"{rel}: download_range no longer requests "
                                            f"bytes={{start}}-{{stop-1}}",
                                  {"correspondence": "download_range source check", "file": rel})
                ctx.stat("download_range_checked")


def known_f20(ctx):
    case = {"cs": 2, "keep": 1, "blob": [1, 2, 3, 4], "ops": [("read", 1), ("seek", 2, 0),
                                                             ("read", 1)]}
    out, _st, _sf = run_impl(case)
    if out[-1] == "err:key":
        if any(k["id"] == "F20" for k in ctx.known_open):
            ctx.known("F20", "HTTPFile(keep_chunks=1): reading a second chunk raises KeyError")
        else:
            ctx.violation("spec", "HTTPFile(keep_chunks=1) raises KeyError", case)
    else:
        ctx.note("F20 (keep_chunks=1 KeyError) no longer reproduces")


def run(ctx):
    corpus = common.VERIF / "corpus" / "C19"
    cases = []
    if corpus.exists():
        for p in sorted(corpus.glob("*.json")):
            cases.append(json.loads(p.read_text()))
    for _ in range(ctx.n(250, 6000)):
        cases.append(gen_history(ctx.rng, ctx.thorough))
    # the same kind of histories through S3File (fake s3_object; boto3 objects are built offline)
    s3_ok = True
    for _ in range(ctx.n(40, 400)):
        c = gen_history(ctx.rng, ctx.thorough)
        c["kind"] = "s3"
        cases.append(c)
    # implementation side
    impl = []
    for c in cases:
        try:
            impl.append(run_impl(c) if (s3_ok or c.get("kind") != "s3") else None)
        except Skip as e:
            s3_ok = False
            ctx.note(f"S3File small-chunk histories skipped: {e}")
            impl.append(None)
        except ImportError as e:
            s3_ok = False
            ctx.note(f"S3File not importable here ({e}); S3 histories skipped")
            impl.append(None)
    keep_idx = [i for i, r in enumerate(impl) if r is not None]
    cases = [cases[i] for i in keep_idx]
    impl = [impl[i] for i in keep_idx]
    # several file objects open at the same time (same / different resources, different chunk
    # sizes): every member must behave like a file object that is alone in the process
    groups = [gen_group(ctx.rng, ctx.thorough) for _ in range(ctx.n(40, 600))]
    for g in groups:
        res = run_group(g)
        for c, r in zip(g["members"], res):
            c["group"] = True
            if r[2]:
                small = shrink_group(g)
                bad = [x for x in run_group(small) if x[2]]
                ctx.violation("spec", "HTTPFile (several file objects open at the same time): "
                              + (bad[0][2][0][1] if bad else r[2][0][1]), small)
                break
            cases.append(c)
            impl.append((r[0], r[1], []))
        ctx.stat("groups")
        ctx.stat("group_same_resource" if len({c["url"] for c in g["members"]}) < len(g["members"])
                 else "group_distinct_resources")
    # model side: one driver invocation for all cases
    model = None
    if ctx.lean_ok:
        lines, spans = [], []
        for c in cases:
            ml = model_lines(c)
            spans.append((len(lines), len(lines) + len(ml)))
            lines += ml
        out = ctx.lean("C19", lines)
        model = [out[a:b] for a, b in spans]
    mirror_bad = []
    for idx, c in enumerate(cases):
        out_i, st_i, specfail = impl[idx]
        nt = nontrivial(c)
        ctx.case((c["cs"], c["keep"], len(c["blob"]), c["ops"]), nontrivial=nt,
                 sample={"cs": c["cs"], "keep": c["keep"], "len": len(c["blob"]),
                         "ops": c["ops"][:12], "impl": out_i[:12]} if nt else None)
        ctx.stat(f"cs={c['cs']}")
        ctx.stat("ops", len(c["ops"]))
        ctx.stat("reads", sum(1 for o in c["ops"] if o[0] == "read"))
        ctx.stat("kind=" + c.get("kind", "http"))
        ctx.stat("faults_injected", sum(1 for o in c["ops"] if o[0] == "readf"))
        ctx.stat("faults_fired", sum(1 for o in out_i if o == "err:io"))
        if specfail:
            small = shrink(c, spec_fails)
            ctx.violation("spec", "HTTPFile: " + run_impl(small)[2][0][1], small)
            continue
        if model is not None:
            d = compare(c, out_i, st_i, model[idx])
            if d is not None:
                mirror_bad.append((c, d))
            # spec layer of the model vs implementation for valid reads is implied by specfail
    if mirror_bad:
        # correspondence broke without a property failure so far: extended search
        found = False
        for _ in range(ctx.n(2500, 20000)):
            c = gen_history(ctx.rng, True)
            if s3_ok and ctx.rng.random() < 0.15:
                c["kind"] = "s3"
            if spec_fails(c):
                small = shrink(c, spec_fails)
                ctx.violation("spec", "HTTPFile: " + run_impl(small)[2][0][1], small)
                found = True
                break
        if not found:
            c, d = mirror_bad[0]
            ctx.violation("mirror", f"HTTPFile differs from its Lean model "
                                    f"({len(mirror_bad)} histories), first: {d[1]}",
                          {"correspondence": "Drive/C19.lean vs dclab.http_utils.HTTPFile",
                           "case": c})
    default_config(ctx, s3_ok)
    part_b(ctx, ctx.n(6, 60))
    source_check(ctx)
    known_f20(ctx)


def replay(ctx, data):
    rp = data["replay"]
    if "members" in rp:
        for c in rp["members"]:
            c["ops"] = [tuple(o) for o in c["ops"]]
        res = run_group(rp)
        for r in res:
            print("impl:", r[0][:20])
            print("specfail:", r[2])
        return any(r[2] for r in res)
    if "ops" in rp:
        rp["ops"] = [tuple(o) for o in rp["ops"]]
        out, st, sf = run_impl(rp)
        print("impl:", out)
        print("specfail:", sf)
        return bool(sf)
    print("no concrete input in this replay file:", json.dumps(rp)[:400])
    return True
