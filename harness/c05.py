"""C05 — Young's modulus is the scaled linear interpolation of the look-up table.

Correspondence between `dclab.features.emodulus.get_emodulus` (real code, both routes) and the
exact rational model `DclabModel.Emod` (driver `Drive/C05.lean`).

For every call case (LUT x way of passing it x set-up x medium/model/temperature x events) the
harness

* evaluates pixelation correction and viscosity with its own re-implementation of the
  documented formulas (and compares them with the repo's functions),
* repeats the *documented* scaling/normalisation of the LUT in floats and lets
  `scipy.spatial.Delaunay` (the qhull that `griddata` uses) triangulate it,
* sends LUT, triangles / candidate simplices / separating hull edges and the events as exact
  rationals to the Lean model, which answers the exact E or `nan`,
* compares `get_emodulus` with the model (1e-9 relative, 1e-12 absolute, NaN-ness outside a
  1e-9 band around the hull) and with a barycentric oracle of its own (exact rational
  interpolation in scipy's simplex of the float-normalised table).  Two documented allowances
  for floating point in *sliver* triangles (doubled area D much smaller than the squared edge
  length L²): the value tolerance grows to 16 ulp·(L²/D)·(spread of the three tabulated
  values), and the NaN-ness of an event whose smallest barycentric coordinate is below
  64 ulp·(L²/D) is not compared (scipy inverts the simplex matrix in floats); both are counted
  (`events_in_sliver_triangles`, `skipped_near_discontinuity`),
* exercises the metamorphic laws of the property on the implementation (routes agree,
  proportional to eta and Q, joint rescale, batch independence, repeated calls) and
  fingerprints every input array, the LUT arrays/files and `EXTERNAL_LUTS`,
* hands over `(array, meta)` tables in every numeric dtype that can hold them (float64,
  float32; int32/int64/uint16 for integer-valued tables) and memory layout (C, F, strided view,
  read-only); the table is what survives the conversion; float32 results must match the table
  scaled/normalised in float32 as the code does (1e-9) or converted to float64 first (64 ulp of
  float32); integer tables may be rejected with ValueError/TypeError,
* draws per-event temperature arrays with every kind of spread (constant, drift of 1e-6..0.5
  degC, values that coincide after rounding, few repeated values, wide, one outlier) and checks
  every event against the exact model with ITS OWN viscosity (1e-9), plus the batch-composition
  law "appending / removing an outlier event does not change the others",
* generates user LUTs with boundary values (deform = 0 nodes and grid lines, abscissa = 0,
  E = 0, negative deform / E); oracle and model interpolate the file's full content, events are
  placed in the triangles spanned by those nodes,
* runs call HISTORIES in one process over a mutable LUT environment: files rewritten in place
  (same path, other table, mtime bumped), identifiers registered / de-registered /
  re-registered to other files, calls by str/pathlib path, identifier, built-in name and tuple
  interleaved; every call is checked against the table that is current at call time (shadow
  environment in the harness, mirrored by the Lean `Env`/`stepOp` model), unresolvable
  references must raise ValueError whatever was loaded before.  Failing histories are shrunk
  over the op list, every execution under fresh file names and identifiers.
"""
import copy
import hashlib
import json
import math
import pathlib
import random
import warnings
from fractions import Fraction

import numpy as np

from . import common

ID = "C05"
LEAN_MODULES = ["DclabModel.Properties.C05"]
RULE = ("call cases = (LUT: the 3 built-in files of the tree under test + generated area/volume "
        "user LUTs passed as str path, pathlib path, registered identifier and (array, meta) "
        "tuple) x (channel width 10-40, flow rate, px_um incl. 0) x (every known medium alias x "
        "viscosity model x scalar temperature | per-event temperature array | numeric viscosity) "
        "x 24-120 events (inside random triangles, on shared edges, at nodes, outside, within "
        "1e-4..1e-14 of the hull, nan/inf). Every event is checked against the exact Lean value "
        "(containment verified in scipy's candidate simplex, NaN verified by a separating line, "
        "small LUTs by full scan of all triangles; tolerance 1e-9 relative / 1e-12 absolute, "
        "widened by 16ulp*cond*spread in sliver triangles; NaN-ness not compared within 1e-9 of "
        "the hull or within 64ulp*cond of a sliver's edge); laws and fingerprints per case. "
        "Temperature arrays: constant / drift 1e-6..0.5 degC / rounding twins / few values / wide "
        "/ one outlier, each event against its own viscosity. Half of the user LUTs contain "
        "zeros or negative entries (deform=0, x=0, E=0, negative deform/E). "
        "Tuple mode: dtype float64/float32 (+int32/int64/uint16 for integer-valued tables) x "
        "layout C/F/strided/read-only. Histories: 10-22 ops over 3 paths and 2 identifiers "
        "(write/rewrite, register with and without explicit identifier, register of a taken or "
        "built-in identifier, de-register, re-register to another file, calls by path / "
        "identifier / built-in / tuple), each call against the table current at call time. "
        "Events are handed over as 1-D arrays, strided views, 2-D arrays in C / Fortran / "
        "transposed / strided layout (result must have the input's shape) and 0-d scalars (law "
        "'single'); 30 % of the per-event temperature arrays contain missing (nan) readings "
        "(that event: nan; the others unaffected, checked by oracle and batch laws). Memory "
        "model: 80/600 scale_* calls (feature x float64/float32/int x inplace x widths x "
        "scalar/array viscosity) + 8 get_emodulus(copy, px, route) observations. "
        "distinct = distinct (LUT, set-up, viscosity source, events) cases with at least one "
        "finite result and a non-identity scaling or pixelation correction.")
TRUSTED_BASE = [
    "modelled, not verified: scipy.spatial.Delaunay/qhull (the triangulation T is a parameter of "
    "the model; every non-NaN answer is verified to lie in the candidate triangle, every NaN "
    "answer by a separating hull edge, so only 'T covers the convex hull' is trusted), "
    "IEEE rounding of the implementation (bounded by the 1e-9 tolerance), exp/pow in the "
    "pixelation and viscosity formulas (evaluated by the harness in floats, passed as exact "
    "rationals), np.loadtxt/json parsing of LUT files",
    "the harness repeats the documented float operations (scale, then divide by the maximum) to "
    "hand qhull the same input as the implementation",
    "memory model (Model/EmodMem.lean): numpy's object semantics are modelled, not verified - "
    "np.array(a, copy=True) = new object, copy=False on a float64 array = the same object, "
    "`*=` on an integer array raises; the statement list emodProg is hand-written from "
    "get_emodulus (tied by fingerprints around every call and the copy=True/False observation)"]
ASSUMPTIONS = ["channel widths > 0, LUT flow rate / viscosity non-zero, LUT maxima > 0 (Pos)",
               "copy=True (default) and extrapolate=False (default); the spline extrapolation "
               "option is excluded from the property"]
NOT_PROVED = ["that dclab keeps no state between calls beyond files and EXTERNAL_LUTS (the Lean Env "
              "model has none by construction - history_current; stale_cache_witness shows what a "
              "memoising loader breaks; the implementation is tied to it by the histories)",
              "that T is the Delaunay triangulation of the table and covers its convex hull "
              "(qhull trusted; containment / separation re-verified per event)",
              "the transcendental parts of pixelation correction and viscosity models "
              "(correspondence with an independent re-implementation only)",
              "load_lut/load_mtext/register_lut parsing (correspondence with an independent "
              "parser only)",
              "absence of mutation of EXTERNAL_LUTS and LUT files (fingerprints). Caller ARRAYS: "
              "proved in the heap model (scale_feature_copy_keeps_caller, "
              "get_emodulus_copy_keeps_caller); that emodProg lists every in-place statement of "
              "get_emodulus is correspondence-only (fingerprints)",
              "load_mtext text format as a Lean parser with round-trip theorems (session-4 target "
              "B1: not done)",
              "'T covers the convex hull': a checked covering certificate would need a planar "
              "topology theorem (every point inside all hull half-planes lies in a triangle of an "
              "edge-paired triangulation) - infeasible in this budget; half-planes of the hull are "
              "already checked per NaN answer by sepLine/allOnSide"]

RTOL = 1e-9
ATOL = 1e-12
BAND = 1e-9
BUILTIN = ["LE-2D-FEM-19", "HE-2D-FEM-22", "HE-3D-FEM-22"]
EMOD_DIR = "dclab/features/emodulus"

# ------------------------------------------------------------------------------------------
# independent re-implementation of the documented formulas
MEDIA = {}
for _k, _names in {"0.49% MC-PBS": ["0.49% MC-PBS", "0.5% MC-PBS", "0.50% MC-PBS", "CellCarrier"],
                   "0.59% MC-PBS": ["0.59% MC-PBS", "0.6% MC-PBS", "0.60% MC-PBS",
                                    "CellCarrier B", "CellCarrierB"],
                   "0.83% MC-PBS": ["0.83% MC-PBS", "0.8% MC-PBS", "0.80% MC-PBS"],
                   "water": ["water"]}.items():
    for _n in _names:
        MEDIA[_n] = _k
        MEDIA[_n.lower()] = _k
MODELS = ["herold-2017", "herold-2017-fallback", "buyukurganci-2022", "kestin-1978"]


def _exp(v):
    try:
        return math.exp(v)
    except OverflowError:
        return float("inf")


def my_delta(featx, x, px):
    """Herold 2017 (area) / dclab scripts (volume): offset + three exponentials"""
    if featx == "area_um":
        s = (0.34 / px) ** 2
        return (0.0012 + 0.020 * _exp(-x * s / 7.1) + 0.010 * _exp(-x * s / 38.6)
                + 0.005 * _exp(-x * s / 296))
    s = (0.34 / px) ** 3
    return (0.0013 + 0.0172 * _exp(-x * s / 40) + 0.0070 * _exp(-x * s / 450)
            + 0.0032 * _exp(-x * s / 6040))


def my_visc(medium, L, Q, T, model):
    """viscosity [mPa s] of a known medium; raises ValueError / NotImplementedError like the
    documentation says"""
    if medium not in MEDIA:
        raise ValueError(medium)
    med = MEDIA[medium]
    if med == "water":     # Kestin 1978, eq. 15
        right = (20 - T) / (T + 96) * (1.2364 - 1.37e-3 * (20 - T) + 5.7e-6 * (20 - T) ** 2)
        return 1.002 * 10 ** right
    if model == "herold-2017-fallback":
        model = "herold-2017"
    if model == "herold-2017":
        term1 = 1.1856 * 6 * Q * 1e-9 / (L * 1e-6) ** 3 * 2 / 3
        if med == "0.49% MC-PBS":
            term2 = 0.6771 / 0.5928 + 0.2121 / (0.5928 * 0.677)
            return 0.179 * (term1 * term2) ** (0.677 - 1) * (T / 23.2) ** -0.866 * 1e3
        if med == "0.59% MC-PBS":
            term2 = 0.6771 / 0.5928 + 0.2121 / (0.5928 * 0.634)
            return 0.360 * (term1 * term2) ** (0.634 - 1) * (T / 23.6) ** -0.866 * 1e3
        raise NotImplementedError(med)
    if model == "buyukurganci-2022":
        kelvin = T + 273.15
        a, beta = {"0.49% MC-PBS": (2.30e-6, -0.0056), "0.59% MC-PBS": (5.70e-6, -0.0744),
                   "0.83% MC-PBS": (16.52e-6, -0.1455)}[med]
        k = a * math.exp(3379.7 / kelvin)
        n = 0.00223 * kelvin + beta
        shear = 8 * Q / (L * 1e-3) ** 3 * (0.6671 + 0.2121 / n)
        return k * shear ** (n - 1) * 1e3
    raise NotImplementedError(model)


def err_of(e):
    if isinstance(e, NotImplementedError):
        return "err:notimpl"
    return common.err_class(e)


# ------------------------------------------------------------------------------------------
# LUT files
def parse_lut_file(path):
    """independent parser of the LUT text format: json between BEGIN/END METADATA, last
    comment line = column header, whitespace separated numbers"""
    dump, rows, header, injson = [], [], None, False
    for line in pathlib.Path(path).read_text(errors="replace").splitlines():
        st = line.strip()
        if not st:
            continue
        if st.startswith("#"):
            if st.startswith("# BEGIN METADATA"):
                injson = True
            elif st.startswith("# END METADATA"):
                injson = False
            elif injson:
                dump.append(st.strip("#").strip())
            else:
                header = st
        else:
            rows.append([float(t) for t in st.split()])
    meta = json.loads("\n".join(dump))
    feats = [h.strip().split(" ")[0] for h in header.strip("# ").split("\t")]
    return np.array(rows, dtype=float), meta, feats


def write_lut_file(path, rows, meta, featx):
    unit = {"area_um": "area_um [um^2]", "volume": "volume [um^3]"}[featx]
    lines = ["# generated by the verification harness", "#", "# BEGIN METADATA"]
    lines += ["# " + ln for ln in json.dumps(meta, indent=2, sort_keys=True).splitlines()]
    lines += ["# END METADATA", "#", "# " + "\t".join([unit, "deform", "emodulus [kPa]"])]
    for r in rows:
        lines.append("\t".join(repr(float(v)) for v in r))
    pathlib.Path(path).write_text("\n".join(lines) + "\n")


def gen_int_lut(rng, ident):
    """a table whose entries are small integers (representable in every numeric dtype); the
    'deformation' axis is then not physical, which the interpolation does not care about"""
    featx = rng.choice(["area_um", "volume"])
    nx, ny = rng.randint(3, 6), rng.randint(3, 5)
    rows = []
    for i in range(nx):
        for j in range(ny):
            if rng.random() < 0.1 and len(rows) > 4:
                continue
            # jittered grid on a fine integer lattice: no four points on a common circle
            # (a Delaunay triangulation of cocircular points is not unique, and which diagonal
            # qhull picks then depends on rounding – the interpolant would be ambiguous)
            rows.append([float(40 + 600 * i + rng.randint(0, 399)),
                         float(50 + 9000 * j + rng.randint(0, 5999)),
                         float(rng.randint(1, 40))])
    seen, out = set(), []
    for r in rows:
        if (r[0], r[1]) not in seen:
            seen.add((r[0], r[1]))
            out.append(r)
    meta = {"channel_width": rng.choice([15.0, 20.0, 30.0]), "channel_width_unit": "um",
            "flow_rate": rng.choice([0.04, 0.08, 0.16]), "flow_rate_unit": "uL/s",
            "fluid_viscosity": rng.choice([15.0, 6.0, 1.0]), "fluid_viscosity_unit": "mPa s",
            "identifier": ident, "method": "verif"}
    return {"kind": "user", "rows": out, "meta": meta, "featx": featx, "ident": ident,
            "integer": True}


def gen_user_lut(rng, ident, integer=False, boundary_values=None):
    if integer:
        return gen_int_lut(rng, ident)
    featx = rng.choice(["area_um", "volume", "area_um"])
    nx, ny = rng.randint(3, 8), rng.randint(3, 8)
    x0, x1 = (rng.uniform(20, 60), rng.uniform(200, 400)) if featx == "area_um" else \
        (rng.uniform(80, 200), rng.uniform(1500, 4000))
    y0, y1 = rng.uniform(0.0005, 0.01), rng.uniform(0.08, 0.22)
    rows = []
    for i in range(nx):
        for j in range(ny):
            if rng.random() < 0.12 and len(rows) > 4:
                continue           # ragged support
            u = (i + rng.uniform(-0.35, 0.35)) / (nx - 1)
            v = (j + rng.uniform(-0.35, 0.35)) / (ny - 1)
            x = x0 + (x1 - x0) * min(max(u, 0.0), 1.0)
            y = y0 + (y1 - y0) * min(max(v, 0.0), 1.0) * (0.4 + 0.6 * u)
            e = 0.4 + 25 * math.exp(-3 * v) * (0.3 + u) + rng.uniform(0, 0.5)
            rows.append([x, y, e])
    # round like a data file would (6 significant digits)
    rows = [[float("%.6g" % v) for v in r] for r in rows]
    # boundary values a loader must take as they are: nodes at exactly zero deformation (the
    # undeformed sphere), zero abscissa, zero or negative emodulus, negative deformation
    boundary = []
    if boundary_values is None:
        boundary_values = rng.random() < 0.5
    if boundary_values:
        ymin = min(r[1] for r in rows)
        xmin = min(r[0] for r in rows)
        kinds = rng.sample(["deform0", "deform0", "x0", "E0", "negative_deform", "negative_E",
                            "deform0_line"], rng.randint(1, 3))
        for kd in kinds:
            if kd == "deform0":          # the lowest nodes sit at deform == 0
                for r in rows:
                    if r[1] <= ymin * 1.5 + 1e-4:
                        r[1] = 0.0
            elif kd == "deform0_line":   # a complete first grid line at deform == 0
                xs_ = sorted({r[0] for r in rows})
                rows += [[x_, 0.0, float("%.6g" % rng.uniform(20, 60))]
                         for x_ in xs_[::max(1, len(xs_) // 5)]]
            elif kd == "x0":
                for r in rows:
                    if r[0] <= xmin * 1.02:
                        r[0] = 0.0
            elif kd == "E0":
                for r in rng.sample(rows, min(3, len(rows))):
                    r[2] = 0.0
            elif kd == "negative_deform":
                for r in rows:
                    if r[1] <= ymin * 1.5 + 1e-4:
                        r[1] = -float("%.6g" % rng.uniform(0.0005, 0.004))
            else:
                for r in rng.sample(rows, min(2, len(rows))):
                    r[2] = -float("%.6g" % rng.uniform(0.1, 2))
        boundary = sorted(set(kinds))
    seen, out = set(), []
    for r in rows:
        if (r[0], r[1]) not in seen:
            seen.add((r[0], r[1]))
            out.append(r)
    meta = {"channel_width": rng.choice([15.0, 20.0, 20.0, 30.0, 40.0]),
            "channel_width_unit": "um",
            "flow_rate": rng.choice([0.04, 0.04, 0.08, 0.16, 0.012]),
            "flow_rate_unit": "uL/s",
            "fluid_viscosity": rng.choice([15.0, 6.0, 1.0, 3.7]),
            "fluid_viscosity_unit": "mPa s",
            "identifier": ident, "method": "verif"}
    return {"kind": "user", "rows": out, "meta": meta, "featx": featx, "ident": ident,
            "boundary": boundary}


class Lut:
    """a LUT as the harness sees it (independent parse), with lazily computed geometry"""

    def __init__(self, spec, workdir, path=None):
        self.spec = spec
        self.native = np.dtype("float64")     # dtype of the array handed over in tuple mode
        self._variants = {}
        if spec["kind"] == "builtin":
            self.path = common.REPO / EMOD_DIR / f"lut_{spec['name']}.txt"
            self.rows, self.meta, feats = parse_lut_file(self.path)
            self.featx = feats[0]
            self.key = spec["name"]
        else:
            self.path = pathlib.Path(path) if path is not None else \
                pathlib.Path(workdir) / f"lut_{spec['ident']}.txt"
            write_lut_file(self.path, spec["rows"], spec["meta"], spec["featx"])
            self.rows, self.meta, feats = parse_lut_file(self.path)
            self.featx = spec["featx"]
            self.key = spec["ident"]
        self.k = 2 if self.featx == "area_um" else 3
        self.L0 = float(self.meta["channel_width"])
        self.Q0 = float(self.meta["flow_rate"])
        self.eta0 = float(self.meta["fluid_viscosity"])
        self.small = len(self.rows) <= 80
        self.file_hash = hashlib.sha1(self.path.read_bytes()).hexdigest()
        self._tri0 = None

    @property
    def tri0(self):
        """triangulation of the max-normalised raw table (used by the event generator)"""
        if self._tri0 is None:
            from scipy.spatial import Delaunay
            self._tri0 = Delaunay(self.rows[:, :2] / self.rows[:, :2].max(0))
        return self._tri0

    def variant(self, dtype):
        """the table a caller describes by handing over `rows.astype(dtype)`: same file and
        metadata, rows = the values that survive the conversion"""
        dt = np.dtype(dtype)
        if dt == np.dtype("float64"):
            return self
        if dt.str not in self._variants:
            v = copy.copy(self)
            v.rows = np.array(self.rows.astype(dt), dtype=float)
            v.native = dt
            v.key = f"{self.key}@{dt.name}"
            v._tri0 = None
            v._variants = {}
            self._variants[dt.str] = v
        return self._variants[dt.str]

    def meta_tuple(self):
        m = copy.deepcopy(self.meta)
        m["column features"] = [self.featx, "deform", "emodulus"]
        m["column units"] = ["um^2" if self.featx == "area_um" else "um^3", "", "kPa"]
        return m


# ------------------------------------------------------------------------------------------
# case generation
def gen_setup(rng, lut):
    L = rng.choice([lut.L0, 20.0, float(rng.randint(10, 40)), round(rng.uniform(10, 40), 2)])
    Q = rng.choice([lut.Q0, 0.04, 0.16, 0.32, round(rng.uniform(0.01, 0.5), 3)])
    px = rng.choice([0.34, 0.34, 0.0, 0, 0.2, 0.27, round(rng.uniform(0.1, 0.6), 3)])
    return L, Q, px


def gen_visc(rng, n):
    """(medium, model, temperature) – temperature None | float | list"""
    r = rng.random()
    if r < 0.22:
        return round(rng.uniform(0.5, 30), 3), None, None
    medium = rng.choice(sorted(MEDIA))
    model = rng.choice(MODELS)
    if rng.random() < 0.8:          # mostly a model that is defined for the medium
        model = rng.choice(MODELS[:3] if MEDIA[medium] != "0.83% MC-PBS" else MODELS[2:3])
    lo, hi = rng.choice([(18, 26), (22, 37), (16, 40), (22, 26)])
    if r < 0.5:
        return medium, model, rng.choice([round(rng.uniform(lo, hi), 2), rng.uniform(lo, hi)])
    return medium, model, gen_temperatures(rng, n, lo, hi)


TEMP_KINDS = ["constant", "drift", "drift", "rounding_twins", "wide", "outlier", "few_values"]


def gen_temperatures(rng, n, lo, hi, kind=None):
    """per-event temperatures with every kind of spread"""
    kind = kind or rng.choice(TEMP_KINDS)
    base = rng.uniform(lo + 1, hi - 1)
    if kind == "constant":
        t = [rng.choice([round(base, 2), base])] * n
    elif kind == "drift":
        # slow drift / sensor noise of amplitude 1e-6 ... 0.5 degC around one temperature
        amp = 10.0 ** rng.uniform(-6, math.log10(0.5))
        if rng.random() < 0.5:
            t = [base + amp * (2 * i / max(n - 1, 1) - 1) for i in range(n)]
        else:
            t = [base + amp * rng.uniform(-1, 1) for _ in range(n)]
    elif kind == "rounding_twins":
        # distinct values that coincide after rounding to 1-3 decimals
        dec = rng.choice([1, 2, 2, 3])
        grid = [round(base + k * 10.0 ** -dec, dec) for k in range(-2, 3)]
        t = [rng.choice(grid) + rng.uniform(-0.45, 0.45) * 10.0 ** -dec for _ in range(n)]
    elif kind == "wide":
        t = [rng.uniform(lo, hi) for _ in range(n)]
    elif kind == "few_values":
        vals = [rng.uniform(lo, hi) for _ in range(rng.randint(2, 4))]
        t = [rng.choice(vals) for _ in range(n)]
    else:
        # (nearly) constant with one event at a clearly different temperature
        amp = rng.choice([0.0, 10.0 ** rng.uniform(-6, -1)])
        t = [base + amp * rng.uniform(-1, 1) for _ in range(n)]
        t[rng.randrange(n)] = base + rng.choice([-1, 1]) * rng.uniform(3, 9)
    t = [float(min(max(v, 1.0), 60.0)) for v in t]
    if n > 1 and rng.random() < 0.3:
        # missing readings (the sensor is read out asynchronously): nan for some, never all,
        # events.  The viscosity - hence E - of such an event is undefined (nan); the others
        # must not notice
        for i in rng.sample(range(n), rng.randint(1, max(1, min(n - 1, n // 4)))):
            t[i] = float("nan")
    return t


def finite_temps(temp):
    return [v for v in temp if math.isfinite(v)]


def gen_events(rng, lut, L, px, n):
    """events in the caller's units; returns x list, deform list, category list"""
    tri = lut.tri0
    rows = lut.rows
    sx = (L / lut.L0) ** lut.k
    hull = tri.convex_hull
    if len(hull) > 12:
        # few distinct hull edges per case: every new separating line costs the model one pass
        # over all rows of the table
        hull = hull[[rng.randrange(len(hull)) for _ in range(6)]]
    cen = rows[:, :2].mean(0)
    span = rows[:, :2].max(0) - rows[:, :2].min(0)
    xs, ds, cats = [], [], []

    def emit(X, Y, cat):
        x = X * sx
        d = Y
        if px and math.isfinite(x) and math.isfinite(my_delta(lut.featx, x, px)):
            d = Y + my_delta(lut.featx, x, px)
        xs.append(float(x))
        ds.append(float(d))
        cats.append(cat)

    # triangles spanned by nodes with boundary values (exact zeros, negative entries)
    special = np.nonzero((rows[:, :2] <= 0).any(1) | (rows[:, 2] <= 0))[0]
    sp_tris = np.nonzero(np.isin(tri.simplices, special).any(1))[0] if len(special) else []
    for _ in range(n):
        r = rng.random()
        if len(sp_tris) and r < 0.22:
            s = tri.simplices[sp_tris[rng.randrange(len(sp_tris))]]
            w = [rng.random() ** 2 + 1e-3 for _ in range(3)]
            t = sum(w)
            P = sum(rows[s[i], :2] * (w[i] / t) for i in range(3))
            emit(P[0], P[1], "at_boundary_nodes")
        elif r < 0.40:
            s = tri.simplices[rng.randrange(len(tri.simplices))]
            w = [rng.random() for _ in range(3)]
            t = sum(w)
            P = sum(rows[s[i], :2] * (w[i] / t) for i in range(3))
            emit(P[0], P[1], "inside")
        elif r < 0.48:
            s = tri.simplices[rng.randrange(len(tri.simplices))]
            i, j = rng.sample(range(3), 2)
            t = rng.random()
            P = rows[s[i], :2] * t + rows[s[j], :2] * (1 - t)
            emit(P[0], P[1], "edge")
        elif r < 0.58:
            v = rows[rng.randrange(len(rows))]
            emit(v[0], v[1], "node")
        elif r < 0.76:
            if rng.random() < 0.5:
                e = hull[rng.randrange(len(hull))]
                t = rng.random()
                P = rows[e[0], :2] * t + rows[e[1], :2] * (1 - t)
                P = P + (P - cen) * rng.uniform(0.02, 0.6)
            else:
                P = rows[:, :2].min(0) + span * np.array([rng.uniform(-0.3, 1.3),
                                                          rng.uniform(-0.3, 1.3)])
            emit(P[0], P[1], "far")
        elif r < 0.96:
            e = hull[rng.randrange(len(hull))]
            t = rng.random()
            P = rows[e[0], :2] * t + rows[e[1], :2] * (1 - t)
            eps = 10.0 ** rng.uniform(-14, -4) * rng.choice([-1, 1])
            P = P + (P - cen) * eps
            emit(P[0], P[1], "nearhull")
        else:
            c = rng.choice(["nan_x", "nan_d", "inf_x", "neg", "zero"])
            if c == "nan_x":
                emit(float("nan"), 0.05, "special")
            elif c == "nan_d":
                emit(float(cen[0]), float("nan"), "special")
            elif c == "inf_x":
                emit(float("inf"), 0.05, "special")
            elif c == "neg":
                emit(float(cen[0]), -0.01, "special")
            else:
                emit(0.0, 0.0, "special")
    return xs, ds, cats


# the container of the events: get_emodulus takes "float or ndarray" - any shape, any memory
# layout (views of larger arrays, Fortran order, transposed); the result has the shape of the
# input and the value of an event does not depend on where it sits in memory
EV_LAYOUTS = ["1d", "1d", "1d", "1d", "1d_strided", "2d_C", "2d_F", "2d_T", "2d_strided"]


def ev_shape(n, layout):
    if not layout.startswith("2d") or n < 2:
        return (n,)
    r = max(k for k in range(1, int(math.isqrt(n)) + 1) if n % k == 0)
    return (r, n // r)


def shape_events(vals, layout):
    """(array holding `vals` in logical (C index) order in the given container, base array of
    which it is a view or None)"""
    a = np.array(vals, dtype=float)
    n = len(a)
    if layout == "0d" and n == 1:
        return np.array(a[0]), None
    if layout == "1d_strided":
        base = np.full(2 * n + 1, 7.5)
        v = base[1::2][:n]
        v[...] = a
        return v, base
    shp = ev_shape(n, layout)
    if len(shp) == 1:
        return a, None
    a2 = a.reshape(shp)
    if layout == "2d_F":
        return np.asfortranarray(a2), None
    if layout == "2d_T":
        base = np.ascontiguousarray(a2.T)
        return base.T, base
    if layout == "2d_strided":
        base = np.full((2 * shp[0] + 1, 2 * shp[1] + 2), 7.5)
        v = base[1::2, 1::2][:shp[0], :shp[1]]
        v[...] = a2
        return v, base
    return a2, None


def gen_case(rng, lut, n_ev, mode=None):
    if mode is None:
        mode = "ident" if lut.spec["kind"] == "builtin" else \
            rng.choice(["path", "pathlib", "ident", "tuple"])
    extra = {}
    if mode == "tuple":
        # the caller's array: any numeric dtype that can hold the table, any memory layout
        dts = DTYPES_ALL if lut.spec.get("integer") else DTYPES_FLOAT
        extra = {"dtype": rng.choice(dts + ["float32"]), "layout": rng.choice(LAYOUTS)}
        lut = lut.variant(extra["dtype"])
    L, Q, px = gen_setup(rng, lut)
    n = max(3, n_ev + rng.randint(-n_ev // 3, n_ev // 3))
    ev_layout = rng.choice(EV_LAYOUTS)
    while ev_layout.startswith("2d") and ev_shape(n, ev_layout)[0] < 2:
        n += 1                      # a prime number of events has no 2D arrangement
    extra["ev_layout"] = ev_layout
    medium, model, temp = gen_visc(rng, n)
    xs, ds, cats = gen_events(rng, lut, L, px, n)
    case = {"lut": lut.spec, "mode": mode, "L": L, "Q": Q, "px": px, "medium": medium,
            "model": model, "temp": temp, "x": xs, "d": ds, "cats": cats}
    case.update(extra)
    return case


def effective(lut, case):
    """the table the call describes (tuple mode: what survives the array's dtype)"""
    return lut.variant(case.get("dtype", "float64"))


# ------------------------------------------------------------------------------------------
# implementation side
class Registry:
    """what has been registered in EXTERNAL_LUTS by the harness in this process"""
    done = {}


DTYPES_FLOAT = ["float64", "float32"]
DTYPES_ALL = ["float64", "float32", "int32", "int64", "uint16"]
LAYOUTS = ["C", "F", "strided", "readonly"]


def make_array(lut, layout):
    """the array handed over in tuple mode: dtype `lut.native`, given memory layout; returns
    (array, base array or None)"""
    arr = np.array(lut.rows, dtype=lut.native)
    base = None
    if layout == "F":
        arr = np.asfortranarray(arr)
    elif layout == "strided":
        base = np.full((2 * len(arr) + 1, 7), 77, dtype=lut.native)
        view = base[1::2, 1::2][:len(arr), :3]
        view[...] = arr
        arr = view
    elif layout == "readonly":
        arr.setflags(write=False)
    return arr, base


def lut_arg(lut, case):
    """(lut_data argument, (array, meta, base) for tuple mode or None)"""
    from dclab.features.emodulus import load
    ref = case.get("ref")
    if ref is not None:          # history calls name their LUT explicitly
        if ref["kind"] == "path":
            return (pathlib.Path(ref["path"]) if ref.get("pathlib") else str(ref["path"])), None
        if ref["kind"] in ("ident", "builtin"):
            return ref["name"], None
    elif lut.spec["kind"] == "builtin":
        return lut.spec["name"], None
    mode = case["mode"]
    if ref is None and mode == "path":
        return str(lut.path), None
    if ref is None and mode == "pathlib":
        return lut.path, None
    if ref is None and mode == "ident":
        base_key = lut.spec["ident"]
        if Registry.done.get(base_key) != str(lut.path):
            load.EXTERNAL_LUTS.pop(base_key, None)
            # identifier from the file's metadata, or given explicitly
            if len(Registry.done) % 2:
                load.register_lut(lut.path)
            else:
                load.register_lut(lut.path, identifier=base_key)
            Registry.done[base_key] = str(lut.path)
        return base_key, None
    arr, base = make_array(lut, case.get("layout", "C"))
    meta = lut.meta_tuple()
    return (arr, meta), (arr, meta, base)


def fp(a):
    if a is None:
        return None
    if isinstance(a, np.ndarray):
        return (a.shape, a.dtype.str, hashlib.sha1(np.ascontiguousarray(a).tobytes()).hexdigest())
    return repr(a)


def call_impl(lut, case, xs=None, ds=None, temp="case", medium="case", model="case",
              L=None, Q=None, px=None, mutations=None, ev_layout=None):
    """one call of the real get_emodulus; returns ndarray or 'err:…'.  `mutations` (a list)
    receives descriptions of inputs that were modified by the call."""
    common.import_dclab()
    from dclab.features import emodulus as em
    from dclab.features.emodulus import load
    xs = case["x"] if xs is None else xs
    ds = case["d"] if ds is None else ds
    temp = case["temp"] if isinstance(temp, str) else temp
    medium = case["medium"] if medium == "case" else medium
    model = case["model"] if model == "case" else model
    layout = case.get("ev_layout", "1d") if ev_layout is None else ev_layout
    x_arr, x_base = shape_events(xs, layout)
    d_arr, d_base = shape_events(ds, layout)
    t_base = None
    if isinstance(temp, (list, np.ndarray)):
        t_arg, t_base = shape_events(temp, layout)
    else:
        t_arg = temp
    larg, tup = lut_arg(lut, case)
    kw = {"deform": d_arr, "medium": medium, "channel_width": case["L"] if L is None else L,
          "flow_rate": case["Q"] if Q is None else Q, "px_um": case["px"] if px is None else px,
          "temperature": t_arg, "lut_data": larg, "visc_model": model}
    kw["area_um" if lut.featx == "area_um" else "volume"] = x_arr
    def fpa(a, b):
        return (fp(a), fp(b), a.flags.writeable, a.flags.c_contiguous, a.flags.f_contiguous)
    before = (fpa(x_arr, x_base), fpa(d_arr, d_base),
              fpa(t_arg, t_base) if isinstance(t_arg, np.ndarray) else None,
              (fp(tup[0]), fp(tup[2]), tup[0].flags.writeable, tup[0].dtype.str) if tup else None,
              copy.deepcopy(tup[1]) if tup else None, dict(load.EXTERNAL_LUTS))
    try:
        with warnings.catch_warnings():
            warnings.simplefilter("ignore")
            out = em.get_emodulus(**kw)
        out = np.array(out, dtype=float, copy=True)
        if out.shape != x_arr.shape:
            out = f"shape:result of shape {out.shape} for events of shape {x_arr.shape}"
        else:
            out = out.reshape(-1)           # logical (C index) order, whatever the layout
    except Exception as e:  # noqa
        out = err_of(e)
    if mutations is not None:
        if fpa(x_arr, x_base) != before[0]:
            mutations.append("the caller's area_um/volume array was modified")
        if fpa(d_arr, d_base) != before[1]:
            mutations.append("the caller's deform array was modified")
        if isinstance(t_arg, np.ndarray) and fpa(t_arg, t_base) != before[2]:
            mutations.append("the caller's temperature array was modified")
        if tup and (fp(tup[0]), fp(tup[2]), tup[0].flags.writeable,
                    tup[0].dtype.str) != before[3]:
            mutations.append("the caller's LUT array was modified")
        if tup and tup[1] != before[4]:
            mutations.append("the caller's LUT metadata was modified")
        if dict(load.EXTERNAL_LUTS) != before[5]:
            mutations.append("EXTERNAL_LUTS was modified")
        if hashlib.sha1(lut.path.read_bytes()).hexdigest() != lut.file_hash:
            mutations.append("the LUT file was modified")
    return out


# ------------------------------------------------------------------------------------------
# oracle side
def case_visc(lut, case):
    """harness viscosity for the case: (route, eta list | float) or 'err:…'"""
    medium, model, temp = case["medium"], case["model"], case["temp"]
    if isinstance(medium, (int, float)):
        return "A", float(medium)
    try:
        if isinstance(temp, list):
            return "B", [my_visc(medium, case["L"], case["Q"], t, model) for t in temp]
        return "A", my_visc(medium, case["L"], case["Q"], temp, model)
    except Exception as e:  # noqa
        return None, err_of(e)


def orient(a, b, p):
    return (b[0] - a[0]) * (p[1] - a[1]) - (b[1] - a[1]) * (p[0] - a[0])


class Geo:
    """float replica of the documented scaling + normalisation for one (LUT, route, L, Q, eta)
    and qhull's triangulation of it"""

    def __init__(self, lut, route, L, Q, eta_global, force64=False):
        from scipy.spatial import Delaunay
        # the implementation works on `np.array(lut, copy=True)`, i.e. in the dtype of the
        # caller's array (files: float64); integer arrays cannot be scaled in place at all
        native = lut.native if (lut.native.kind == "f" and not force64) else np.dtype(float)
        t = np.array(lut.rows, dtype=native)
        self.lut, self.route = lut, route
        if route == "A":
            if lut.L0 != L:
                t[:, 0] *= (L / lut.L0) ** lut.k
            if lut.Q0 != Q or lut.L0 != L or lut.eta0 != eta_global:
                t[:, 2] *= (Q / lut.Q0) * (eta_global / lut.eta0) * (lut.L0 / L) ** 3
        nx = t[:, 0].max()
        t[:, 0] /= nx
        ny = t[:, 1].max()
        t[:, 1] /= ny
        self.nx, self.ny = float(nx), float(ny)
        t = np.array(t, dtype=float)
        self.t = t
        self.tri = Delaunay(t[:, :2])
        hull = self.tri.convex_hull
        cen = t[:, :2].mean(0)
        a, b = t[hull[:, 0], :2], t[hull[:, 1], :2]
        o = (b[:, 0] - a[:, 0]) * (cen[1] - a[:, 1]) - (b[:, 1] - a[:, 1]) * (cen[0] - a[:, 0])
        flip = o < 0
        self.hull = np.where(flip[:, None], hull[:, ::-1], hull)      # interior on the + side
        self.ha, self.hb = t[self.hull[:, 0], :2], t[self.hull[:, 1], :2]
        self.hlen = np.hypot(*(self.hb - self.ha).T)
        self._v2s = None
        # per-simplex geometry (floats): vertices, doubled signed area, conditioning
        sim = self.tri.simplices
        P = t[:, :2]
        self.sa, self.sb, self.sc = P[sim[:, 0]], P[sim[:, 1]], P[sim[:, 2]]
        self.sD = ((self.sb[:, 0] - self.sa[:, 0]) * (self.sc[:, 1] - self.sa[:, 1])
                   - (self.sb[:, 1] - self.sa[:, 1]) * (self.sc[:, 0] - self.sa[:, 0]))
        L2 = np.maximum(np.maximum(((self.sa - self.sb) ** 2).sum(1),
                                   ((self.sb - self.sc) ** 2).sum(1)),
                        ((self.sc - self.sa) ** 2).sum(1))
        with np.errstate(divide="ignore"):
            self.scond = L2 / np.abs(self.sD)

    def minbary_all(self, q):
        """smallest barycentric coordinate of q in every simplex (floats)"""
        def o(a, b):
            return (b[:, 0] - a[:, 0]) * (q[1] - a[:, 1]) - (b[:, 1] - a[:, 1]) * (q[0] - a[:, 0])
        with np.errstate(divide="ignore", invalid="ignore"):
            w = np.minimum(np.minimum(o(self.sb, self.sc), o(self.sc, self.sa)),
                           o(self.sa, self.sb)) / self.sD
            w2 = np.maximum(np.maximum(o(self.sb, self.sc), o(self.sc, self.sa)),
                            o(self.sa, self.sb)) / self.sD
        return np.where(self.sD > 0, w, w2)

    def minbary_one(self, s, q):
        a, b, c, D = self.sa[s], self.sb[s], self.sc[s], self.sD[s]
        return min(orient(b, c, q) / D, orient(c, a, q) / D, orient(a, b, q) / D)

    def loc_uncertainty(self, simplices):
        """scipy locates points through a float inverse of the simplex matrix; its barycentric
        coordinates are uncertain by about this much (64 ulp x conditioning)"""
        return 64 * 2.3e-16 * float(max(self.scond[k] for k in simplices))

    def hull_dist(self, q):
        """(signed distance to the nearest hull line: + inside; index of the most violated /
        nearest edge)"""
        o = ((self.hb[:, 0] - self.ha[:, 0]) * (q[1] - self.ha[:, 1])
             - (self.hb[:, 1] - self.ha[:, 1]) * (q[0] - self.ha[:, 0])) / self.hlen
        i = int(np.argmin(o))
        return float(o[i]), i

    def locate(self, q):
        s = int(self.tri.find_simplex(np.array([q]))[0])
        return s

    def candidates(self, s, q, wtol=1e-7):
        """the simplex found in floats; if the point is within rounding of one of its edges or
        vertices also the simplices around them (the exact test decides)"""
        sim = self.tri.simplices
        a, b, c = (self.t[i] for i in sim[s])
        D = orient(a, b, c)
        w = min(abs(orient(b, c, q) / D), abs(orient(c, a, q) / D), abs(orient(a, b, q) / D))
        if w > wtol:
            return [s]
        if self._v2s is None:
            v2s = {}
            for k, tr in enumerate(sim):
                for v in tr:
                    v2s.setdefault(int(v), []).append(k)
            self._v2s = v2s
        out = [s]
        for v in sim[s]:
            for k in self._v2s[int(v)]:
                if k not in out:
                    out.append(k)
        return out

    def exact_value(self, s, q):
        """barycentric interpolation in simplex `s` of the float-normalised table, evaluated in
        exact rational arithmetic (the floats are taken as they are)"""
        v = self.tri.simplices[s]
        a, b, c = ([Fraction(float(u)) for u in self.t[i]] for i in v)
        p = (Fraction(float(q[0])), Fraction(float(q[1])))
        D = orient(a, b, c)
        return float((orient(b, c, p) * a[2] + orient(c, a, p) * b[2]
                      + orient(a, b, p) * c[2]) / D)

    def slack(self, simplices):
        """rounding allowance for an event located in one of `simplices`: the implementation
        normalises the table and the event in floats, which moves a point by ~1 ulp; in a
        sliver triangle that changes the barycentric coordinates by ~ulp * (longest edge)^2 /
        (2 * area) and the value by that times the spread of the three tabulated values"""
        worst = 0.0
        for s in simplices:
            v = self.tri.simplices[s]
            a, b, c = (self.t[i] for i in v)
            D = abs(orient(a, b, c))
            L2 = max(np.sum((a[:2] - b[:2]) ** 2), np.sum((b[:2] - c[:2]) ** 2),
                     np.sum((c[:2] - a[:2]) ** 2))
            spread = max(a[2], b[2], c[2]) - min(a[2], b[2], c[2])
            cond = L2 / D if D > 0 else float("inf")
            worst = max(worst, 16 * 2.3e-16 * cond * spread)
        return float(worst)


def rat(x):
    n, d = float(x).as_integer_ratio()
    return f"{n}/{d}" if d != 1 else str(n)


def frac_to_float(s):
    if "/" in s:
        n, d = s.split("/")
        return float(Fraction(int(n), int(d)))
    return float(int(s))


def dtype_tolerances(lut, force64=False):
    """(relative tolerance, factor on the conditioning allowances, hull band) for comparing
    the implementation with exact arithmetic on the table: the implementation scales and
    normalises the table in the dtype of the caller's array"""
    if lut.native.kind != "f" or lut.native == np.dtype(float):
        return RTOL, 1.0, BAND
    eps = float(np.finfo(lut.native).eps)
    return max(RTOL, 64 * eps), eps / 2.2e-16, max(BAND, 64 * eps)


def prepare(lut, case, force64=False):
    """everything the comparison needs for one case: route, etas, deltas, per-event float
    oracle, near-hull flags, and the Lean query lines"""
    route, eta = case_visc(lut, case)
    n = len(case["x"])
    rtol_x, unc_x, band_x = dtype_tolerances(lut)
    info = {"route": route, "eta": eta, "n": n, "rtol": RTOL, "rtol_exact": rtol_x,
            "native": lut.native.name}
    if route is None:
        return info
    etas = eta if route == "B" else [eta] * n
    L, Q, px = case["L"], case["Q"], case["px"]
    geo = Geo(lut, route, L, Q, eta if route == "A" else None, force64=force64)
    fEs = [(Q / lut.Q0) * (e / lut.eta0) * (lut.L0 / L) ** 3 for e in etas]
    deltas, expect, near, lines, kinds, slack, mag = [], [], [], [], [], [], []
    near_x, slack_x = [], []          # the same allowances for the comparison with exact
    #                                   arithmetic on the table (wider for float32 arrays)
    for i in range(n):
        x, d = case["x"][i], case["d"][i]
        if not (math.isfinite(x) and math.isfinite(d)):
            deltas.append(0.0)
            expect.append(float("nan"))
            mag.append(float("nan"))
            near.append(False)
            lines.append(None)
            kinds.append("nonfinite")
            slack.append(0.0)
            near_x.append(False)
            slack_x.append(0.0)
            continue
        dl = my_delta(lut.featx, x, px) if px else 0.0
        if not math.isfinite(dl):       # exp overflow for absurd abscissae: deform - inf
            deltas.append(0.0)
            expect.append(float("nan"))
            mag.append(float("nan"))
            near.append(False)
            lines.append(None)
            kinds.append("nonfinite")
            slack.append(0.0)
            near_x.append(False)
            slack_x.append(0.0)
            continue
        deltas.append(dl)
        dc = d - dl
        if route == "A":
            q = (x / geo.nx, dc / geo.ny)
        else:
            x4 = x * (lut.L0 / L) ** lut.k if L != lut.L0 else x
            q = (x4 / geo.nx, dc / geo.ny)
        dist, edge = geo.hull_dist(q)
        s = geo.locate(q)
        uncertain = False
        if s < 0 and dist > 0:
            # inside the hull but scipy reports no simplex: legitimate only if the point is
            # within the location uncertainty of a (sliver) simplex
            wall = geo.minbary_all(q)
            k = int(np.nanargmax(wall))
            if wall[k] > -geo.loc_uncertainty([k]) - 1e-13:
                s, uncertain = k, True
        # (for float32 tables the rounding of the table itself moves edges by ~1e-7)
        cands = geo.candidates(s, q, max(1e-7, 1024 * 2.2e-16 * unc_x)) if s >= 0 else []
        if s >= 0 and geo.minbary_one(s, q) < geo.loc_uncertainty(cands):
            uncertain = True
        near.append(abs(dist) < BAND or uncertain)
        near_x.append(abs(dist) < band_x or uncertain or
                      (s >= 0 and geo.minbary_one(s, q) < unc_x * geo.loc_uncertainty(cands)))
        # a missing temperature reading: no viscosity, hence no Young's modulus, for this event
        # (its geometry - hull band, sliver allowances - is still needed by the laws that
        # re-evaluate the event with another viscosity source)
        eta_ok = math.isfinite(etas[i])
        fE_i = fEs[i] if eta_ok else (Q / lut.Q0) * (lut.L0 / L) ** 3
        head = f"q {rat(x)} {rat(d)} {rat(dl)} {rat(etas[i]) if eta_ok else 'nan'} "
        if s >= 0:
            val = geo.exact_value(s, q)
            mag.append(float(val * fE_i if route == "B" else val))
            expect.append(mag[-1] if eta_ok else float("nan"))
            slack.append(geo.slack(cands) * (abs(fE_i) if route == "B" else 1.0))
        else:
            mag.append(float("nan"))
            expect.append(float("nan"))
            slack.append(0.0)
        slack_x.append(slack[-1] * unc_x)
        if not eta_ok:
            lines.append(None)
            kinds.append("nonfinite")
            continue
        if lut.small:
            lines.append(head + "full")
            kinds.append("full")
        elif s >= 0:
            idx = " ".join(" ".join(str(int(v)) for v in geo.tri.simplices[c]) for c in cands)
            lines.append(head + "cand " + idx)
            kinds.append("cand")
        else:
            # separating line in the frame of the raw table: a side of the bounding box if
            # possible (few distinct lines = few all-rows checks in the model), else the most
            # violated hull edge
            R = lut.rows
            px_raw = (x * (lut.L0 / L) ** lut.k if L != lut.L0 else x, dc)
            lo, hi = R[:, :2].min(0), R[:, :2].max(0)
            mg = 1e-12 * (hi - lo)
            if px_raw[0] > hi[0] + mg[0]:
                a, b = (hi[0], 0.0), (hi[0], 1.0)
            elif px_raw[0] < lo[0] - mg[0]:
                a, b = (lo[0], 1.0), (lo[0], 0.0)
            elif px_raw[1] > hi[1] + mg[1]:
                a, b = (1.0, hi[1]), (0.0, hi[1])
            elif px_raw[1] < lo[1] - mg[1]:
                a, b = (0.0, lo[1]), (1.0, lo[1])
            else:
                a, b = R[geo.hull[edge, 0], :2], R[geo.hull[edge, 1], :2]
            lines.append(head + f"out {rat(a[0])} {rat(a[1])} {rat(b[0])} {rat(b[1])}")
            kinds.append("out")
    info.update(geo=geo, etas=etas, deltas=deltas, expect=expect, expect_mag=mag, near=near,
                lines=lines,
                kinds=kinds, slack=slack, near_x=near_x, slack_x=slack_x)
    return info


def close(a, b, slack=0.0, rtol=RTOL):
    if math.isnan(a) or math.isnan(b):
        return math.isnan(a) and math.isnan(b)
    if math.isinf(a) or math.isinf(b):
        return a == b
    return abs(a - b) <= max(ATOL, rtol * max(abs(a), abs(b)), slack)


def compare_float(case, info, out, lut=None):
    """property oracle vs implementation; list of (event index, text)"""
    bad = []
    if info["route"] is None:
        if not (isinstance(out, str) and out == info["eta"]):
            bad.append((-1, f"viscosity for medium={case['medium']!r} model={case['model']!r} "
                            f"should raise {info['eta']}, get_emodulus gave "
                            f"{out if isinstance(out, str) else 'a result'}"))
        return bad
    if isinstance(out, str):
        if lut is not None and lut.native.kind in "iu" and out in ("err:value", "err:type"):
            # integer tables cannot be scaled/normalised in place; rejecting them is not a
            # wrong answer ("Cannot correct integer `area_um` in-place!")
            return []
        if out.startswith("shape:"):
            return [(-1, f"get_emodulus returned a {out[6:]} "
                         f"(container {case.get('ev_layout', '1d')})")]
        return [(-1, f"get_emodulus raised {out}")]
    if out.shape != (info["n"],):
        return [(-1, f"result shape {out.shape} for {info['n']} events")]

    def cmp(inf, near, slack, rtol):
        res = []
        for i in range(inf["n"]):
            e, o = inf["expect"][i], float(out[i])
            if near[i] and (math.isnan(e) != math.isnan(o)):
                continue
            if not close(e, o, slack[i], rtol):
                tt = (f", temperature={case['temp'][i]!r}" if isinstance(case["temp"], list)
                      else "") + (f", events passed as {case['ev_layout']}"
                                  if case.get("ev_layout", "1d") != "1d" else "")
                res.append((i, f"event {i} ({case['cats'][i]}; x={case['x'][i]!r}, "
                               f"deform={case['d'][i]!r}{tt}): get_emodulus={o!r}, scaled linear "
                               f"interpolation of the LUT={e!r}"
                               + (f" (LUT array dtype {inf['native']})"
                                  if inf["native"] != "float64" else "")))
        return res
    # the table scaled and normalised in the dtype of the caller's array, as the code does
    bad = cmp(info, info["near"], info["slack"], RTOL)
    if bad and lut is not None and lut.native.kind == "f" and lut.native != np.dtype(float):
        # an implementation may just as well convert the table to float64 first: accept that
        # reading too, at the resolution of the array's dtype
        inf2 = prepare(lut, case, force64=True)
        if not cmp(inf2, inf2["near_x"], inf2["slack_x"], inf2["rtol_exact"]):
            return []
    return bad


# ------------------------------------------------------------------------------------------
# metamorphic laws on the implementation
def arrays_close(a, b):
    if isinstance(a, str) or isinstance(b, str):
        return isinstance(a, str) and isinstance(b, str) and a == b
    if a.shape != b.shape:
        return False
    return all(close(float(u), float(v)) for u, v in zip(a, b))


def near_mask(info):
    return np.array(info.get("near", []), dtype=bool)


def laws(rng, lut, case, info, base, which=None):
    """returns list of (law name, text).  `base` = result of the plain call."""
    bad = []
    n = len(case["x"])
    if isinstance(base, str):
        return bad
    near = np.array(info.get("near_x", []), dtype=bool)
    # magnitudes of the events' values (for an event without temperature reading: the value
    # it has with the LUT's own viscosity) - used for the allowances only
    slack, expect = info.get("slack_x", []), info.get("expect_mag", info.get("expect", []))
    rtol = info.get("rtol_exact", RTOL)

    def same(a, b, idx=None):
        """equal within the tolerance; for events in the hull band / within the location
        uncertainty of a sliver edge the NaN-ness is not compared (`idx[i]` = index of a's i-th
        event in the base case).  Bit equality is not required: scipy's point
        location walks from the previous hit, so the triangle reported for a point on an edge
        (and the last bit of the value) may depend on the neighbours in the batch."""
        if isinstance(a, str) or isinstance(b, str):
            return arrays_close(a, b)
        if a.shape != b.shape:
            return False
        # magnitude of this call's results relative to the base case (the laws rescale E):
        # converts the absolute conditioning allowance of an event whose value is ~0
        g = 1.0
        for i in range(len(a)):
            j = i if idx is None else idx[i]
            if j < len(expect) and math.isfinite(expect[j]) and expect[j] != 0 \
                    and math.isfinite(float(a[i])):
                g = max(g, abs(float(a[i]) / expect[j]))
        for i in range(len(a)):
            j = i if idx is None else idx[i]
            u, v = float(a[i]), float(b[i])
            if j < len(near) and near[j] and (math.isnan(u) != math.isnan(v) or (
                    j < len(expect) and not math.isfinite(expect[j]))):
                # location uncertain (hull band / sliver edge): NaN-ness is not compared, and
                # if the base case has no triangle for the event there is no conditioning
                # allowance to compare values with
                continue
            # conditioning allowance of the event's triangle, relative (the laws change the
            # magnitude of E)
            rs = 0.0
            if j < len(slack) and math.isfinite(expect[j]) and expect[j] != 0:
                rs = 2 * slack[j] / abs(expect[j])     # two roundings, one per call
            ab = 2 * slack[j] * g if j < len(slack) else 0.0
            if not close(u, v, max(rs * max(abs(u), abs(v)), ab)
                         if math.isfinite(u) and math.isfinite(v) else 0.0, rtol):
                return False
        return True

    todo = which if which is not None else ["repeat", "perm", "split", "routes", "linear",
                                           "rescale", "single", "outlier"]
    if "repeat" in todo:
        again = call_impl(lut, case)
        if not (isinstance(again, np.ndarray) and np.array_equal(again, base, equal_nan=True)):
            bad.append(("repeat", "a second identical call returned different values"))
    if "perm" in todo and n > 1:
        p = list(range(n))
        rng.shuffle(p)
        t = [case["temp"][i] for i in p] if isinstance(case["temp"], list) else case["temp"]
        o = call_impl(lut, case, xs=[case["x"][i] for i in p], ds=[case["d"][i] for i in p],
                      temp=t)
        if isinstance(o, str) or not same(o, base[p], p):
            bad.append(("perm", "permuting the events does not permute the results"))
    if "split" in todo and n > 1:
        c = rng.randint(1, n - 1)
        parts = []
        for sl in (slice(0, c), slice(c, n)):
            t = case["temp"][sl] if isinstance(case["temp"], list) else case["temp"]
            parts.append(call_impl(lut, case, xs=case["x"][sl], ds=case["d"][sl], temp=t))
        if any(isinstance(q, str) for q in parts) or \
                not same(np.concatenate(parts), base):
            bad.append(("split", f"splitting the batch at {c} changes results"))
    if "single" in todo and n > 0:
        i = rng.randrange(n)
        t = [case["temp"][i]] if isinstance(case["temp"], list) else case["temp"]
        lay = rng.choice(["1d", "0d"])       # a one-element array or a 0-d scalar
        o = call_impl(lut, case, xs=[case["x"][i]], ds=[case["d"][i]], temp=t, ev_layout=lay)
        if isinstance(o, str) or not same(o, base[i:i + 1], [i]):
            bad.append(("single", f"event {i} alone ({lay}) gives a different value than in "
                                  f"the batch"))
    if "routes" in todo and isinstance(case["medium"], str) and info["route"] is not None:
        # scalar temperature vs. an array holding the same temperature
        o_arr = o_sc = base
        if isinstance(case["temp"], list):
            ft = finite_temps(case["temp"])
            if ft:
                o_arr = call_impl(lut, case, temp=[ft[0]] * n)
                o_sc = call_impl(lut, case, temp=ft[0])
        else:
            o_arr = call_impl(lut, case, temp=[case["temp"]] * n)
        if not same(o_arr, o_sc):
            bad.append(("routes", "per-event temperature array and scalar temperature disagree"))
    if "outlier" in todo and isinstance(case["temp"], list) and n > 0 \
            and isinstance(case["medium"], str) and finite_temps(case["temp"]):
        # batch composition: one more event at a clearly different temperature (and, the other
        # way round, the batch without its most deviating event) must not change the others
        ft = finite_temps(case["temp"])
        tm = sum(ft) / len(ft)
        t_out = tm + 7.0 if tm < 30 else tm - 7.0
        o = call_impl(lut, case, xs=case["x"] + [case["x"][0]], ds=case["d"] + [case["d"][0]],
                      temp=case["temp"] + [t_out])
        if isinstance(o, str) or len(o) != n + 1 or not same(o[:n], base):
            bad.append(("outlier", f"appending one event at {t_out:.2f} degC changes the "
                                   f"results of the other events"))
        if n > 2:
            j = max(range(n), key=lambda i: abs(case["temp"][i] - tm)
                    if math.isfinite(case["temp"][i]) else -1.0)
            keep = [i for i in range(n) if i != j]
            o = call_impl(lut, case, xs=[case["x"][i] for i in keep],
                          ds=[case["d"][i] for i in keep], temp=[case["temp"][i] for i in keep])
            if isinstance(o, str) or not same(o, base[keep], keep):
                bad.append(("outlier", f"removing event {j} (temperature "
                                       f"{case['temp'][j]!r}) changes the results of the others"))
    if "linear" in todo:
        # numeric viscosity: E(c1*Q, c2*eta) = c1*c2*E(Q, eta)
        eta = rng.choice([1.0, 5.5, 15.0])
        c1, c2 = rng.choice([2.0, 0.5, 3.7]), rng.choice([2.0, 0.25, 1.9])
        o1 = call_impl(lut, case, medium=eta, temp=None, model=None)
        o2 = call_impl(lut, case, medium=eta * c2, temp=None, model=None, Q=case["Q"] * c1)
        if isinstance(o1, str) or isinstance(o2, str) or not same(o1 * (c1 * c2), o2):
            bad.append(("linear", f"E is not proportional to viscosity and flow rate "
                                  f"(Q x{c1}, eta x{c2})"))
    if "rescale" in todo:
        lam = rng.choice([0.5, 1.25, 1.5, 2.0])
        eta = 7.3
        o1 = call_impl(lut, case, medium=eta, temp=None, model=None)
        xs = [x * lam ** lut.k for x in case["x"]]
        o2 = call_impl(lut, case, xs=xs, medium=eta, temp=None, model=None,
                       L=case["L"] * lam, Q=case["Q"] * lam ** 3, px=case["px"] * lam)
        if isinstance(o1, str) or isinstance(o2, str) or not same(o1, o2):
            bad.append(("rescale", f"joint rescale by {lam} (L, x, px, Q) changes E"))
    return bad


# ------------------------------------------------------------------------------------------
def check_formulas(ctx):
    """harness formulas vs the repo's pxcorr / viscosity functions"""
    common.import_dclab()
    from dclab.features.emodulus import pxcorr, viscosity
    rng = ctx.rng
    for _ in range(ctx.n(300, 3000)):
        featx = rng.choice(["area_um", "volume"])
        x = rng.uniform(0, 400) if featx == "area_um" else rng.uniform(0, 6000)
        px = rng.choice([0.34, 0.2, rng.uniform(0.05, 1.0)])
        mine = my_delta(featx, x, px)
        try:
            theirs = float(pxcorr.get_pixelation_delta("deform", featx, np.array([x]), px)[0])
        except Exception as e:  # noqa
            theirs = err_of(e)
        ctx.stat("delta_checked")
        if isinstance(theirs, str) or not close(mine, theirs):
            ctx.violation("spec", f"pixelation correction for {featx}={x!r}, px_um={px!r}: "
                                  f"documented formula {mine!r}, get_pixelation_delta {theirs!r}",
                          {"formula": "delta", "featx": featx, "x": x, "px": px})
            return
    with warnings.catch_warnings():
        warnings.simplefilter("ignore")
        for _ in range(ctx.n(400, 4000)):
            medium = rng.choice(sorted(MEDIA))
            model = rng.choice(MODELS)
            L, Q, T = rng.uniform(10, 40), rng.uniform(0.01, 0.5), rng.uniform(16, 40)
            try:
                mine = my_visc(medium, L, Q, T, model)
            except Exception as e:  # noqa
                mine = err_of(e)
            arr = rng.random() < 0.3
            try:
                th = viscosity.get_viscosity(medium=medium, channel_width=L, flow_rate=Q,
                                             temperature=np.array([T, T]) if arr else T,
                                             model=model)
                theirs = float(th[1]) if arr else float(th)
            except Exception as e:  # noqa
                theirs = err_of(e)
            ctx.stat("visc_checked")
            ok = (mine == theirs) if isinstance(mine, str) or isinstance(theirs, str) \
                else close(mine, theirs)
            if not ok:
                ctx.violation("spec", f"viscosity of {medium!r} ({model}) at L={L!r}, Q={Q!r}, "
                                      f"T={T!r}: documented formula {mine!r}, get_viscosity "
                                      f"{theirs!r}",
                              {"formula": "visc", "medium": medium, "model": model, "L": L,
                               "Q": Q, "T": T})
                return


def check_loading(ctx, luts):
    """independent parse vs load_lut for every LUT and way of passing it"""
    common.import_dclab()
    from dclab.features.emodulus import load
    for lut in luts:
        modes = ["ident"] if lut.spec["kind"] == "builtin" else ["path", "pathlib", "ident",
                                                                 "tuple"]
        for mode in modes:
            try:
                larg, _ = lut_arg(lut, {"mode": mode})
                arr, meta = load.load_lut(larg)
                ok = (np.array_equal(arr, lut.rows)
                      and meta["column features"] == [lut.featx, "deform", "emodulus"]
                      and float(meta["channel_width"]) == lut.L0
                      and float(meta["flow_rate"]) == lut.Q0
                      and float(meta["fluid_viscosity"]) == lut.eta0)
                what = "table or metadata differ from the file's content"
            except Exception as e:  # noqa
                ok, what = False, f"raised {e!r}"[:160]
            ctx.stat(f"load_{mode}")
            if not ok:
                ctx.violation("spec", f"load_lut({lut.key}, passed as {mode}): {what}",
                              {"loading": lut.spec, "mode": mode})


def lut_lines(lut):
    lines = [f"lut {rat(lut.L0)} {rat(lut.Q0)} {rat(lut.eta0)} {lut.k}"]
    rows = lut.rows
    for a in range(0, len(rows), 150):
        lines.append("rows " + " ".join(rat(v) for r in rows[a:a + 150] for v in r))
    lines.append("endlut")
    return lines


def tri_lines(geo):
    lines = ["tris"]
    sim = geo.tri.simplices
    for a in range(0, len(sim), 300):
        lines.append("tris " + " ".join(str(int(v)) for s in sim[a:a + 300] for v in s))
    return lines


def case_key(case):
    return (json.dumps(case["lut"], sort_keys=True), case["mode"], case["L"], case["Q"],
            case["px"], repr(case["medium"]), case["model"], repr(case["temp"]),
            repr(case["x"]), repr(case["d"]))


def shrink_events(lut, case, fails):
    idx = list(range(len(case["x"])))

    def sub(ix):
        c = dict(case, x=[case["x"][i] for i in ix], d=[case["d"][i] for i in ix],
                 cats=[case["cats"][i] for i in ix])
        if isinstance(case["temp"], list):
            c["temp"] = [case["temp"][i] for i in ix]
        return c
    try:
        keep = common.ddmin(idx, lambda ix: fails(sub(ix)), max_tests=40)
    except Exception:  # noqa
        keep = idx
    return sub(keep)


def float_fails(lut, case):
    info = prepare(lut, case)
    out = call_impl(lut, case)
    return bool(compare_float(case, info, out, lut))


def run_case_python(ctx, lut, case, law_names, replay=None):
    """implementation vs float oracle, laws, fingerprints.  Returns (info, out, failed).
    `replay`: recorded instead of the case (histories; no event shrinking then)"""
    info = prepare(lut, case)
    muts = []
    out = call_impl(lut, case, mutations=muts)
    failed = False
    if muts:
        ctx.violation("spec", "get_emodulus: " + "; ".join(sorted(set(muts))),
                      replay or {"case": case, "why": "mutation"})
        failed = True
    bad = compare_float(case, info, out, lut)
    if bad and replay is not None:
        ctx.violation("spec", "get_emodulus: " + bad[0][1], replay)
        failed = True
    elif bad:
        small = shrink_events(lut, case, lambda c: float_fails(lut, c))
        b2 = compare_float(small, prepare(lut, small), call_impl(lut, small), lut) or bad
        ctx.violation("spec", "get_emodulus: " + b2[0][1], {"case": small, "why": "value"})
        failed = True
    else:
        lb = laws(ctx.rng, lut, case, info, out, law_names)
        for name, text in lb:
            if replay is not None:
                ctx.violation("spec", f"get_emodulus violates '{name}': {text}", replay)
                failed = True
                continue

            def still(c, name=name):
                o = call_impl(lut, c)
                return bool(laws(random.Random(1), lut, c, prepare(lut, c), o, [name]))
            small = shrink_events(lut, case, still) if still(case) else case
            ctx.violation("spec", f"get_emodulus violates '{name}': {text}",
                          {"case": small, "why": "law", "law": name})
            failed = True
    return info, out, failed


# ------------------------------------------------------------------------------------------
# call histories over a mutable LUT environment
class Quiet:
    """stand-in for ctx while shrinking / replaying a history"""

    def __init__(self, rng, workdir):
        self.rng, self.workdir, self.violations = rng, workdir, []

    def violation(self, kind, what, replay):
        self.violations.append({"kind": kind, "what": what, "replay": replay})

    def stat(self, *a, **k):
        pass

    def case(self, *a, **k):
        pass


def gen_history(rng, hid, seed, n_ops):
    """ops over 3 paths and 2 identifiers: rewrite a file in place, register / de-register /
    re-register an identifier, call by path / identifier / built-in name / tuple.  The events
    of a call are placed relative to the table that is current when the call is generated."""
    idn = [f"verif-h{seed}-{hid}-i{k}" for k in range(2)]
    files, reg = {}, {}        # shadow: path index -> spec, ident index -> path index
    ops, nspec = [], 0

    def new_spec():
        nonlocal nspec
        nspec += 1
        # the metadata identifier of every file is identifier 0 (used by register_lut(path))
        sp = gen_user_lut(rng, idn[0], integer=rng.random() < 0.15)
        sp["token"] = nspec
        return sp

    def add_call(ref, lutspec):
        case = None
        if lutspec is not None:
            tmp = Lut(lutspec, HIST_TMP[0]) if lutspec["kind"] == "user" else BUILTIN_LUTS[
                lutspec["name"]]
            mode = "tuple" if ref["kind"] == "tuple" else "path"
            case = gen_case(rng, tmp, 10 if lutspec["kind"] == "user" else 24, mode)
            case["mode"] = {"path": "path", "ident": "ident", "builtin": "ident",
                            "tuple": "tuple"}[ref["kind"]]
        ops.append({"op": "call", "ref": ref, "case": case})

    called_p, called_i = set(), set()

    def call_path(p):
        add_call({"kind": "path", "p": p, "pathlib": rng.random() < 0.5}, files.get(p))
        called_p.add(p)

    def call_ident(i):
        add_call({"kind": "ident", "i": i}, files.get(reg.get(i)))
        called_i.add(i)

    while len(ops) < n_ops:
        r = rng.random()
        if not files or r < 0.2:
            # (re)write a file, preferably one that has been used already (same path, new table)
            p = rng.choice(sorted(called_p)) if called_p and rng.random() < 0.7 \
                else rng.randrange(3)
            files[p] = new_spec()
            ops.append({"op": "write", "path": p, "spec": files[p]})
            if rng.random() < 0.8:
                via = [i for i in reg if reg[i] == p]
                if via and rng.random() < 0.5:
                    call_ident(rng.choice(via))
                else:
                    call_path(p)
        elif r < 0.30 or (not reg and r < 0.6):
            free = [i for i in range(2) if i not in reg]
            i = rng.choice(free) if free and rng.random() < 0.8 else rng.randrange(2)
            p = rng.choice(sorted(files))
            explicit = i == 1 or rng.random() < 0.6
            ops.append({"op": "register", "ident": i, "path": p, "explicit": explicit})
            if i not in reg:
                reg[i] = p
        elif r < 0.33:
            ops.append({"op": "register", "ident": rng.choice(BUILTIN), "path":
                        rng.choice(sorted(files)), "explicit": True})
        elif r < 0.38:
            i = rng.randrange(2)
            ops.append({"op": "deregister", "ident": i})
            reg.pop(i, None)
        elif r < 0.50 and reg and len(files) > 1:
            # re-register an identifier (preferably a used one) to another file
            i = rng.choice(sorted(called_i & set(reg)) or sorted(reg))
            others = [p for p in sorted(files) if p != reg[i]]
            p = rng.choice(others)
            ops.append({"op": "deregister", "ident": i})
            ops.append({"op": "register", "ident": i, "path": p, "explicit": True})
            reg[i] = p
            if rng.random() < 0.85:
                call_ident(i)
        else:
            k = rng.random()
            if k < 0.38:
                call_path(rng.choice(sorted(files)) if rng.random() < 0.9 else rng.randrange(3))
            elif k < 0.75:
                call_ident(rng.choice(sorted(reg)) if reg and rng.random() < 0.88
                           else rng.randrange(2))
            elif k < 0.87:
                nm = rng.choice(BUILTIN)
                add_call({"kind": "builtin", "name": nm}, {"kind": "builtin", "name": nm})
            else:
                p = rng.choice(sorted(files))
                add_call({"kind": "tuple", "p": p}, files[p])
    return {"hid": hid, "seed": seed, "ops": ops}


HIST_TMP = [None]
BUILTIN_LUTS = {}
EXEC_COUNT = [0]


def well_formed(hist):
    """register only files that exist (the generator guarantees it, the shrinker must keep it)"""
    written = set()
    for op in hist["ops"]:
        if op["op"] == "write":
            written.add(op["path"])
        elif op["op"] == "register" and op["path"] not in written:
            return False
    return True


def exec_history(ctx, hist, laws_on=True):
    """run the history on the real code and on the shadow environment.  Returns
    (entries for the exact model, env lines, number of calls that came after a change of what
    their reference points to)"""
    common.import_dclab()
    from dclab.features import emodulus as em
    from dclab.features.emodulus import load
    hid, seed = hist["hid"], hist["seed"]
    wd = pathlib.Path(ctx.workdir)
    # fresh names for every execution: the shrinker re-executes (parts of) a history in this
    # process, and what an earlier execution left behind must not be visible to this one
    EXEC_COUNT[0] += 1
    tag = f"{seed}-{hid}-x{EXEC_COUNT[0]}"
    paths = [wd / f"hist-{tag}-p{k}.txt" for k in range(3)]
    idn = [f"verif-h{tag}-i{k}" for k in range(2)]
    files, reg, used = {}, {}, {}      # shadow; used: reference -> token seen at last call
    entries, env, after_change = [], [("env reset 3", "ok")], 0
    clock = [1_700_000_000 + 1000 * hid]
    for pth in paths:                  # clean slate (the shrinker re-executes histories)
        pth.unlink(missing_ok=True)
    for nm in idn:
        load.EXTERNAL_LUTS.pop(nm, None)

    def fail(what, k):
        ctx.violation("spec", what, {"history": hist, "op": k, "why": "history"})

    try:
        for k, op in enumerate(hist["ops"]):
            if op["op"] == "write":
                spec = dict(op["spec"], meta=dict(op["spec"]["meta"], identifier=idn[0]),
                            ident=idn[0])
                lut = Lut(spec, wd, path=paths[op["path"]])
                clock[0] += 2
                import os
                os.utime(paths[op["path"]], (clock[0], clock[0]))
                files[op["path"]] = lut
                env.append((f"env write {op['path']} {op['spec']['token']}", "ok"))
                ctx.stat("hist_write" + ("_rewrite_of_used_path" if ("p", op["path"]) in used
                                         else ""))
            elif op["op"] == "register":
                builtin = isinstance(op["ident"], str)
                name = op["ident"] if builtin else idn[op["ident"]]
                exp = "err:value" if (builtin or op["ident"] in reg) else "ok"
                try:
                    if op["explicit"]:
                        load.register_lut(paths[op["path"]], identifier=name)
                    else:
                        load.register_lut(paths[op["path"]])
                    got = "ok"
                except Exception as e:  # noqa
                    got = err_of(e)
                if exp == "ok":
                    reg[op["ident"]] = op["path"]
                env.append((f"env reg {BUILTIN.index(name) if builtin else 10 + op['ident']} "
                            f"{op['path']}", exp))
                ctx.stat("hist_register_" + exp)
                if got != exp:
                    fail(f"register_lut({name!r}) gave {got}, expected {exp}", k)
                    return entries, env, after_change
            elif op["op"] == "deregister":
                load.EXTERNAL_LUTS.pop(idn[op["ident"]], None)
                reg.pop(op["ident"], None)
                env.append((f"env dereg {10 + op['ident']}", "ok"))
                ctx.stat("hist_deregister")
            else:
                ref = op["ref"]
                if ref["kind"] == "path":
                    cur = files.get(ref["p"])
                    r = {"kind": "path", "path": str(paths[ref["p"]]), "pathlib": ref["pathlib"]}
                    env.append((f"env load path {ref['p']}",
                                str(cur.spec["token"]) if cur else "err:value"))
                    ukey = ("p", ref["p"])
                elif ref["kind"] == "ident":
                    cur = files.get(reg.get(ref["i"]))
                    r = {"kind": "ident", "name": idn[ref["i"]]}
                    env.append((f"env load id {10 + ref['i']}",
                                str(cur.spec["token"]) if cur else "err:value"))
                    ukey = ("i", ref["i"])
                elif ref["kind"] == "builtin":
                    cur = BUILTIN_LUTS[ref["name"]]
                    r = {"kind": "builtin", "name": ref["name"]}
                    env.append((f"env load id {BUILTIN.index(ref['name'])}",
                                str(1000 + BUILTIN.index(ref["name"]))))
                    ukey = ("b", ref["name"])
                else:
                    cur, r, ukey = files.get(ref["p"]), None, None
                ctx.stat("hist_call_" + ref["kind"])
                case = op["case"]
                if cur is None or case is None:
                    # nothing there (any more): ValueError, whatever was loaded before
                    if cur is None and r is not None:
                        try:
                            with warnings.catch_warnings():
                                warnings.simplefilter("ignore")
                                em.get_emodulus(deform=np.array([0.05]), area_um=np.array([100.]),
                                                medium=5.0, temperature=None, visc_model=None,
                                                lut_data=(pathlib.Path(r["path"])
                                                          if r.get("pathlib") else
                                                          r.get("path", r.get("name"))))
                            got = "a result"
                        except Exception as e:  # noqa
                            got = err_of(e)
                        ctx.stat("hist_call_unresolvable")
                        if got != "err:value":
                            fail(f"get_emodulus with lut_data that does not exist (any more) "
                                 f"({ref}) gave {got} instead of ValueError", k)
                            return entries, env, after_change
                    continue
                tok = cur.spec.get("token", cur.key)
                if ukey is not None:
                    if ukey in used and used[ukey] != tok:
                        after_change += 1
                        ctx.stat("hist_call_after_change")
                    used[ukey] = tok
                # the generated events may have been placed for another table (the shadow of
                # the generator and of the execution agree unless ops were removed by shrinking)
                c = dict(case, ref=r, lut=cur.spec)
                if c["mode"] != "tuple":
                    c.pop("dtype", None)
                    c.pop("layout", None)
                lut_eff = effective(cur, c)
                n0 = len(ctx.violations)
                info, out, failed = run_case_python(
                    ctx, lut_eff, c, LAW_SETS[k % len(LAW_SETS)][:1] if laws_on else [],
                    replay={"history": hist, "op": k, "why": "history"})
                if failed:
                    for v in ctx.violations[n0:]:
                        v["what"] = f"history op {k} ({ref['kind']}): " + v["what"]
                    return entries, env, after_change
                entries.append((lut_eff, c, (info, out, failed)))
    finally:
        for nm in idn:
            load.EXTERNAL_LUTS.pop(nm, None)
    return entries, env, after_change


def history_fails(ctx, hist):
    if not well_formed(hist):
        return False
    q = Quiet(random.Random(1), ctx.workdir)
    try:
        exec_history(q, hist, laws_on=True)
    except Exception:  # noqa
        return False
    return bool(q.violations)


def run_histories(ctx, n_hist):
    HIST_TMP[0] = pathlib.Path(ctx.workdir) / "histgen"
    HIST_TMP[0].mkdir(exist_ok=True)
    if not BUILTIN_LUTS:
        for nm in BUILTIN:
            BUILTIN_LUTS[nm] = Lut({"kind": "builtin", "name": nm}, ctx.workdir)
    hists = []
    corpus = common.VERIF / "corpus" / "C05"
    if corpus.exists():
        for p in sorted(corpus.glob("*.json")):
            c = json.loads(p.read_text())
            if "history" in c:
                hists.append(c["history"])
    for h in range(n_hist):
        hists.append(gen_history(ctx.rng, h, ctx.seed, ctx.rng.randint(10, 22)))
    entries, env_lines = [], []
    for hist in hists:
        n0 = len(ctx.violations)
        e, env, after = exec_history(ctx, hist)
        ctx.stat("histories")
        ctx.stat("hist_ops", len(hist["ops"]))
        if len(ctx.violations) > n0:
            # shrink the op list (events stay as generated)
            ops = common.ddmin(hist["ops"], lambda o: history_fails(ctx, dict(hist, ops=o)),
                               max_tests=40)
            small = dict(hist, ops=ops)
            q = Quiet(random.Random(1), ctx.workdir)
            try:
                exec_history(q, small)
            except Exception:  # noqa
                q.violations = []
            if q.violations:
                del ctx.violations[n0:]
                ctx.violations.extend(q.violations)
            continue
        entries += e
        env_lines += env
    return entries, env_lines


# ------------------------------------------------------------------------------------------
# memory model: scale_* with inplace on/off, get_emodulus(copy) (Model/EmodMem.lean)
MEM_FEATS = ["area_um", "volume", "emodulus", "deform", "circ", "area_um", "emodulus", "bogus"]
MEM_DT = {"float64": "f64", "float32": "f32", "int64": "int", "int32": "int"}


def gen_mem_case(rng):
    ft = rng.choice(MEM_FEATS)
    dt = rng.choice(["float64", "float64", "float32", "int64", "int32"])
    n = rng.randint(1, 6)
    vals = [float(rng.randint(1, 400)) if (dt.startswith("int") or rng.random() < 0.3)
            else float(np.float32(rng.uniform(0.01, 400))) for _ in range(n)]
    Lin = rng.choice([15.0, 20.0, 30.0, 40.0])
    Lout = Lin if rng.random() < 0.35 else rng.choice([10.0, 20.0, 25.0, 30.0])
    Qin = rng.choice([0.04, 0.16])
    Qout = Qin if rng.random() < 0.5 else rng.choice([0.04, 0.08, 0.32])
    ein = rng.choice([15.0, 6.0, 1.0])
    if rng.random() < 0.35:
        eout = [round(rng.uniform(0.5, 20), 3) for _ in range(n)]
    else:
        eout = ein if rng.random() < 0.5 else round(rng.uniform(0.5, 20), 3)
    return {"feat": ft, "dtype": dt, "vals": vals, "Lin": Lin, "Lout": Lout, "Qin": Qin,
            "Qout": Qout, "ein": ein, "eout": eout, "inplace": rng.random() < 0.5,
            "direct": rng.random() < 0.4}


def mem_law(c):
    """the documented scaling law, element-wise (None: unknown feature)"""
    ft, v = c["feat"], c["vals"]
    if ft in ("area_um", "volume"):
        k = 2 if ft == "area_um" else 3
        return [x * (c["Lout"] / c["Lin"]) ** k if c["Lin"] != c["Lout"] else x for x in v]
    if ft == "emodulus":
        es = c["eout"] if isinstance(c["eout"], list) else [c["eout"]] * len(v)
        if c["Qin"] == c["Qout"] and c["Lin"] == c["Lout"] and not isinstance(c["eout"], list) \
                and c["ein"] == c["eout"]:
            return list(v)
        return [x * (c["Qout"] / c["Qin"]) * (e / c["ein"]) * (c["Lin"] / c["Lout"]) ** 3
                for x, e in zip(v, es)]
    if ft in ("deform", "circ"):
        return list(v)
    return None


def run_mem_case(c):
    """real scale_feature (or the scale_* function itself) on a fresh array; returns
    (canonical observation in the model's answer format with float lists, spec complaint)"""
    from dclab.features.emodulus import scale_linear as sl
    arr = np.array(c["vals"], dtype=c["dtype"])
    orig = arr.copy()
    eout = np.array(c["eout"], dtype=float) if isinstance(c["eout"], list) else c["eout"]
    kw = {"channel_width_in": c["Lin"], "channel_width_out": c["Lout"], "flow_rate_in": c["Qin"],
          "flow_rate_out": c["Qout"], "viscosity_in": c["ein"], "viscosity_out": eout}
    try:
        with warnings.catch_warnings():
            warnings.simplefilter("ignore")
            fn = {"area_um": getattr(sl, "scale_area_um", None),
                  "volume": getattr(sl, "scale_volume", None),
                  "emodulus": getattr(sl, "scale_emodulus", None)}.get(c["feat"])
            if c["direct"] and fn is not None:
                key = {"area_um": "area_um", "volume": "volume", "emodulus": "emodulus"}[c["feat"]]
                if c["feat"] != "emodulus":
                    kw = {k: kw[k] for k in ("channel_width_in", "channel_width_out")}
                out = fn(**{key: arr}, inplace=c["inplace"], **kw)
            else:
                out = sl.scale_feature(feat=c["feat"], data=arr, inplace=c["inplace"], **kw)
    except Exception as e:  # noqa
        obs = err_of(e)
        spec = None
        if not np.array_equal(arr, orig) and not c["inplace"]:
            spec = "the caller's array was modified although the call raised"
        return obs, spec
    out = np.asarray(out)
    same = out is arr or bool(np.shares_memory(out, arr))
    obs = ("ok", "same" if same else "new", MEM_DT.get(out.dtype.name, out.dtype.name),
           [float(v) for v in out.ravel()], [float(v) for v in arr.ravel()])
    spec = None
    law = mem_law(c)
    tol = 1e-6 if c["dtype"] == "float32" else 1e-12
    if not c["inplace"] and not (np.array_equal(arr, orig) and arr.dtype == orig.dtype):
        spec = f"inplace=False modified the caller's array ({orig.tolist()} -> {arr.tolist()})"
    elif not c["inplace"] and same:
        spec = "inplace=False returned (a view of) the caller's array"
    elif law is not None and (len(law) != out.size or not all(
            abs(a - b) <= tol * max(abs(a), abs(b)) for a, b in zip(law, obs[3]))):
        spec = f"returned {obs[3]}, the documented scaling law gives {law}"
    return obs, spec


def mem_line(c):
    es = c["eout"] if isinstance(c["eout"], list) else [c["eout"]]
    return (f"mem scale {c['feat']} {MEM_DT[c['dtype']]} {int(c['inplace'])} {rat(c['Lin'])} "
            f"{rat(c['Lout'])} {rat(c['Qin'])} {rat(c['Qout'])} {rat(c['ein'])} "
            f"{'a' if isinstance(c['eout'], list) else 's'} {len(c['vals'])} "
            + " ".join(rat(v) for v in c["vals"] + es))


def mem_answer_matches(c, obs, ans):
    """model answer vs observation (values at the resolution of the dtype)"""
    if isinstance(obs, str):
        return ans == obs
    w = ans.split()
    if len(w) != 5 or w[0] != "ok" or w[1] != obs[1] or w[2] != obs[2]:
        return False
    tol = 1e-6 if c["dtype"] == "float32" else 1e-12

    def vals(t):
        return [] if t == "-" else [frac_to_float(x) for x in t.split(",")]
    for model, real in ((vals(w[3]), obs[3]), (vals(w[4]), obs[4])):
        if len(model) != len(real) or not all(
                abs(a - b) <= tol * max(abs(a), abs(b)) for a, b in zip(model, real)):
            return False
    return True


def check_memory(ctx):
    """scale_* against the documented law and the ownership rules; returns the entries for the
    model [(line, case, observation)]"""
    entries = []
    for _ in range(ctx.n(80, 600)):
        c = gen_mem_case(ctx.rng)
        try:
            obs, spec = run_mem_case(c)
        except Exception as e:  # noqa  (an API that is not there any more: skip, note)
            ctx.stat("mem_skipped_" + type(e).__name__)
            continue
        ctx.stat("mem_scale_cases")
        ctx.stat(f"mem_{c['feat']}_{MEM_DT[c['dtype']]}_{'inplace' if c['inplace'] else 'copy'}")
        ctx.stat("mem_result=" + (obs if isinstance(obs, str) else obs[1]))
        if spec:
            ctx.violation("spec", f"scale_feature({c['feat']!r}, {c['dtype']} array "
                                  f"{c['vals']}, inplace={c['inplace']}, L {c['Lin']}->"
                                  f"{c['Lout']}): {spec}", {"memory": c})
            continue
        entries.append((mem_line(c), c, obs))
    return entries


def observe_copy_flag(ctx, lut):
    """which of the caller's arrays get_emodulus overwrites, per (copy, px, route): returns
    [(model line, observed refs or None)].  copy=True is the property (also covered by the
    fingerprints of every case); copy=False is outside the property: its comparison with the
    model is recorded as a NOTE only."""
    from dclab.features import emodulus as em
    out = []
    tri, rows = lut.tri0, lut.rows
    pts = [rows[s, :2].mean(0) for s in tri.simplices[:4]]
    for cp in (True, False):
        for px in (True, False):
            for rb in (True, False):
                x = np.array([p[0] for p in pts], dtype=float)
                d = np.array([p[1] for p in pts], dtype=float) + 0.004
                la = np.array(rows, dtype=float)
                x0, d0, l0 = x.copy(), d.copy(), la.copy()
                kw = {"area_um" if lut.featx == "area_um" else "volume": x}
                try:
                    with warnings.catch_warnings():
                        warnings.simplefilter("ignore")
                        em.get_emodulus(deform=d, medium="CellCarrier" if rb else 7.5,
                                        channel_width=lut.L0 * 1.5, flow_rate=0.08,
                                        px_um=0.34 if px else 0,
                                        temperature=np.full(len(x), 23.5) if rb else None,
                                        lut_data=(la, lut.meta_tuple()),
                                        visc_model="buyukurganci-2022" if rb else None,
                                        copy=cp, **kw)
                    refs = [i for i, (a, b) in enumerate([(x, x0), (d, d0), (la, l0)])
                            if not np.array_equal(a, b, equal_nan=True)]
                except Exception:  # noqa
                    refs = None
                out.append((f"mem prog {int(cp)} {int(px)} {int(rb)}", cp, refs))
    return out


def make_luts(ctx, n_user):
    luts = [Lut({"kind": "builtin", "name": nm}, ctx.workdir) for nm in BUILTIN]
    for j in range(n_user):
        luts.append(Lut(gen_user_lut(ctx.rng, f"verif-{ctx.seed}-{j}", integer=(j % 4 == 3)),
                        ctx.workdir))
    return luts


def cleanup_registry():
    try:
        from dclab.features.emodulus import load
        for k in list(Registry.done):
            load.EXTERNAL_LUTS.pop(k, None)
        Registry.done.clear()
    except Exception:  # noqa
        pass


LAW_SETS = [["outlier", "repeat", "perm"], ["split", "routes"], ["outlier", "linear", "single"],
            ["rescale", "routes"]]


def run(ctx):
    common.import_dclab()
    try:
        _run(ctx)
    finally:
        cleanup_registry()


def _run(ctx):
    check_formulas(ctx)
    # without a checked model the run below *is* the failing-input search: about 10x the cases
    # (3x the user LUTs, 3x the cases per LUT) instead of `ctx.n`'s 10x on every count
    def nn(quick, thorough):
        return (quick if ctx.tier == "quick" else thorough) * (1 if ctx.lean_ok else 3)
    luts = make_luts(ctx, nn(8, 60))
    check_loading(ctx, luts)
    mem_entries = check_memory(ctx)
    try:
        prog_entries = observe_copy_flag(ctx, luts[3])
    except Exception as e:  # noqa
        prog_entries = []
        ctx.stat("mem_prog_skipped_" + type(e).__name__)
    corpus = common.VERIF / "corpus" / "C05"
    cases = []      # (lut, case)
    if corpus.exists():
        for p in sorted(corpus.glob("*.json")):
            c = json.loads(p.read_text())
            if "history" in c:
                continue          # histories are replayed by run_histories
            cases.append((effective(Lut(c["lut"], ctx.workdir), c), c, None))
    for lut in luts:
        if lut.spec["kind"] == "builtin":
            ncase, nev = nn(7, 80), (110 if len(lut.rows) > 5000 else 90)
        else:
            ncase, nev = nn(8, 24), 36
        modes = ["path", "pathlib", "ident", "tuple"]
        for j in range(ncase):
            mode = None if lut.spec["kind"] == "builtin" else modes[j % 4]
            case = gen_case(ctx.rng, lut, nev, mode)
            cases.append((effective(lut, case), case, None))
    # call histories over a mutable LUT environment (executed now, in order)
    hist_cases, env_lines = run_histories(ctx, nn(10, 80))
    cases += hist_cases
    # implementation + float oracle + laws
    results = []
    lean_lines, spans = [], []
    cur_lut = None
    any_failed = False
    for ci, (lut, case, pre) in enumerate(cases):
        if pre is not None:
            info, out, failed = pre
            any_failed |= failed
            results.append(pre)
        else:
            info, out, failed = run_case_python(ctx, lut, case, LAW_SETS[ci % len(LAW_SETS)])
            any_failed |= failed
            results.append((info, out, failed))
        if case["mode"] == "tuple":
            ctx.stat(f"tuple_dtype={case.get('dtype', 'float64')}")
            ctx.stat(f"tuple_layout={case.get('layout', 'C')}")
        finite = isinstance(out, np.ndarray) and bool(np.isfinite(out).any())
        nontriv = finite and (case["L"] != lut.L0 or bool(case["px"]) or info["route"] == "B")
        ctx.case(case_key(case), nontrivial=nontriv,
                 sample={"lut": lut.key, "mode": case["mode"], "L": case["L"], "Q": case["Q"],
                         "px": case["px"], "medium": case["medium"], "model": case["model"],
                         "temperature": case["temp"] if not isinstance(case["temp"], list)
                         else case["temp"][:3] + ["…"], "route": info["route"],
                         "events": [[case["x"][i], case["d"][i]] for i in range(3)],
                         "impl": [float(v) for v in out[:3]] if isinstance(out, np.ndarray)
                         else out,
                         "oracle": info.get("expect", [None])[:3]} if nontriv else None)
        ctx.stat(f"lut={'builtin' if lut.spec['kind'] == 'builtin' else lut.featx}")
        ctx.stat(f"mode={case['mode']}")
        ctx.stat(f"route={info['route']}")
        ctx.stat("visc=" + ("numeric" if not isinstance(case["medium"], str) else
                            ("array" if isinstance(case["temp"], list) else "scalar")))
        if isinstance(case["temp"], list) and case["temp"]:
            ft = finite_temps(case["temp"]) or [0.0]
            sp = max(ft) - min(ft)
            if len(ft) < len(case["temp"]):
                ctx.stat("temp_with_missing_readings")
            ctx.stat("temp_spread=" + ("0" if sp == 0 else "<1e-3" if sp < 1e-3 else
                                       "<0.5" if sp < 0.5 else ">=0.5"))
        for b in lut.spec.get("boundary") or []:
            ctx.stat("lut_boundary_" + b)
        ctx.stat("events_as=" + case.get("ev_layout", "1d"))
        if not case["px"]:
            ctx.stat("px=0")
        if isinstance(out, str):
            ctx.stat(out)
        for c in case["cats"]:
            ctx.stat("ev_" + c)
        if isinstance(out, np.ndarray):
            ctx.stat("results_nan", int(np.isnan(out).sum()))
            ctx.stat("results_finite", int(np.isfinite(out).sum()))
        if info["route"] is not None:
            ctx.stat("events_in_sliver_triangles(slack>1e-9*E)", int(sum(
                1 for i in range(info["n"]) if info["slack"][i] > RTOL * abs(info["expect"][i]))))
            ctx.stat("events_in_hull_band", int(sum(info["near"])))
            if isinstance(out, np.ndarray) and out.shape == (info["n"],):
                ctx.stat("skipped_near_discontinuity", int(sum(
                    1 for i in range(info["n"]) if info["near"][i]
                    and math.isnan(info["expect"][i]) != math.isnan(float(out[i])))))
        # model lines
        if ctx.lean_ok and info["route"] is not None and not failed \
                and isinstance(out, np.ndarray):
            start = len(lean_lines)
            if cur_lut is not lut:
                lean_lines += lut_lines(lut)
                cur_lut = lut
            pre = len(lean_lines)
            if lut.small:
                lean_lines += tri_lines(info["geo"])
            lean_lines.append(f"cfg {info['route']} {rat(case['L'])} {rat(case['Q'])} "
                              f"{rat(case['px'])}")
            qpos = {}
            for i, ln in enumerate(info["lines"]):
                if ln is not None:
                    qpos[i] = len(lean_lines)
                    lean_lines.append(ln)
            bpos = None
            if lut.small:
                ev = [i for i in qpos]
                if ev:
                    g = "-" if info["route"] == "B" else rat(info["eta"])
                    # one δ per abscissa: keep the first event of every distinct x
                    seen, keep = set(), []
                    for i in ev:
                        if case["x"][i] not in seen:
                            seen.add(case["x"][i])
                            keep.append(i)
                    bpos = (len(lean_lines), keep)
                    lean_lines.append("batch " + g + " " + " ".join(
                        f"{rat(case['x'][i])} {rat(case['d'][i])} {rat(info['deltas'][i])} "
                        f"{rat(info['etas'][i])}" for i in keep))
            spans.append((ci, start, pre, qpos, bpos))
    if not ctx.lean_ok or any_failed:
        return
    # ---- model ----
    import time
    t0 = time.time()
    env_start = len(lean_lines)
    lean_lines += [ln for ln, _exp in env_lines]
    mem_start = len(lean_lines)
    lean_lines += [ln for ln, _c, _o in mem_entries] + [ln for ln, _cp, _r in prog_entries]
    ans = ctx.lean("C05", ["selftest-noop"] + lean_lines)[1:]
    ctx.stat("model_lines", len(lean_lines))
    ctx.stat("model_seconds", int(round(time.time() - t0)))
    mirror_bad = []
    for k, (ln, exp) in enumerate(env_lines):
        ctx.stat("model_env_ops")
        if exp is not None and ans[env_start + k] != exp:
            mirror_bad.append((0, -1, f"LUT environment model: '{ln}' answered "
                                      f"'{ans[env_start + k]}', the harness's shadow '{exp}'"))
    mem_bad = []
    for k, (ln, c, obs) in enumerate(mem_entries):
        ctx.stat("model_mem_scale")
        if not mem_answer_matches(c, obs, ans[mem_start + k]):
            mem_bad.append(f"scale_feature memory model: '{ln[:120]}' answered "
                           f"'{ans[mem_start + k][:120]}', the implementation {obs}")
    for k, (ln, cp, refs) in enumerate(prog_entries):
        a = ans[mem_start + len(mem_entries) + k].split()
        model_refs = [] if len(a) < 2 or a[1] == "-" else sorted(int(v) for v in a[1].split(","))
        if refs is None:
            ctx.stat("mem_prog_call_failed")
        elif cp:
            ctx.stat("model_mem_prog_copy_true")
            if a[:1] != ["owned"] or model_refs or refs:
                mem_bad.append(f"get_emodulus(copy=True) memory model: '{ln}' answered "
                               f"'{' '.join(a)}', the implementation overwrote caller arrays "
                               f"{refs}")
        else:
            # copy=False is outside the property: NOTE only
            ctx.stat("note_copy_false_model_" + ("agrees" if sorted(refs) == model_refs
                                                 else "differs"))
    for (ci, start, pre, qpos, bpos) in spans:
        lut, case = cases[ci][0], cases[ci][1]
        info, out, _ = results[ci]
        # maxima reported by the model at `endlut`
        for k in range(start, pre):
            if lean_lines[k] == "endlut":
                w = ans[k].split()
                if len(w) != 5 or frac_to_float(w[1]) != lut.rows[:, 0].max() or \
                        frac_to_float(w[2]) != lut.rows[:, 1].max():
                    mirror_bad.append((ci, -1, f"model maxima '{ans[k][:60]}'"))
        for i, pos in qpos.items():
            a = ans[pos]
            o = float(out[i])
            kind = info["kinds"][i]
            ctx.stat("model_" + kind)
            if a in ("notin", "notsep"):
                # float point location and exact arithmetic disagree: only legitimate within
                # rounding distance of a triangle edge / the hull
                if info["near_x"][i] or kind == "out":
                    ctx.stat("model_undecided_near_hull")
                    if not info["near_x"][i]:
                        mirror_bad.append((ci, i, f"no separating hull edge for event {i}"))
                    continue
                ctx.stat("model_undecided_edge")
                continue
            if a == "bad-op":
                mirror_bad.append((ci, i, f"driver rejected '{lean_lines[pos][:80]}'"))
                continue
            m = float("nan") if a == "nan" else frac_to_float(a)
            if info["near_x"][i] and (math.isnan(m) != math.isnan(o)):
                continue
            if not close(m, o, info["slack_x"][i], info["rtol_exact"]):
                mirror_bad.append((ci, i, f"event {i} ({case['cats'][i]}): get_emodulus={o!r}, "
                                          f"exact model={m!r}"))
        if bpos is not None:
            pos, keep = bpos
            got = ans[pos].split(",")
            single = [ans[qpos[i]] for i in keep]
            ctx.stat("model_batches")
            if got != single:
                mirror_bad.append((ci, -1, "model: batch computation differs from event-wise "
                                           "computation"))
    if mem_bad and not mirror_bad:
        n_before = len(ctx.violations)
        for _ in range(ctx.n(400, 2000)):       # failing-input search on the implementation
            c = gen_mem_case(ctx.rng)
            try:
                _obs, spec = run_mem_case(c)
            except Exception:  # noqa
                continue
            if spec:
                ctx.violation("spec", f"scale_feature({c['feat']!r}, {c['dtype']}, inplace="
                                      f"{c['inplace']}): {spec}", {"memory": c})
                break
        if len(ctx.violations) == n_before:
            ctx.violation("mirror", f"{len(mem_bad)} disagreements, first: {mem_bad[0]}",
                          {"correspondence": "Drive/C05.lean `mem` vs scale_linear.py / "
                                             "get_emodulus(copy)", "memory": mem_entries[0][1]})
        return
    if mirror_bad:
        # the float oracle agreed with the implementation on these cases, the exact model does
        # not: search for an input where the implementation contradicts the property
        n_before = len(ctx.violations)
        extended_search(ctx, luts)
        if len(ctx.violations) == n_before:
            ci, i, text = mirror_bad[0]
            ctx.violation("mirror", f"get_emodulus differs from the Lean model in "
                                    f"{len(mirror_bad)} events, first: {text}",
                          {"correspondence": "Drive/C05.lean vs get_emodulus",
                           "case": {k: v for k, v in cases[ci][1].items() if k != "ref"},
                           "event": i})


def extended_search(ctx, luts):
    """failing-input search on the implementation alone (float oracle + all laws)"""
    budget = ctx.n(120, 600)
    for j in range(budget):
        lut = luts[3 + j % (len(luts) - 3)] if j % 5 else luts[j // 5 % 3]
        case = gen_case(ctx.rng, lut, 30)
        _info, _out, failed = run_case_python(ctx, lut, case, None if j % 3 == 0 else
                                              LAW_SETS[j % len(LAW_SETS)])
        ctx.stat("search_cases")
        if failed:
            return


def replay(ctx, data):
    common.import_dclab()
    rp = data["replay"]
    try:
        if "formula" in rp:
            n0 = len(ctx.violations)
            ctx.rng.seed(0)
            check_formulas(ctx)
            return len(ctx.violations) > n0
        if "memory" in rp:
            obs, spec = run_mem_case(rp["memory"])
            print("observed:", obs, "| complaint:", spec)
            print("model line:", mem_line(rp["memory"]))
            if spec is None and ctx.lean_ok:
                a = ctx.lean("C05", [mem_line(rp["memory"])])[0]
                print("model:", a)
                return not mem_answer_matches(rp["memory"], obs, a)
            return bool(spec)
        if "loading" in rp:
            lut = Lut(rp["loading"], ctx.workdir)
            n0 = len(ctx.violations)
            check_loading(ctx, [lut])
            return len(ctx.violations) > n0
        if "history" in rp:
            HIST_TMP[0] = pathlib.Path(ctx.workdir) / "histgen"
            HIST_TMP[0].mkdir(exist_ok=True)
            for nm in BUILTIN:
                BUILTIN_LUTS.setdefault(nm, Lut({"kind": "builtin", "name": nm}, ctx.workdir))
            q = Quiet(random.Random(1), ctx.workdir)
            exec_history(q, rp["history"])
            for o in rp["history"]["ops"]:
                print("  ", {k: v for k, v in o.items() if k not in ("spec", "case")},
                      ("table #%d" % o["spec"]["token"]) if "spec" in o else "")
            for v in q.violations[:5]:
                print("  ", v["what"][:300])
            return bool(q.violations)
        if "case" not in rp:
            print("no concrete input in this replay file:", json.dumps(rp)[:400])
            return True
        case = rp["case"]
        lut = effective(Lut(case["lut"], ctx.workdir), case)
        info = prepare(lut, case)
        muts = []
        out = call_impl(lut, case, mutations=muts)
        bad = compare_float(case, info, out, lut)
        print("impl:", out if isinstance(out, str) else [float(v) for v in out[:10]])
        print("oracle:", info.get("expect", info.get("eta"))[:10]
              if info["route"] else info["eta"])
        for b in bad[:5]:
            print("  ", b[1])
        if muts:
            print("  mutated:", muts)
        lb = []
        if not bad and not isinstance(out, str):
            for _ in range(3):
                lb += laws(ctx.rng, lut, case, info, out, [rp["law"]] if "law" in rp else None)
            for name, text in lb[:5]:
                print("  law", name, text)
        return bool(bad or muts or lb)
    finally:
        cleanup_registry()
