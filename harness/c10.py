"""C10 — command-line tasks never leave a partial file at the output path.

(1) Trace conformance: every task (compress, condense, repack, join, split; tdms2rtdc in the
    thorough tier) is run on generated inputs under an operation tracer that wraps h5py /
    pathlib / os / shutil from outside (`harness/c10_util.py`).  The recorded trace is sent to the
    Lean driver `Drive/C10.lean`, which evaluates the decidable protocol `Conforms` of
    `DclabModel.Cli` and predicts, for every crash point k, the state of every output path.
    `crash_safe` / `inputs_untouched` (Properties/C10.lean) then cover *every* crash point of
    *every* conforming trace.
(2) Fault injection (validates the model, searches failing inputs): the task is re-run in a
    forked child with operation k raising OSError, and for a few k with the process killed
    immediately before operation k.  Afterwards every requested output path must be absent,
    the untouched previous file, or a complete loadable result equal to the successful output;
    the sha256 of every input must be unchanged.  That oracle is evaluated directly on the file
    system; the model's prediction is compared in addition.
"""
import concurrent.futures
import hashlib
import json
import multiprocessing
import os
import pathlib
import re
import shutil
import sys
import zipfile

import numpy as np

from . import common, gen
from .c10_util import TRACER, encode_trace

ID = "C10"
LEAN_MODULES = ["DclabModel.Properties.C10"]
RULE = ("per task (compress, condense, repack, join with 2-3 inputs, split into several parts, "
        "tdms2rtdc on the smallest fixture - both tiers) and generated input (feature sets with "
        "scalars/image/contour/trace/logs/tables, raw layout without min/max/mean attributes, "
        "all-NaN scalar feature so that tasks emit warnings; the first case of every task has all "
        "of these, the second case of every task applies the task to its own earlier output "
        "(compress(compress x), condense(condense x), repack(repack x), join([join(a,b),c]), "
        "split(part of split x)); optional stale output / stale temporary file): record "
        "the operation trace of a successful run, let the Lean driver decide `Conforms` and predict "
        "the output state at every crash point; then re-run with operation k raising OSError "
        "(quick: ~40 k per case, stratified: first/last, around every open/close/rename, all "
        "operations after the last rename, first/last/random write of every class of HDF5 object "
        "(events, logs, tables, basins, attributes of each) per file; thorough: every k; tdms2rtdc: "
        "28/60 k) and with os._exit(9) immediately before k for a few k; after every fault the task "
        "is run again, undisturbed, in the directory the failed run left behind (two-run history; "
        "its trace is checked for Conforms and freshFrom, its outputs must be complete); classify every "
        "output path as absent / untouched / complete(== successful output, loadable) / partial, "
        "compare with the prediction, compare sha256 of inputs. An injected failing close of a file "
        "open for writing truncates the file (failed flush). Traced paths are canonical (realpath, "
        "hard links of inputs by inode). In addition, per task using setup_task_paths, the output "
        "path is given as an alias of an input (same, directory symlink, file symlink, '..', "
        "relative, missing suffix, hard link, input through the link, second join input): inputs "
        "must be byte-identical whether or not the task succeeds; the same with the task's TEMPORARY "
        "path `<out>.rtdc~` coinciding with an input (F64: as the input's own name with "
        "check_suffix=False, as a symbolic link to it, as a hard link of it; input given by its "
        "ordinary or by the temporary name) - where output or temporary IS an input the model "
        "expects a refusal before any mutation (`refused_untouched`). Kill points of the quick tier "
        "always contain the operation immediately before and immediately after every rename and "
        "every close that follows the first writing handle (`complete_after_rename`, "
        "`output_never_open`). Every recorded trace of a successful run (baseline and re-runs) is "
        "matched against its task's trace template (`copy/compress/join/split/tdmsTrace` of "
        "Model/CliTasks.lean, parameters read off the trace: stale flags, writes per session, probed "
        "and appended inputs, parts): instance -> the template theorems cover it for all parameter "
        "values; not an instance -> NOTE 'template drift', the trace is still judged by Conforms. "
        "One evaluation = one injected run; "
        "distinct = distinct (task, input, k, fault kind) with at least one write before k.")
TRUSTED_BASE = [
    "modelled, not verified: POSIX rename atomicity, HDF5 flushing on close, the completeness of "
    "the set of wrapped operations (h5py File/Group/Dataset/AttributeManager mutators, h5o.copy, "
    "pathlib/os/shutil rename, replace, unlink, copy); builtins.open is not wrapped (the tasks do "
    "not use it for .rtdc output; the file-system oracle of the fault injection is independent of "
    "the tracer)",
    "the theorem is about traces; that the tasks' traces conform is checked on every run for the "
    "generated inputs (correspondence), not proved for all inputs",
    "task templates: proved for ALL parameter values (numbers of writes, parts, probed/appended "
    "inputs, stale files) that every instance conforms and is fresh; that the real tasks produce "
    "instances is checked per run (the parameters are read off the recorded trace by "
    "harness/c10.py:template_params, Lean expands the template and compares)",
]
ASSUMPTIONS = ["rename(2) is atomic; a closed HDF5 file is completely on disk",
               "a failing operation is followed only by the clean-up of with/finally blocks"]
NOT_PROVED = ["that the six task implementations produce an instance of their trace template for all "
              "inputs (the templates themselves are proved conforming and fresh for all parameter "
              "values; instance-hood is checked per run on generated inputs, conformance of "
              "non-instances by Conforms on the recorded trace and by fault enumeration)",
              "content of a temporary file after a kill (only ever under the temporary name)",
              "power loss / fsync ordering"]

TASKS = ["compress", "condense", "repack", "join", "split"]
FEATS_POOL = ["image", "contour", "trace", "time", "frame", "index", "bright_avg", "pos_x",
              "fl1_max", "mask"]


# --------------------------------------------------------------------------------------
def gen_input(rng, tag, rich=False):
    n = rng.randint(3, 9)
    base = rng.randrange(100)
    feats = ["deform", "area_um"] + sorted(rng.sample(FEATS_POOL, rng.randint(0, 4)))
    logs = {}
    for j in range(rng.randint(0, 2)):
        logs[f"log{j}"] = [f"line{rng.randrange(50)}" for _ in range(rng.randint(1, 3))]
    tables = {}
    for j in range(rng.choice([1, 2]) if rich else rng.choice([0, 0, 1, 1, 2])):
        rows = rng.randint(2, 4)
        tables[f"tab{j}"] = [[float(rng.randrange(100)) for _ in range(rows)]
                             for _c in range(rng.randint(1, 3))]
    nan_feature = rich or rng.random() < 0.3  # an all-NaN scalar feature (sensor not connected)
    raw = nan_feature or rng.random() < 0.3   # raw layout: no min/max/mean attributes
    if nan_feature and "temp" not in feats:
        feats = feats + ["temp"]
    return {"name": f"in{tag}.rtdc", "tokens": [base + i for i in range(n)], "feats": feats,
            "logs": logs, "tables": tables, "raw": raw, "nan_feature": nan_feature,
            "time": "10:%02d:%02d" % (rng.randrange(60), rng.randrange(60))}


def gen_case(rng, task, rich=False, own_output=False):
    """`rich`: every input has tables, logs, raw layout and an all-NaN feature (the first case of
    every task, so that each run covers these input classes whatever the seed)"""
    spec = {"task": task, "seed": rng.randrange(2 ** 30)}
    spec["own_output"] = own_output
    nin = {"join": 3 if own_output else rng.choice([2, 3])}.get(task, 1)
    spec["inputs"] = [gen_input(rng, i, rich) for i in range(nin)]
    for inp in spec["inputs"][1:]:
        # same feature set for all join inputs: C10 is not about feature pruning (C09 / F10)
        inp["feats"] = list(spec["inputs"][0]["feats"])
    if any(inp["nan_feature"] for inp in spec["inputs"]):
        for inp in spec["inputs"]:
            if "temp" not in inp["feats"]:
                inp["feats"] = inp["feats"] + ["temp"]
    spec["stale_out"] = rng.random() < 0.5
    spec["stale_temp"] = task != "split" and rng.random() < 0.4
    if task == "split":
        n = len(spec["inputs"][0]["tokens"])
        if own_output:
            n = max(2, n - 2)      # the first part of the preceding split is the input
        spec["split_events"] = rng.choice([1, 2, max(1, n // 2), max(1, n - 1)])
        spec["same_dir"] = rng.random() < 0.5
    if task == "repack":
        spec["strip_logs"] = rng.random() < 0.5
    if task == "condense":
        spec["ancillaries"] = rng.random() < 0.7
    return spec


def tdms_case():
    return {"task": "tdms2rtdc", "seed": 1, "inputs": [], "stale_out": True, "stale_temp": True,
            "fixture": "fmt-tdms_minimal_2016.zip"}      # the smallest fixture of tests/data


# --------------------------------------------------------------------------------------
def sha(path):
    return hashlib.sha256(pathlib.Path(path).read_bytes()).hexdigest()


def materialise(spec, d):
    """create the inputs of the case once; returns list of input paths"""
    d.mkdir(parents=True, exist_ok=True)
    ins = []
    if spec["task"] == "tdms2rtdc":
        with zipfile.ZipFile(common.REPO / "tests" / "data" / spec["fixture"]) as z:
            z.extractall(d / "tdms")
        return sorted(str(p) for p in (d / "tdms").rglob("*") if p.is_file())
    for inp in spec["inputs"]:
        p = d / inp["name"]
        gen.make_rtdc(p, inp["tokens"], feats=inp["feats"], logs=inp["logs"],
                      meta={"experiment": {"time": inp["time"]}})
        finish_input(p, inp)
        ins.append(str(p))
    # a valid small file used as stale output
    gen.make_rtdc(d / "_stale.bin", [901, 902], feats=("deform", "area_um"))
    if spec.get("own_output"):
        ins = own_output_inputs(spec, d, ins)
    return ins


def own_output_inputs(spec, d, ins):
    """history: the input of the run under test is itself the result of an earlier (undisturbed)
    run of the same task — compress(compress x), condense(condense x), repack(repack x),
    join([join(a, b), c]), split(first part of split x)"""
    from dclab import cli
    import contextlib
    import io
    task = spec["task"]
    pre = d / "in_own.rtdc"
    with contextlib.redirect_stdout(io.StringIO()):
        if task == "compress":
            cli.compress(path_in=ins[0], path_out=pre)
        elif task == "condense":
            cli.condense(path_in=ins[0], path_out=pre,
                         store_ancillary_features=spec["ancillaries"])
        elif task == "repack":
            cli.repack(path_in=ins[0], path_out=pre)
        elif task == "join":
            cli.join(paths_in=ins[:2], path_out=pre)
            return [str(pre)] + ins[2:]
        elif task == "split":
            n = len(spec["inputs"][0]["tokens"])
            parts = cli.split(path_in=pathlib.Path(ins[0]), path_out=d / "presplit",
                              split_events=max(2, n - 2), ret_out_paths=True)
            shutil.copyfile(parts[0], pre)
        else:
            return ins
    return [str(pre)]


def finish_input(path, inp):
    """tables, raw layout (no min/max/mean attributes), all-NaN feature"""
    dclab = common.import_dclab()
    import h5py
    if inp.get("tables"):
        with dclab.RTDCWriter(path, mode="append") as hw:
            for name, cols in inp["tables"].items():
                hw.store_table(name, {f"col{i}": np.array(c) for i, c in enumerate(cols)})
    if inp.get("raw") or inp.get("nan_feature"):
        with h5py.File(path, "a") as h:
            if inp.get("nan_feature"):
                h["events/temp"][:] = np.nan
            for f in h["events"]:
                if isinstance(h["events"][f], h5py.Dataset):
                    for key in ("min", "max", "mean"):
                        h["events"][f].attrs.pop(key, None)


def out_paths(spec, d, ins):
    """requested output paths (for split: as predicted from N and split_events)"""
    if spec["task"] == "split":
        import h5py
        with h5py.File(ins[0], "r") as h:
            n = len(h["events/deform"])
        s = spec["split_events"]
        parts = n // s + (1 if n % s else 0)
        od = d if spec["same_dir"] else d / "parts"
        stem = pathlib.Path(ins[0]).stem
        return [str(od / f"{stem}_{i + 1:04d}.rtdc") for i in range(parts)]
    return [str(d / "out.rtdc")]


KEEP = {}     # directory -> files that belong to the pre-task state (inputs and their ancestors)


def prepare(spec, d, ins, outs):
    """reset the directory to the pre-task state"""
    keep = set(ins) | {str(d / "_stale.bin")} | KEEP.get(str(d), set())
    for p in sorted(d.rglob("*"), reverse=True):
        if p.is_file() and str(p) not in keep:
            p.unlink()
    if spec["task"] == "split" and not spec["same_dir"]:
        (d / "parts").mkdir(exist_ok=True)
    stale = {}
    if spec["stale_out"]:
        o = outs[-1]
        if spec["task"] == "tdms2rtdc":
            pathlib.Path(o).write_bytes(b"stale output")
        else:
            shutil.copyfile(d / "_stale.bin", o)
        stale[o] = sha(o)
    if spec["stale_temp"]:
        t = outs[0] + "~"
        pathlib.Path(t).write_bytes(b"stale temporary file")
    return stale


def run_task(spec, d, ins, outs):
    common.import_dclab()
    from dclab import cli
    task = spec["task"]
    kw = {} if spec.get("check_suffix", True) else {"check_suffix": False}
    if task == "compress":
        cli.compress(path_in=ins[0], path_out=outs[0], **kw)
    elif task == "condense":
        cli.condense(path_in=ins[0], path_out=outs[0],
                     store_ancillary_features=spec["ancillaries"], **kw)
    elif task == "repack":
        cli.repack(path_in=ins[0], path_out=outs[0], strip_logs=spec["strip_logs"], **kw)
    elif task == "join":
        cli.join(paths_in=list(ins), path_out=outs[0])
    elif task == "split":
        cli.split(path_in=pathlib.Path(ins[0]),
                  path_out=None if spec["same_dir"] else d / "parts",
                  split_events=spec["split_events"])
    elif task == "tdms2rtdc":
        tdms = [p for p in ins if p.endswith(".tdms") and "_traces" not in p][0]
        cli.tdms2rtdc(path_tdms=pathlib.Path(tdms), path_rtdc=pathlib.Path(outs[0]),
                      compute_features=False)
    else:
        raise ValueError(task)


def run_child(spec, d, ins, outs, fail_at=None, kind="raise"):
    """run the task in a forked child under the tracer → (status, ops or None)"""
    res = d.parent / (d.name + ".res.json")
    if res.exists():
        res.unlink()
    sys.stdout.flush()
    sys.stderr.flush()
    pid = os.fork()
    if pid == 0:
        code = 0
        try:
            devnull = os.open(os.devnull, os.O_WRONLY)
            os.dup2(devnull, 1)
            os.dup2(devnull, 2)
            TRACER.install()
            TRACER.start(d, fail_at=fail_at, kind=kind, inputs=ins)
            try:
                run_task(spec, d, ins, outs)
                status = "ok"
            except BaseException as e:  # noqa
                status = f"exc:{type(e).__name__}:{str(e)[:120]}"
            ops = TRACER.stop()
            res.write_text(json.dumps({"status": status, "ops": ops, "labels": TRACER.labels}))
        except BaseException:
            code = 3
        finally:
            os._exit(code)
    _, st = os.waitpid(pid, 0)
    code = os.waitstatus_to_exitcode(st)
    LAST_LABELS[:] = []
    if code == 9:
        return "killed", None
    if code != 0 or not res.exists():
        return f"child-failed:{code}", None
    data = json.loads(res.read_text())
    res.unlink()
    LAST_LABELS[:] = data.get("labels", [])
    return data["status"], [tuple(o) for o in data["ops"]]


LAST_LABELS = []      # labels of the operations of the most recent traced child run


def summarize(path):
    """content summary of a complete .rtdc file; raises if it cannot be loaded"""
    dclab = common.import_dclab()
    import h5py
    with h5py.File(path, "r"):
        pass
    out = {}
    with dclab.new_dataset(path) as ds:
        feats = sorted(ds.features_innate)
        out["n"] = len(ds)
        out["feats"] = feats
        for f in feats:
            h = hashlib.sha1()
            if f == "trace":
                for tn in sorted(ds["trace"].keys()):
                    h.update(tn.encode())
                    h.update(np.asarray(ds["trace"][tn][:]).tobytes())
            elif f == "contour":
                for i in range(len(ds)):
                    h.update(np.asarray(ds["contour"][i]).tobytes())
            else:
                h.update(np.asarray(ds[f][:]).tobytes())
            out["f:" + f] = h.hexdigest()
        logs = {}
        for name in sorted(ds.logs.keys()):
            key = re.sub(r"_\d{4}-\d{2}-\d{2}_\d{2}\.\d{2}\.\d{2}", "_<timestamp>", name)
            if name.startswith("dclab-") and "warnings" in name:
                logs[key] = list(ds.logs[name])     # part of the result (every run starts from
                continue                            # the same warmed-up process state)
            logs[key] = None if name.startswith("dclab-") or name.endswith("_cfg") \
                else list(ds.logs[name])
        out["logs"] = logs
        out["tables"] = sorted(ds.tables.keys())
        with h5py.File(path, "r") as h:
            for name in sorted(h.get("tables", {})):
                t = h["tables"][name]
                out["t:" + name] = (hashlib.sha1(np.asarray(t[:]).tobytes()).hexdigest(),
                                    sorted((k, repr(v)) for k, v in t.attrs.items()))
        out["cfg"] = {sec: {k: repr(v) for k, v in sorted(dict(ds.config[sec]).items())
                            if k != "run identifier"}    # random suffix for filtered exports
                      for sec in ("experiment", "imaging", "setup", "online_contour", "fluorescence")
                      if sec in ds.config}
    return out


def classify(path, stale_sha, base_summary):
    """'a' absent | 'u' untouched previous file | 'c' complete | 'p:<why>' partial"""
    p = pathlib.Path(path)
    if not p.exists():
        return "a"
    if stale_sha is not None and sha(p) == stale_sha:
        return "u"
    try:
        s = summarize(p)
    except Exception as e:  # noqa
        return f"p:not loadable ({type(e).__name__})"
    if s != base_summary:
        keys = [k for k in s if s.get(k) != (base_summary or {}).get(k)]
        return f"p:differs from the successful output in {keys[:4]}"
    return "c"


def must_kills(rng, ops, ren):
    """kill points every tier uses: immediately before and immediately after EVERY rename and EVERY
    close that follows the first writing handle (the window between close and rename, and between
    rename and a late close, of every output: `complete_after_rename`, `output_never_open`).
    Closes of the read-only probing phase before anything is written: two of them."""
    n = len(ops)
    opens = [i for i, op in enumerate(ops) if op[0] in ("create", "openAppend")]
    closes = [i for i, op in enumerate(ops) if op[0] == "close"]
    first_w = opens[0] if opens else n
    must = set()
    for i in ren + [c for c in closes if c > first_w]:
        must.update((i, i + 1))
    early = [c for c in closes if c < first_w]
    for i in rng.sample(early, min(2, len(early))):
        must.update((i, i + 1))
    return {k for k in must if 0 <= k < n}


def choose_ks(rng, ops, labels, mode, target=40):
    """fault points: (raise-ks, kill-ks).  Stratified: first/last/around every rename, every
    open/close/unlink, and first, last and a random operation of every class of HDF5 object
    written (events, logs, tables, basins, attributes of each) per file; rest random."""
    n = len(ops)
    ren = [i for i, op in enumerate(ops) if op[0] == "rename"]
    if mode == "all":
        return list(range(n)), sorted(set(rng.sample(range(n), min(n, 12))) |
                                      must_kills(rng, ops, ren))
    labels = list(labels) + [""] * (n - len(labels))
    prio = {0, n - 1}
    for i in ren:
        prio.update((i - 1, i, i + 1, i + 2))
    if ren:
        prio.update(range(ren[-1], min(n, ren[-1] + 6)))     # everything right after the rename
    coarse, fine = {}, {}
    for i, (op, lab) in enumerate(zip(ops, labels)):
        coarse.setdefault((op[0], lab), []).append(i)
        fine.setdefault((op[0], op[1], lab), []).append(i)
    for idx in coarse.values():
        prio.update((idx[0], idx[-1]))
    second = set()
    for idx in fine.values():
        second.update((idx[0], idx[-1], rng.choice(idx)))
    for i, op in enumerate(ops):
        if op[0] in ("close", "create", "openAppend", "unlink"):
            second.update((i, i + 1))
    prio = {k for k in prio if 0 <= k < n}
    second = sorted(k for k in second if 0 <= k < n and k not in prio)
    room = max(0, target - len(prio))
    if len(second) > room:
        second = rng.sample(second, room)
    ks = prio | set(second)
    others = [k for k in range(n) if k not in ks]
    ks |= set(rng.sample(others, min(len(others), max(0, target - len(ks)))))
    must = must_kills(rng, ops, ren)
    opens = [i for i, op in enumerate(ops) if op[0] in ("create", "openAppend")]
    extra = {rng.randrange(n), rng.randrange(n), n - 1}
    for i in ren:
        extra.add(i + 2)
    for i in opens[-2:]:          # inside and right after the last files opened for writing
        extra.update((i + 1, i + 3))
    extra = sorted(k for k in extra if 0 <= k < n and k not in must)
    room = max(3, 10 - len(must))
    if len(extra) > room:
        extra = rng.sample(extra, room)
    kills = sorted(must | set(extra))
    return sorted(ks), kills


TEMPLATE_OF = {"compress": "compress", "condense": "copy", "repack": "copy", "join": "join",
               "split": "split", "tdms2rtdc": "tdms"}


def template_params(task, outs, temps, toks):
    """parameters of the task's trace template (lean/DclabModel/Model/CliTasks.lean) read off a
    recorded trace: stale flags, number of writes per writing session, probed / appended inputs
    (join), auxiliary files (split).  Best effort — Lean expands the template for these parameters
    and decides whether the trace is an instance."""
    n = len(toks)
    j = 0

    def nwrites(t):
        nonlocal j
        c = 0
        while j < n and toks[j] == f"w{t}":
            c += 1
            j += 1
        return c

    def num(tok):
        return int(tok[1:])

    if task in ("compress", "condense", "repack", "join"):
        o, t = outs[0], temps[0]
        so = st = 0
        if j < n and toks[j] == f"u{o}":
            so, j = 1, j + 1
        if j < n and toks[j] == f"u{t}":
            st, j = 1, j + 1
        if task != "join":
            j += 2                      # openRead input, create temporary
            n1 = nwrites(t)
            if task != "compress":
                return [so, st, n1]
            j += 3                      # close temporary, close input, openAppend temporary
            return [so, st, n1, nwrites(t)]
        probes = []
        while j + 1 < n and toks[j][0] == "r" and toks[j + 1] == "x" + toks[j][1:]:
            probes.append(num(toks[j]))
            j += 2
        if j >= n or toks[j][0] != "r":
            return None
        first = num(toks[j])
        j += 2                          # openRead first, openAppend temporary
        n0 = nwrites(t)
        j += 3                          # close temporary, close first, openAppend temporary
        n1 = nwrites(t)
        segs = []
        while j < n and toks[j][0] == "r":
            src = num(toks[j])
            j += 1
            a = nwrites(t)
            j += 1                      # close src
            segs += [src, a, nwrites(t)]
        return [so, st, n0, n1, first, len(probes)] + probes + segs
    sessions = {t: [] for t in temps}       # writes per writing session of every temporary
    for tok in toks:
        if tok[0] == "a" and num(tok) in sessions:
            sessions[num(tok)].append(0)
        elif tok[0] == "w" and sessions.get(num(tok)):
            sessions[num(tok)][-1] += 1
    counts = []
    for t in temps:
        counts += (sessions[t] + [0, 0])[:2]
    if task == "split":
        aux = []
        j = 1
        while j < n and toks[j][0] == "r":
            aux.append(num(toks[j]))
            j += 1
        return [len(aux)] + aux + counts
    if task == "tdms2rtdc":
        so, st = [], []
        while j < n and toks[j][0] == "u" and num(toks[j]) in outs:
            so.append(num(toks[j]))
            j += 1
        while j < n and toks[j][0] == "u" and num(toks[j]) in temps:
            st.append(num(toks[j]))
            j += 1
        return [len(so)] + so + [len(st)] + st + counts
    return None


def template_line(task, ins, outs, temps, existing, toks):
    """`tmpl` request of Drive/C10.lean, or None when no parameters can be read off the trace"""
    try:
        ps = template_params(task, outs, temps, toks)
    except Exception:  # noqa
        ps = None
    if ps is None or task not in TEMPLATE_OF:
        return None
    lst = lambda xs: ",".join(str(x) for x in xs) if xs else "-"      # noqa: E731
    return "tmpl %s %s %s %s %s %s %s" % (TEMPLATE_OF[task], lst(ins), lst(outs), lst(temps),
                                           lst(sorted(set(existing))), lst(ps), lst(toks))


def do_case(args):
    """worker: baseline + injections for one case; returns a JSON-able record"""
    spec, workdir, mode, only = args
    import random
    rng = random.Random(spec["seed"])
    d = pathlib.Path(os.path.realpath(workdir))
    if d.exists():
        shutil.rmtree(d)
    ins = materialise(spec, d)
    KEEP[str(d)] = {str(p) for p in d.rglob("*") if p.is_file()}
    outs = out_paths(spec, d, ins)
    temps = [o + "~" for o in outs]
    in_sha = {p: sha(p) for p in ins}
    rec = {"spec": spec, "results": [], "problem": None}
    # warm-up in this process (lazy imports, caches), so that every forked run starts equal
    prepare(spec, d, ins, outs)
    try:
        import contextlib
        import io
        with contextlib.redirect_stdout(io.StringIO()):
            run_task(spec, d, ins, outs)
    except Exception as e:  # noqa
        rec["problem"] = f"task fails without fault injection: {type(e).__name__}: {e}"[:300]
        return rec
    stale = prepare(spec, d, ins, outs)
    status, ops = run_child(spec, d, ins, outs)
    labels = list(LAST_LABELS)
    if status != "ok":
        rec["problem"] = f"baseline run failed: {status}"
        return rec
    missing = [o for o in outs if not pathlib.Path(o).exists()]
    if missing:
        rec["problem"] = f"baseline run did not produce {missing}"
        return rec
    base = {o: summarize(o) for o in outs}
    if any(sha(p) != h for p, h in in_sha.items()):
        rec["results"].append({"k": -1, "kind": "none", "states": [], "inputs_ok": False,
                               "status": status, "prefix_ok": True})
    roles = {}
    for p in ins + outs + temps:
        roles[p] = len(roles)
    existing = [roles[p] for p in ins] + [roles[p] for p in stale] + \
        ([roles[temps[0]]] if spec["stale_temp"] else [])
    toks = encode_trace(ops, roles)
    rec["n_ops"] = len(ops)
    rec["kinds"] = {}
    for op in ops:
        rec["kinds"][op[0]] = rec["kinds"].get(op[0], 0) + 1
    lst = lambda xs: ",".join(str(x) for x in xs) if xs else "-"      # noqa: E731

    def trace_line(existing_ids, tokens):
        return "trace %s %s %s %s %s" % (
            lst([roles[p] for p in ins]), lst([roles[p] for p in outs]),
            lst([roles[p] for p in temps]), lst(sorted(set(existing_ids))), lst(tokens))
    rec["line"] = trace_line(existing, toks)

    def tmpl_line(existing_ids, tokens):
        return template_line(spec["task"], [roles[p] for p in ins], [roles[p] for p in outs],
                             [roles[p] for p in temps], existing_ids, tokens)
    rec["tmpl"] = tmpl_line(existing, toks)
    rec["labels"] = {}
    for lab in labels:
        rec["labels"][lab] = rec["labels"].get(lab, 0) + 1
    if only is not None:
        plan = [only]
    else:
        if spec["task"] == "tdms2rtdc":      # one run takes seconds: always a stratified sample
            ks, kills = choose_ks(rng, ops, labels, "sample",
                                  target=28 if mode == "sample" else 60)
        else:
            ks, kills = choose_ks(rng, ops, labels, mode)
        plan = [(k, "raise") for k in ks] + [(k, "kill") for k in kills]
    ren = [i for i, op in enumerate(ops) if op[0] == "rename"]
    for pi, (k, kind) in enumerate(plan):
        stale = prepare(spec, d, ins, outs)
        status, ops_k = run_child(spec, d, ins, outs, fail_at=k, kind=kind)
        prefix_ok = True
        if ops_k is not None:
            prefix_ok = [tuple(o) for o in ops_k[:k]] == [tuple(o) for o in ops[:k]]
        states = [classify(o, stale.get(o), base[o]) for o in outs]
        rec["results"].append({
            "k": k, "kind": kind, "states": states, "status": status, "prefix_ok": prefix_ok,
            "inputs_ok": all(pathlib.Path(p).exists() and sha(p) == h
                             for p, h in in_sha.items()),
            "leftover": sorted(str(p.relative_to(d)) for p in d.rglob("*")
                               if p.is_file() and str(p) not in in_sha
                               and p.name != "_stale.bin" and str(p) not in outs)[:6],
            "writes_before": sum(1 for o in ops[:k] if o[0] == "write")})
        # two-run history: an undisturbed re-run with the same parameters in the directory the
        # failed run left behind (no clean-up in between)
        near = any(abs(k - i) <= 2 for i in ren)
        if only is None and mode == "all" and not near and (pi + spec["seed"]) % 4:
            continue
        if only is None and spec["task"] == "tdms2rtdc" and not near and pi % 2:
            continue
        present = [roles[p] for p in roles if pathlib.Path(p).exists()]
        status2, ops2 = run_child(spec, d, ins, outs)
        r2 = {"status": status2,
              "states": [classify(o, stale.get(o), base[o]) for o in outs],
              "inputs_ok": all(pathlib.Path(p).exists() and sha(p) == h
                               for p, h in in_sha.items()),
              "line": None}
        if ops2 is not None:
            toks2 = encode_trace(ops2, dict(roles))
            r2["line"] = trace_line(present, toks2)
            if status2 == "ok":
                r2["tmpl"] = tmpl_line(present, toks2)
        rec["results"][-1]["rerun"] = r2
    shutil.rmtree(d, ignore_errors=True)
    return rec



# --------------------------------------------------------------------------------------
# output paths that alias an input
ALIAS_TASKS = ["compress", "condense", "repack", "join"]
ALIAS_SPELLINGS = ["same", "dir-symlink", "file-symlink", "dotdot", "relative", "relative-dotdot",
                   "no-suffix", "hard-link", "input-through-link", "second-input",
                   # the task's TEMPORARY path `<out>.rtdc~` coincides with an input (F64): as the
                   # input's own name, as a symbolic link to it, as a hard link of it; the input
                   # given by its ordinary name or by the temporary name (check_suffix=False)
                   "temp-same", "temp-symlink", "temp-symlink-input", "temp-hard-link",
                   "temp-hard-link-input"]
TEMP_AS_INPUT = ("temp-same", "temp-symlink-input", "temp-hard-link-input")


def alias_paths(d, spelling):
    """(input spellings, output spelling) for one aliasing scenario; cwd of the task is `d`"""
    data = d / "data"
    ins = [str(data / "m.rtdc"), str(data / "m2.rtdc")]
    out = {
        "same": str(data / "m.rtdc"),
        "dir-symlink": str(d / "current" / "m.rtdc"),          # current -> data
        "file-symlink": str(d / "link.rtdc"),                   # link.rtdc -> data/m.rtdc
        "dotdot": str(data / "sub" / ".." / "m.rtdc"),
        "relative": os.path.join("data", "m.rtdc"),
        "relative-dotdot": os.path.join("current", "..", "data", "m.rtdc"),
        "no-suffix": str(data / "m"),
        "hard-link": str(d / "hard.rtdc"),                      # second name of the same inode
        "input-through-link": str(data / "m.rtdc"),
        "second-input": str(d / "current" / "m2.rtdc"),
    }.get(spelling, str(data / "x.rtdc"))       # temp-*: the temporary path is data/x.rtdc~
    if spelling == "input-through-link":
        ins[0] = str(d / "current" / "m.rtdc")
    if spelling in TEMP_AS_INPUT:
        ins[0] = str(data / "x.rtdc~")
    return ins, out


def do_alias_case(args):
    """worker: one task, every aliasing spelling of the output path; no fault injection — the
    inputs must be byte-identical afterwards whether or not the task succeeds"""
    _tag, task, seed, workdir = args
    import random
    rng = random.Random(seed)
    d = pathlib.Path(os.path.realpath(workdir))
    if d.exists():
        shutil.rmtree(d)
    (d / "data" / "sub").mkdir(parents=True)
    (d / "_backup").mkdir()
    canon = [str(d / "data" / "m.rtdc"), str(d / "data" / "m2.rtdc")]
    for i, c in enumerate(canon):
        inp = gen_input(rng, i, rich=(i == 0))
        inp["feats"] = ["deform", "area_um", "temp"]
        gen.make_rtdc(c, inp["tokens"], feats=inp["feats"], logs=inp["logs"],
                      meta={"experiment": {"time": inp["time"]}})
        finish_input(c, inp)
        shutil.copyfile(c, d / "_backup" / pathlib.Path(c).name)
    shas = {c: sha(c) for c in canon}
    nin = 2 if task == "join" else 1
    rec = {"task": task, "seed": seed, "results": []}
    for spelling in ALIAS_SPELLINGS:
        if spelling == "second-input" and task != "join":
            continue
        # pre-task state
        for c in canon:
            if not pathlib.Path(c).exists() or sha(c) != shas[c]:
                shutil.copyfile(d / "_backup" / pathlib.Path(c).name, c)
        for p in sorted(d.rglob("*"), reverse=True):
            if (p.is_file() or p.is_symlink()) and str(p) not in canon \
                    and p.parent.name != "_backup":
                p.unlink()
        os.symlink(d / "data", d / "current")
        os.symlink(d / "data" / "m.rtdc", d / "link.rtdc")
        os.link(d / "data" / "m.rtdc", d / "hard.rtdc")
        ins_sp, out_sp = alias_paths(d, spelling)
        ins_sp = ins_sp[:nin]
        canon_now, shas_now = list(canon), dict(shas)
        xt = d / "data" / "x.rtdc~"
        if spelling == "temp-same":              # an input file of its own under the temporary name
            shutil.copyfile(d / "_backup" / "m.rtdc", xt)
            canon_now[0] = str(xt)
            shas_now[str(xt)] = shas[canon[0]]
        elif spelling.startswith("temp-symlink"):
            os.symlink(d / "data" / "m.rtdc", xt)
        elif spelling.startswith("temp-hard-link"):
            os.link(d / "data" / "m.rtdc", xt)
        spec = {"task": task, "ancillaries": True, "strip_logs": False,
                "check_suffix": spelling not in TEMP_AS_INPUT}
        res = d.parent / (d.name + ".res.json")
        if res.exists():
            res.unlink()
        sys.stdout.flush()
        sys.stderr.flush()
        pid = os.fork()
        if pid == 0:
            code = 0
            try:
                devnull = os.open(os.devnull, os.O_WRONLY)
                os.dup2(devnull, 1)
                os.dup2(devnull, 2)
                os.chdir(d)
                TRACER.install()
                TRACER.start(d, inputs=canon_now[:nin])
                try:
                    run_task(spec, d, ins_sp, [out_sp])
                    status = "ok"
                except BaseException as e:  # noqa
                    status = f"exc:{type(e).__name__}:{str(e)[:100]}"
                ops = TRACER.stop()
                res.write_text(json.dumps({"status": status, "ops": ops}))
            except BaseException:
                code = 3
            finally:
                os._exit(code)
        _, st = os.waitpid(pid, 0)
        if os.waitstatus_to_exitcode(st) != 0 or not res.exists():
            rec["results"].append({"spelling": spelling, "status": "child-failed", "ops": 0,
                                   "inputs_ok": False, "why": "harness child failed",
                                   "line": None, "out": "?"})
            continue
        data = json.loads(res.read_text())
        res.unlink()
        ops = [tuple(o) for o in data["ops"]]
        why = None
        for c in canon_now[:nin]:
            if not pathlib.Path(c).exists():
                why = f"input {pathlib.Path(c).name} no longer exists"
            elif sha(c) != shas_now[c]:
                why = f"input {pathlib.Path(c).name} changed"
        for c in ins_sp:                         # the name under which the input was given
            if why is None and not os.path.lexists(c):
                why = f"the input path {pathlib.Path(c).name} no longer exists"
        # the output, where it is a file of its own, must be absent or loadable
        outp = pathlib.Path(out_sp if os.path.isabs(out_sp) else d / out_sp)
        if outp.suffix != ".rtdc":
            outp = outp.with_name(outp.name + ".rtdc")
        out_state = "alias"
        real_out = os.path.realpath(outp)
        if real_out not in canon_now:
            out_state = "a"
            if outp.exists():
                same_inode = any(os.path.exists(c) and os.path.samefile(outp, c)
                                 for c in canon_now)
                try:
                    if not same_inode:
                        summarize(outp)
                    out_state = "u" if same_inode else "c"
                except Exception as e:  # noqa
                    out_state = f"p:not loadable ({type(e).__name__})"
        entry = os.path.join(os.path.realpath(outp.parent), outp.name)
        roles = {c: i for i, c in enumerate(canon_now[:nin])}
        outs_r = []
        if entry not in roles and real_out not in roles:
            roles[entry] = len(roles)
            outs_r = [roles[entry]]
        # the temporary path as a directory entry; when it IS an input (temp-same) the roles are not
        # well-formed and the model expects a refusal before any mutation (`refused_untouched`)
        temp = entry + "~"
        roles.setdefault(temp, len(roles))
        existing = list(range(nin)) + ([roles[entry]] if spelling == "hard-link" else []) + \
            ([roles[temp]] if spelling.startswith("temp-") else [])
        toks = encode_trace(ops, roles)
        lst = lambda xs: ",".join(str(x) for x in xs) if xs else "-"      # noqa: E731
        line = "trace %s %s %s %s %s" % (lst(list(range(nin))), lst(outs_r), lst([roles[temp]]),
                                         lst(existing), lst(toks))
        rec["results"].append({"spelling": spelling, "status": data["status"], "ops": len(ops),
                               "inputs_ok": why is None, "why": why, "line": line,
                               "out": out_state})
    shutil.rmtree(d, ignore_errors=True)
    return rec


def work(args):
    return do_alias_case(args) if args[0] == "alias" else do_case(args)


# --------------------------------------------------------------------------------------
def pool_map(jobs):
    if not jobs:
        return []
    workers = min(len(jobs), max(1, min(12, (os.cpu_count() or 2) - 2)))
    mpctx = multiprocessing.get_context("fork")
    with concurrent.futures.ProcessPoolExecutor(max_workers=workers, mp_context=mpctx) as ex:
        return list(ex.map(work, jobs))


def evaluate_rerun(ctx, spec, r, answers, mirror, rec):
    """second run of a two-run history (failed run, then an undisturbed re-run)"""
    r2 = r.get("rerun")
    if not r2:
        return
    rp = {"spec": spec, "k": r["k"], "kind": r["kind"], "rerun": True}
    ctx.stat("rerun:" + ("ok" if r2["status"] == "ok" else "error"))
    ctx.case((spec["task"], spec["seed"], r["k"], r["kind"], "rerun"),
             nontrivial=bool(r.get("leftover")))
    what = None
    if not r2["inputs_ok"]:
        what = "an input file changed"
    elif any(s.startswith("p") for s in r2["states"]):
        what = "output path holds a partial file: " + \
            [s for s in r2["states"] if s.startswith("p")][0][2:]
    elif r2["status"] == "ok" and any(s != "c" for s in r2["states"]):
        what = f"the re-run succeeded but the outputs are {r2['states']}"
    if what:
        ctx.violation("spec", f"{spec['task']}: after a failed run ({r['kind']} at operation "
                              f"{r['k']}) followed by an undisturbed re-run, {what}", rp)
        return
    ans = (answers or {}).get(r2["line"])
    if ans is not None and (not ans.startswith("conforms") or not ans.endswith("fresh")):
        mirror.append((rec, {"k": r["k"], "kind": r["kind"] + "+rerun", "states": r2["states"]},
                       ["re-run trace: " + " ".join(ans.split()[:2] + ans.split()[-1:])]))


def evaluate_alias(ctx, alias_recs, answers):
    """output paths that alias an input: inputs byte-identical whether or not the task succeeds"""
    for rec in alias_recs:
        for r in rec["results"]:
            rp = {"alias_task": rec["task"], "seed": rec["seed"], "spelling": r["spelling"]}
            ctx.case(("alias", rec["task"], r["spelling"]), nontrivial=True)
            ctx.stat("alias:" + r["spelling"])
            ctx.stat("alias-outcome:" + r["status"].split(":")[1 if r["status"] != "ok" else 0])
            if not r["inputs_ok"]:
                ctx.violation("spec", f"{rec['task']}: output path given as an alias of an input "
                                      f"({r['spelling']}): {r['why']} (task: {r['status'][:80]})",
                              rp)
                continue
            if r["out"].startswith("p"):
                ctx.violation("spec", f"{rec['task']}: output path ({r['spelling']}) holds a "
                                      f"partial file: {r['out'][2:]}", rp)
                continue
            ans = (answers or {}).get(r["line"])
            if ans is not None:
                ctx.stat("alias-model:" + ans.split()[0])
            if ans is not None and not ans.startswith(("conforms", "refused")):
                ctx.violation("mirror", f"{rec['task']}: trace of the run with an aliased output "
                                        f"path ({r['spelling']}) violates the protocol at operation "
                                        f"{ans.split()[1]} although the inputs are unchanged",
                              dict(rp, correspondence="Drive/C10.lean Conforms vs traced task",
                                   trace=r["line"][:2000]))


def evaluate_templates(ctx, items, answers):
    """is every recorded trace of a successful run an instance of its task's template
    (`copy/compress/join/split/tdms_template_conforms` cover every instance)?  A trace that leaves
    its template is judged by `Conforms` like every other trace: drift is a NOTE, never a verdict."""
    drift = {}
    for (task, line), ans in zip(items, answers):
        w = ans.split()
        if not w or w[0] == "bad-op" or len(w) < 4:
            ctx.stat("template:not-evaluated")
            continue
        fields = dict(x.split(":") for x in w[1:])
        if w[0] == "instance":
            ctx.stat("template:instance:" + task)
            if fields.get("hyp") == "1" and fields.get("tconf") != "1":
                raise common.LeanUnavailable("driver C10 contradicts the template theorems: "
                                             + line[:200])
        else:
            ctx.stat("template:drift:" + task)
            drift.setdefault(task, []).append((line.split()[1], w[0].split(":")[1],
                                               line.split()[6]))
    for task, lst in sorted(drift.items()):       # one NOTE per task
        ctx.note(f"template drift: {len(lst)} recorded trace(s) of {task} leave the template "
                 f"{lst[0][0]}Trace (first: at operation {lst[0][1]}, parameters {lst[0][2]}); "
                 f"the traces themselves are judged by Conforms")


def evaluate(ctx, rec, pred, verdict, rerun_answers=None):
    """record violations of one case; returns list of mirror disagreements"""
    spec = rec["spec"]
    mirror = []
    for r in rec["results"]:
        rp = {"spec": spec, "k": r["k"], "kind": r["kind"]}
        nt = r.get("writes_before", 0) > 0
        ctx.case((spec["task"], spec["seed"], r["k"], r["kind"]), nontrivial=nt,
                 sample={"task": spec["task"], "k": r["k"], "kind": r["kind"],
                         "n_ops": rec.get("n_ops"), "states": r["states"],
                         "status": r["status"][:60]} if nt and r["kind"] == "raise" else None)
        ctx.stat(f"{spec['task']}:{r['kind']}")
        for st in r["states"]:
            ctx.stat("state:" + st[0])
        if not r["inputs_ok"]:
            ctx.violation("spec", f"{spec['task']}: an input file changed (fault {r['kind']} at "
                                  f"operation {r['k']})", rp)
            continue
        bad = [s for s in r["states"] if s.startswith("p")]
        if bad:
            ctx.violation("spec", f"{spec['task']}: output path holds a partial file after "
                                  f"{r['kind']} at operation {r['k']}: {bad[0][2:]}", rp)
            continue
        if not r["prefix_ok"]:
            ctx.stat("nondeterministic-prefix")
            continue
        if pred is not None and r["k"] >= 0:
            want = [p[r["k"]] if r["k"] < len(p) else "?" for p in pred]
            if want != [s[0] for s in r["states"]]:
                mirror.append((rec, r, want))
        evaluate_rerun(ctx, spec, r, rerun_answers, mirror, rec)
    if verdict is not None and not verdict.startswith("conforms"):
        mirror.append((rec, {"k": int(verdict.split()[1]), "kind": "trace", "states": []},
                       ["protocol violated"]))
    return mirror


def run(ctx):
    cases = []
    per_task = ctx.n(3, 8) if ctx.lean_ok else ctx.n(1, 2)
    for task in TASKS:
        for j in range(per_task):
            # case 0: rich input; case 1: the task applied to its own earlier output
            cases.append(gen_case(ctx.rng, task, rich=(j == 0), own_output=(j == 1)))
    cases.insert(0, tdms_case())          # slowest case first
    mode = "all" if (ctx.thorough or not ctx.lean_ok) else "sample"
    jobs = [(spec, str(ctx.workdir / f"case{i}"), mode, None) for i, spec in enumerate(cases)]
    alias_jobs = [("alias", task, ctx.rng.randrange(2 ** 30), str(ctx.workdir / f"alias_{task}"))
                  for task in ALIAS_TASKS]
    results = pool_map(jobs + alias_jobs)
    recs, alias_recs = results[:len(jobs)], results[len(jobs):]
    for rec in recs:
        if rec["problem"]:
            raise RuntimeError(f"C10 harness: {rec['spec']['task']}: {rec['problem']}")
    preds, verdicts = [None] * len(recs), [None] * len(recs)
    rerun_answers = None
    if ctx.lean_ok:
        relines = sorted({r["rerun"]["line"] for rec in recs for r in rec["results"]
                          if r.get("rerun") and r["rerun"]["line"]})
        alines = sorted({r["line"] for rec in alias_recs for r in rec["results"] if r["line"]})
        tlines = {}      # template requests: baseline traces and successful re-runs (distinct ops)
        for rec in recs:
            cands = [rec.get("tmpl")] + [(r.get("rerun") or {}).get("tmpl") for r in rec["results"]]
            for t in cands:
                if t:
                    w = t.split()
                    tlines.setdefault((rec["spec"]["task"],) + tuple(w[:5] + w[6:]), t)
        tkeys = sorted(tlines)
        n_main = len(recs) + len(relines) + len(alines)
        out = ctx.lean("C10", [r["line"] for r in recs] + relines + alines +
                       [tlines[k] for k in tkeys])
        evaluate_templates(ctx, [(k[0], tlines[k]) for k in tkeys], out[n_main:])
        out = out[:n_main]
        alias_answers = dict(zip(alines, out[len(recs) + len(relines):]))
        out = out[:len(recs) + len(relines)]
        for i, line in enumerate(out):
            w = line.split()
            if w[0] not in ("conforms", "violates"):
                raise common.LeanUnavailable(f"driver C10 answered {line[:80]!r}")
            if i < len(recs):
                verdicts[i] = w[0] + " " + w[1]
                preds[i] = w[2].split("|") if len(w) > 3 else []
        rerun_answers = dict(zip(relines, out[len(recs):]))
        ctx.stat("rerun-traces-checked", len(relines))
    evaluate_alias(ctx, alias_recs, alias_answers if ctx.lean_ok else None)
    redo = []
    for i, rec in enumerate(recs):
        ctx.stat("ops", rec["n_ops"])
        for kd, c in rec["kinds"].items():
            ctx.stat("op:" + kd, c)
        ctx.stat("conforming-traces", 1 if (verdicts[i] or "").startswith("conforms") else 0)
        n_spec = sum(1 for v in ctx.violations if v["kind"] == "spec")
        for lab, c in rec.get("labels", {}).items():
            ctx.stat("written:" + (lab or "-"), c)
        mirror = evaluate(ctx, rec, preds[i], verdicts[i], rerun_answers)
        found = sum(1 for v in ctx.violations if v["kind"] == "spec") > n_spec
        if mirror and not found:
            redo.append((i, rec, mirror))
    # correspondence broke without an observed property failure: enumerate every k
    if redo and mode != "all":
        jobs = [(rec["spec"], str(ctx.workdir / f"redo{i}"), "all", None) for i, rec, _ in redo]
        for (i, rec, mirror), rec2 in zip(redo, pool_map(jobs)):
            n_spec = sum(1 for v in ctx.violations if v["kind"] == "spec")
            if not rec2["problem"]:
                evaluate(ctx, rec2, None, None)
            if sum(1 for v in ctx.violations if v["kind"] == "spec") == n_spec:
                _rec, r, want = mirror[0]
                ctx.violation("mirror", f"{rec['spec']['task']}: trace/model disagreement "
                                        f"({len(mirror)}); first at k={r['k']} ({r['kind']}): "
                                        f"model {want}, observed {r['states']}",
                              {"correspondence": "Drive/C10.lean (Conforms / predicted states) vs "
                                                 "traced dclab.cli task", "spec": rec["spec"],
                               "k": r["k"], "kind": r["kind"], "trace": rec["line"][:4000]})
    elif redo:
        for i, rec, mirror in redo:
            _rec, r, want = mirror[0]
            ctx.violation("mirror", f"{rec['spec']['task']}: trace/model disagreement; first at "
                                    f"k={r['k']} ({r['kind']}): model {want}, observed "
                                    f"{r['states']}",
                          {"correspondence": "Drive/C10.lean vs traced dclab.cli task",
                           "spec": rec["spec"], "k": r["k"], "kind": r["kind"],
                           "trace": rec["line"][:4000]})


def replay(ctx, data):
    rp = data["replay"]
    if "alias_task" in rp:
        rec = do_alias_case(("alias", rp["alias_task"], rp["seed"], str(ctx.workdir / "alias")))
        fails = False
        for r in rec["results"]:
            if r["spelling"] == rp["spelling"]:
                print(f"task={rec['task']} spelling={r['spelling']} status={r['status']} "
                      f"inputs_ok={r['inputs_ok']} why={r['why']} out={r['out']}")
                fails = fails or not r["inputs_ok"] or r["out"].startswith("p")
        return fails
    if "spec" not in rp:
        print("no concrete input in this replay file:", json.dumps(rp)[:400])
        return True
    only = (rp["k"], rp["kind"]) if rp.get("kind") in ("raise", "kill") else None
    rec = do_case((rp["spec"], str(ctx.workdir / "replay"), "all" if only is None else "sample",
                   only))
    if rec["problem"]:
        print("problem:", rec["problem"])
        return True
    fails = False
    for r in rec["results"]:
        bad = (not r["inputs_ok"]) or any(s.startswith("p") for s in r["states"])
        r2 = r.get("rerun")
        if r2:
            bad = bad or (not r2["inputs_ok"]) or any(s.startswith("p") for s in r2["states"]) \
                or (r2["status"] == "ok" and any(s != "c" for s in r2["states"]))
            print(f"  re-run: status={r2['status'][:60]} states={r2['states']}")
        if bad or only is not None:
            print(f"task={rp['spec']['task']} k={r['k']} kind={r['kind']} status={r['status']} "
                  f"states={r['states']} inputs_ok={r['inputs_ok']} leftover={r['leftover']}")
        fails = fails or bad
    return fails
