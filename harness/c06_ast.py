"""Static read-set extraction for property C06.

`extract(method)` walks the source of an ancillary feature's compute method (and of the
module-level helper functions it passes the dataset to) with `ast` and returns which features
(`mm["x"]`, `"x" in mm`) and configuration keys (`mm.config[sec][key]`, `cfg = mm.config[sec]`
followed by `cfg[key]`, `cfg.get(key)`, `key in cfg`) it can access.  The walk is
path-insensitive, except that loops over literal lists and comparisons / `str.format` of
constants are evaluated (`compute_ctc` builds its key names that way).  Whenever something is
not understood — a non-constant subscript, the dataset escaping into an unknown callable, an
attribute of the dataset other than `.config`, unavailable source — the result is marked
incomplete and the model keeps its hand-written read set for that method (which the harness
validates dynamically).  Never raises.
"""
import ast
import inspect
import textwrap
import types

DS, CFG = ("ds",), ("cfg",)
#: callables that may receive the dataset without reading features or configuration
HARMLESS = {"len", "str", "repr", "isinstance", "id", "type", "print"}


class _Continue(Exception):
    pass


class Extractor:
    def __init__(self):
        self.feats, self.keys = set(), set()
        self.complete = True
        self.why = []
        self.active = []

    def bad(self, why):
        self.complete = False
        if why not in self.why:
            self.why.append(why)

    # -- expressions -------------------------------------------------------------------
    def ev(self, node, env, glob):
        """abstract value of an expression: DS, CFG, ('sec', name), ('const', v) or None"""
        if node is None:
            return None
        m = getattr(self, "ev_" + type(node).__name__, None)
        if m is not None:
            return m(node, env, glob)
        for ch in ast.iter_child_nodes(node):
            if isinstance(ch, ast.expr):
                v = self.ev(ch, env, glob)
                if v == DS:
                    self.bad("dataset used in " + type(node).__name__)
            elif isinstance(ch, ast.comprehension):
                self.ev(ch.iter, env, glob)
                for c in ch.ifs:
                    self.ev(c, env, glob)
                self.bad("comprehension")
        return None

    def _consts_of(self, node, env, glob):
        """the constants an iterable expression denotes (literal list/tuple, or a module-level
        list/tuple of constants), else None"""
        if isinstance(node, (ast.List, ast.Tuple)):
            vs = [self.ev(e, env, glob) for e in node.elts]
            if all(v is not None and v[0] == "const" for v in vs):
                return vs
            return None
        if isinstance(node, ast.Name) and node.id not in env:
            obj = glob.get(node.id)
            if isinstance(obj, (list, tuple)) and all(
                    isinstance(x, (str, int, float, bool)) for x in obj):
                return [("const", x) for x in obj]
        return None

    def _comp(self, node, env, glob):
        gens = node.generators
        consts = self._consts_of(gens[0].iter, env, glob) if len(gens) == 1 else None
        if consts is None or not isinstance(gens[0].target, ast.Name) or gens[0].is_async:
            for g in gens:
                if self.ev(g.iter, env, glob) == DS:
                    self.bad("iteration over the dataset")
            self.bad("comprehension")
            return None
        env2 = dict(env)
        for c in consts:
            env2[gens[0].target.id] = c
            for cond in gens[0].ifs:
                self.ev(cond, env2, glob)
            for part in ([node.key, node.value] if isinstance(node, ast.DictComp)
                         else [node.elt]):
                if self.ev(part, env2, glob) == DS:
                    self.bad("dataset collected")
        return None

    ev_ListComp = ev_SetComp = ev_GeneratorExp = ev_DictComp = _comp

    def ev_Name(self, node, env, glob):
        return env.get(node.id)

    def ev_Constant(self, node, env, glob):
        return ("const", node.value)

    def ev_JoinedStr(self, node, env, glob):
        parts = []
        for v in node.values:
            x = self.ev(v.value if isinstance(v, ast.FormattedValue) else v, env, glob)
            if not (x and x[0] == "const"):
                return None
            parts.append(str(x[1]))
        return ("const", "".join(parts))

    def ev_Attribute(self, node, env, glob):
        v = self.ev(node.value, env, glob)
        if v == DS:
            if node.attr == "config":
                return CFG
            self.bad(f"dataset attribute .{node.attr}")
        return None

    def access(self, cont, key, what):
        """`cont[key]`, `cont.get(key)`, `key in cont`"""
        const = key is not None and key[0] == "const" and isinstance(key[1], str)
        if cont == DS:
            if const:
                self.feats.add(key[1])
            else:
                self.bad(f"dynamic feature name ({what})")
            return None
        if cont == CFG:
            if const:
                return ("sec", key[1]) if what != "in" else None
            self.bad(f"dynamic section name ({what})")
            return None
        if cont is not None and cont[0] == "sec":
            if const:
                self.keys.add(f"{cont[1]}:{key[1].lower()}")
            else:
                self.bad(f"dynamic configuration key ({what})")
        return None

    def ev_Subscript(self, node, env, glob):
        return self.access(self.ev(node.value, env, glob), self.ev(node.slice, env, glob), "[]")

    def ev_Compare(self, node, env, glob):
        left = self.ev(node.left, env, glob)
        vals = [self.ev(c, env, glob) for c in node.comparators]
        if len(node.ops) == 1:
            op, right = node.ops[0], vals[0]
            if isinstance(op, (ast.In, ast.NotIn)):
                if right in (DS, CFG) or (right is not None and right[0] == "sec"):
                    self.access(right, left, "in")
                    return None
            if (isinstance(op, (ast.Eq, ast.NotEq)) and left and right
                    and left[0] == "const" and right[0] == "const"):
                eq = left[1] == right[1]
                return ("const", eq if isinstance(op, ast.Eq) else not eq)
        if left == DS or DS in vals:
            self.bad("dataset compared")
        return None

    def ev_Call(self, node, env, glob):
        f = node.func
        args = [self.ev(a, env, glob) for a in node.args]
        kws = {k.arg: self.ev(k.value, env, glob) for k in node.keywords}
        passed = list(args) + list(kws.values())
        if isinstance(f, ast.Attribute):
            recv = self.ev(f.value, env, glob)
            if f.attr == "get" and (recv == CFG or (recv is not None and recv[0] == "sec")):
                return self.access(recv, args[0] if args else None, "get")
            if f.attr == "format" and recv is not None and recv[0] == "const":
                if all(a is not None and a[0] == "const" for a in passed) and not kws:
                    try:
                        return ("const", recv[1].format(*[a[1] for a in args]))
                    except Exception:  # noqa
                        return None
                return None             # the dataset may be formatted into a message
            if recv == DS:
                self.bad(f"dataset method .{f.attr}()")
            if any(a in (DS, CFG) or (a is not None and a[0] == "sec") for a in passed):
                self.bad(f"dataset passed to .{f.attr}()")
            return None
        if isinstance(f, ast.Name):
            if not any(a in (DS, CFG) or (a is not None and a[0] == "sec") for a in passed):
                return None
            if f.id in HARMLESS and f.id not in env:
                return None
            target = glob.get(f.id)
            if isinstance(target, types.FunctionType):
                self.call(target, args, kws)
                return None
            self.bad(f"dataset passed to {f.id}()")
            return None
        self.ev(f, env, glob)
        if any(a == DS for a in passed):
            self.bad("dataset passed to an unknown callable")
        return None

    # -- statements --------------------------------------------------------------------
    def ex(self, stmts, env, glob):
        for st in stmts:
            self.ex1(st, env, glob)

    def bind(self, target, val, env):
        if isinstance(target, ast.Name):
            if val is None:
                env.pop(target.id, None)
            else:
                env[target.id] = val
        else:
            for n in ast.walk(target):
                if isinstance(n, ast.Name):
                    env.pop(n.id, None)

    def ex1(self, st, env, glob):
        if isinstance(st, ast.Assign):
            val = self.ev(st.value, env, glob)
            for t in st.targets:
                if not isinstance(t, ast.Name):
                    self.ev(t, env, glob)
                self.bind(t, val, env)
        elif isinstance(st, ast.For):
            it = st.iter
            consts = self._consts_of(it, env, glob)
            if consts is None:
                v = self.ev(it, env, glob)
                if v == DS:
                    self.bad("iteration over the dataset")
                consts = [None]
            for c in consts:
                self.bind(st.target, c, env)
                try:
                    self.ex(st.body, env, glob)
                except _Continue:
                    pass
            self.ex(st.orelse, env, glob)
        elif isinstance(st, ast.If):
            t = self.ev(st.test, env, glob)
            if t is not None and t[0] == "const" and isinstance(t[1], bool):
                self.ex(st.body if t[1] else st.orelse, env, glob)   # may raise _Continue
            else:
                for body in (st.body, st.orelse):
                    try:
                        self.ex(body, env, glob)
                    except _Continue:
                        pass            # path-insensitive: keep walking what follows
        elif isinstance(st, (ast.Continue, ast.Break)):
            raise _Continue()
        elif isinstance(st, (ast.FunctionDef, ast.AsyncFunctionDef, ast.ClassDef, ast.Lambda)):
            self.bad("nested definition")
        else:
            for ch in ast.iter_child_nodes(st):
                if isinstance(ch, ast.expr):
                    self.ev(ch, env, glob)
                elif isinstance(ch, ast.stmt):
                    try:
                        self.ex1(ch, env, glob)
                    except _Continue:
                        pass
                elif isinstance(ch, (ast.excepthandler, ast.withitem, ast.match_case)):
                    for c2 in ast.iter_child_nodes(ch):
                        if isinstance(c2, ast.expr):
                            self.ev(c2, env, glob)
                        elif isinstance(c2, ast.stmt):
                            try:
                                self.ex1(c2, env, glob)
                            except _Continue:
                                pass

    # -- functions ---------------------------------------------------------------------
    def call(self, func, args, kws):
        if func in self.active:
            return
        if len(self.active) > 6:
            self.bad("call depth")
            return
        try:
            src = textwrap.dedent(inspect.getsource(func))
            node = ast.parse(src).body[0]
        except Exception:  # noqa
            self.bad(f"no source for {getattr(func, '__name__', '?')}")
            return
        if not isinstance(node, ast.FunctionDef):
            self.bad("not a plain function")
            return
        a = node.args
        if a.vararg or a.kwarg:
            self.bad("*args/**kwargs")
        names = [x.arg for x in a.posonlyargs + a.args]
        env = {}
        defaults = dict(zip(reversed(names), reversed(a.defaults)))
        for nme, d in defaults.items():
            v = self.ev(d, {}, func.__globals__)
            if v is not None:
                env[nme] = v
        for nme, v in zip(names, args):
            if v is None:
                env.pop(nme, None)
            else:
                env[nme] = v
        for nme, v in kws.items():
            if nme is None:
                self.bad("**kwargs call")
            elif v is None:
                env.pop(nme, None)
            else:
                env[nme] = v
        self.active.append(func)
        try:
            try:
                self.ex(node.body, env, func.__globals__)
            except _Continue:
                pass
        finally:
            self.active.pop()


def extract(method):
    """(sorted features, sorted 'section:key' names, complete?, reasons for incompleteness)"""
    x = Extractor()
    try:
        if not isinstance(method, types.FunctionType):
            x.bad("not a plain function")
        else:
            x.call(method, [DS], {})
    except Exception as e:  # noqa  (never let the extractor decide anything by crashing)
        x.bad(f"extractor error {type(e).__name__}")
    return sorted(x.feats), sorted(x.keys), x.complete, x.why
