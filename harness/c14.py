"""C14 — basins are only followed when matching, acyclic and permitted.

Worlds of 2-6 .rtdc files (token generator; file i carries tokens 20*i+j, so read-back data
identifies the source file and the maps applied) in four directories (two with a sub directory,
plus a directory symlink), connected by basin definitions forming arbitrary directed graphs (self
references, k-cycles, diamonds); run identifiers equal / prefix-extended / unrelated / empty /
missing, written with raw h5py in every HDF5 string flavour; locations absolute / sibling name /
dangling / URL / spelled relative or absolute paths (`./`, `sub/../`, `../dir/`, symlinked
directory or file); definitions of type file / remote / internal / unknown with every format
string (matching or not).  Every world is a history within one process: up to four roots opened
locally in random order and one through `RTDC_HTTP` (in-process fake session serving the same
bytes, fake socket for the availability probe); each observation is compared with the
history-free model.  Observed:
`features_basin`, `feat in ds`, the data tokens of every feature, the files / URLs handed to
`h5py.File` (wrapped from outside), the fake session's request log, wall clock.

Decision: (1) property oracles evaluated directly in Python — a remote root never opens a local
path; served data is the data of some *permitted* path of definitions (identifier match on every
hop, type = class type, local paths only from local datasets), composed maps applied; nothing
raises; bounded time — and (2) exact comparison of features / data with the Lean model
`Basin.resolve` (priority order, ignored keys, path resolution), opened datasets ⊆ model.
"""
import copy
import itertools
import json
import os
import pathlib
import shutil
import socket
import threading
import time
import types

import numpy as np

from . import common, gen

ID = "C14"
LEAN_MODULES = ["DclabModel.Properties.C14"]
RULE = ("quick: 6 targeted worlds (remote/internal definition with local path, basin without "
        "identifier unmapped/mapped, mapped-then-unmapped histories) + seeded random worlds over 2-6 "
        "files, 0-3 definitions per file drawn from type x format x location (incl. spelled paths "
        "and symlinks) x feature-list x mapping, identifiers from {equal, prefix, unrelated, empty, "
        "missing} x 6 HDF5 string flavours; each world opened as a history of up to 4 local roots "
        "and one RTDC_HTTP root in one process. "
        "thorough: additionally every directed graph (incl. self loops) over <= 3 files with "
        "file-type definitions. A case is non-trivial when at least one definition is followed; "
        "distinct = distinct canonical (world, root) pairs.")
TRUSTED_BASE = [
    "modelled, not verified: h5py/HDF5, json, pathlib.exists, the in-process fake requests session "
    "and fake socket (availability probe of HTTPBasin); S3 / DCOR endpoints are unreachable in the "
    "sandbox and modelled as unavailable (their basin classes are remote-type: theorem "
    "remote_never_local covers them by construction)",
    "basin keys are md5 hashes of the definition text (hashobj), assumed collision free"]
ASSUMPTIONS = [
    "mapped definitions come with their basinmap feature stored in the referrer and maps valid for "
    "the basin; internal definitions come with mapping and feature list (the real code raises "
    "ValueError otherwise — malformed file, not generated)",
    "relative locations are single file names; no file of that name exists in the working directory",
    "a remote basin whose identifier does not match is *offered* in features_basin (the check only "
    "runs in get_feature_data) but never *served*: 'used' in used_only_if_matching means data "
    "handed out"]
NOT_PROVED = [
    "real sockets, S3/DCOR authentication, timing of the availability-check threads",
    "exact laziness of opening basin datasets: observed opened datasets are compared by inclusion "
    "in the model's set (exact for features and data)"]

FEATS = ["pos_x", "pos_y", "size_x", "size_y"]
KEEP = "frame"
FID = {f: i for i, f in enumerate(FEATS + [KEEP])}
N_EV = 4
UNIV = range(0, 400)
HOST = "http://verif.invalid"
TYPES = ["file", "remote", "internal", "peter"]
FORMATS = ["h5dataset", "hdf5", "http", "s3", "dcor", "xyz"]


def L(xs):
    xs = list(xs)
    return ",".join(str(int(x)) for x in xs) if xs else "-"


def eff_rid(rid):
    """the measurement identifier dclab derives: the stored run identifier; an empty one is
    ignored by the configuration parser and replaced by the md5-uuid of time_date_setup-id
    (the same for all generated files); None = no identifier derivable"""
    if rid == "":
        import hashlib
        import uuid
        m = gen.BASE_META
        text = f"{m['experiment']['time']}_{m['experiment']['date']}_{m['setup']['identifier']}"
        return str(uuid.UUID(hex=hashlib.md5(text.encode("utf-8")).hexdigest()))
    return rid


def rid_codes(rid):
    rid = eff_rid(rid)
    return "x" if rid is None else L(rid.encode())


# --------------------------------------------------------------------------------- environment
class _FakeSock:
    def __init__(self, *a, **k):
        pass

    def __enter__(self):
        return self

    def __exit__(self, *a):
        return False

    def settimeout(self, t):
        pass

    def connect(self, addr):
        if addr[0] != "verif.invalid":
            raise OSError("no network in the sandbox")

    def close(self):
        pass


class TooManyOpens(BaseException):
    """raised by the h5py wrapper once an observation opened more datasets than any finite
    resolution of the generated worlds needs (hard guard against unbounded recursion)"""


OPEN_LIMIT = 400


class Env:
    """fake session + fake socket + h5py.File wrapper"""

    def __init__(self):
        dclab = common.import_dclab()
        import h5py
        from dclab import http_utils
        self.h5py = h5py
        self.http_utils = http_utils
        self.ses = common.install_fake_session()
        self._old_socket = http_utils.socket
        http_utils.socket = types.SimpleNamespace(
            socket=_FakeSock, AF_INET=socket.AF_INET, SOCK_STREAM=socket.SOCK_STREAM,
            gaierror=socket.gaierror)
        self.opened = []
        self.count = 0
        self._orig_init = h5py.File.__init__
        env = self

        def wrapped(self_, name, *a, **k):
            if isinstance(name, (str, bytes, pathlib.Path)):
                env.opened.append(("local", str(name)))
                env.count += 1
            elif hasattr(name, "url"):
                env.opened.append(("url", str(name.url)))
                env.count += 1
            if env.count > OPEN_LIMIT:
                raise TooManyOpens(f"more than {OPEN_LIMIT} datasets opened")
            return env._orig_init(self_, name, *a, **k)

        h5py.File.__init__ = wrapped

    def close(self):
        self.h5py.File.__init__ = self._orig_init
        self.http_utils.socket = self._old_socket


# --------------------------------------------------------------------------------- worlds
#: directory ids of a world (relative to its root); `ld0` is a symlink to `d0`
DIRS = {0: "d0", 1: "d1", 2: "d0/sub", 3: "d1/sub"}
FLAVOURS = ["vlen", "vlen", "bytes", "fixutf8", "vlenascii", "pybytes"]


class WFile:
    def __init__(self, idx, d, rid, innate, flavour="vlen"):
        self.idx, self.dir, self.rid = idx, d, rid
        self.flavour = flavour                # HDF5 string flavour of the run identifier
        self.innate = innate                  # list of feature names
        self.maps = {}                        # K -> list
        self.internal = {}                    # feat -> tokens
        self.defs = []                        # dicts (see make_def)
        self.path = None
        self.shift = 0                        # changed when the file is replaced by other content

    def tokens(self):
        return [20 * self.idx + self.shift + j for j in range(N_EV)]


def describe_world(files):
    return tuple((f.idx, f.dir, f.rid, f.flavour, f.shift, tuple(f.innate), tuple(sorted(f.maps.items())) and
                  tuple((k, tuple(v)) for k, v in sorted(f.maps.items())),
                  tuple((d["type"], d["format"], tuple(d["locs"]), tuple(d["feats"] or ("*",)),
                         d["map"]) for d in f.defs)) for f in files)


def rand_rid(rng, scheme):
    r = rng.random()
    if scheme == "equal":
        return "R"
    if r < 0.45:
        return "R"
    if r < 0.65:
        return "R-" + rng.choice("ab")
    if r < 0.8:
        return "R-" + rng.choice("ab") + "-c"
    if r < 0.88:
        return "Q" + rng.choice("xy")
    if r < 0.92:
        return ""
    return None


def rand_locs(rng, files, j, style):
    """symbolic locations: ('abs', j) | ('rel', j) | ('dangling',) | ('url', j) | ('deadurl',)"""
    sp = lambda st: ("sp", j, st, rng.randrange(1 << 16))  # noqa: E731
    if style == "path":
        pool = [("abs", j), ("rel", j), ("dangling",), sp("rel"), sp("rel"), sp("abs")]
    elif style == "url":
        pool = [("url", j), ("url", j), ("deadurl",)]
    else:
        pool = [("abs", j), ("rel", j), ("url", j), ("dangling",), ("deadurl",), sp("rel"),
                sp("abs")]
    k = rng.choice([1, 1, 1, 2])
    return [rng.choice(pool) for _ in range(k)]


def rand_def(rng, files, i):
    fi = files[i]
    j = rng.randrange(len(files))
    r = rng.random()
    if r < 0.5:
        ty, fmt, style = "file", "hdf5", "path"
    elif r < 0.72:
        ty, fmt, style = "remote", "http", "url"
    elif r < 0.8:
        ty, fmt, style = "internal", "h5dataset", "internal"
    else:
        # any combination, matching or not (incl. the F14 shape remote+hdf5+local path)
        ty = rng.choice(TYPES)
        fmt = rng.choice(FORMATS)
        style = rng.choice(["path", "url", "mixed"])
        if ty == "internal" and fmt == "h5dataset":
            style = "internal"
    feats = None if rng.random() < 0.5 else sorted(rng.sample(FEATS, rng.randint(1, 3)))
    mapping = None
    if style == "internal" or rng.random() < 0.35:
        k = rng.randrange(3)
        if k not in fi.maps:
            fi.maps[k] = [rng.randrange(N_EV) for _ in range(N_EV)]
        mapping = k
    if style == "internal":
        locs = [("group",)]
        f = rng.choice(FEATS)
        if f not in fi.internal:
            fi.internal[f] = [300 + 10 * i + jj for jj in range(N_EV)]
        feats = sorted(set([f] + (feats or [])[:1]))
    else:
        locs = rand_locs(rng, files, j, style)
    if (ty == "internal" or fmt == "h5dataset") and not (mapping is not None and feats):
        # the real constructor raises ValueError for such (malformed) internal definitions
        if mapping is None:
            k = 0
            fi.maps.setdefault(0, [rng.randrange(N_EV) for _ in range(N_EV)])
            mapping = k
        feats = feats or [rng.choice(FEATS)]
    return {"type": ty, "format": fmt, "locs": locs, "feats": feats, "map": mapping,
            "name": rng.choice(["x", f"d{i}-{len(fi.defs)}"])}


def random_world(rng):
    k = rng.choice([2, 3, 3, 4, 4, 5, 6])
    scheme = rng.choice(["equal", "mixed", "mixed"])
    files = []
    for i in range(k):
        innate = sorted(rng.sample(FEATS, rng.randint(0, 3)))
        files.append(WFile(i, rng.choice([0, 0, 0, 0, 1, 1, 2, 2, 3]), rand_rid(rng, scheme), innate,
                           rng.choice(FLAVOURS)))
    for i in range(k):
        for _ in range(rng.choice([0, 1, 1, 2, 2, 3])):
            files[i].defs.append(rand_def(rng, files, i))
    return files


def graph_world(rng, k, edges):
    """plain file-type definitions along the given edge set (thorough, exhaustive graphs)"""
    files = [WFile(i, rng.choice([0, 0, 1, 2]), "R", sorted(rng.sample(FEATS, rng.randint(0, 2))))
             for i in range(k)]
    for (a, b) in edges:
        files[a].defs.append({"type": "file", "format": "hdf5",
                              "locs": [rng.choice([("abs", b), ("sp", b, "rel", rng.randrange(1 << 16)),
                                                   ("sp", b, "abs", rng.randrange(1 << 16))])],
                              "feats": None,
                              "map": None, "name": f"g{a}-{b}"})
    return files


def targeted_worlds():
    out = []
    # remote definition with a local path (F14 shape), secret file without relation
    a = WFile(0, 0, "R", [])
    s = WFile(1, 0, "R", ["pos_x", "pos_y"])
    a.defs.append({"type": "remote", "format": "hdf5", "locs": [("abs", 1)], "feats": None,
                   "map": None, "name": "t14"})
    out.append(("remote-def-local-path", [a, s], 0))
    a = WFile(0, 0, None, [])
    s = WFile(1, 0, None, ["pos_x"])
    a.defs.append({"type": "internal", "format": "hdf5", "locs": [("abs", 1)], "feats": ["pos_x"],
                   "map": 0, "name": "t14b"})
    a.maps[0] = [0, 1, 2, 3]
    out.append(("internal-def-local-path", [a, s], 0))
    # basin without identifier, unmapped and mapped (F22 shapes)
    a = WFile(0, 0, "R", [])
    s = WFile(1, 0, None, ["pos_x"])
    a.defs.append({"type": "file", "format": "hdf5", "locs": [("abs", 1)], "feats": None,
                   "map": None, "name": "t22a"})
    out.append(("basin-without-identifier", [a, s], 0))
    a = WFile(0, 0, "R", [])
    s = WFile(1, 0, None, ["pos_x"])
    a.defs.append({"type": "file", "format": "hdf5", "locs": [("rel", 1)], "feats": None,
                   "map": 1, "name": "t22b"})
    a.maps[1] = [3, 3, 0, 1]
    out.append(("mapped-basin-without-identifier", [a, s], 0))
    # histories: a mapped (prefix) and an unmapped definition to the same file from referrers
    # with the same identifier, opened in both orders
    for order in ((0, 1), (1, 0)):
        x = WFile(2, 0, "R", ["pos_x", "pos_y"])
        a = WFile(0, 0, "R-a", [])
        b = WFile(1, 0, "R-a", [])
        a.defs.append({"type": "file", "format": "hdf5", "locs": [("abs", 2)], "feats": None,
                       "map": 0, "name": "h-mapped"})
        a.maps[0] = [1, 3, 3, 0]
        b.defs.append({"type": "file", "format": "hdf5", "locs": [("abs", 2)], "feats": None,
                       "map": None, "name": "h-same"})
        out.append((f"history-{order[0]}{order[1]}", [a, b, x],
                    [(order[0], False), (order[1], False), (order[0], False)]))
    return out


class World:
    def __init__(self, ctx, env, tag, files):
        self.ctx, self.env, self.tag, self.files = ctx, env, tag, files
        self.root = ctx.workdir / f"w{tag}"
        self.keys = {}          # key string -> int

    def path_of(self, f):
        return self.root / DIRS[f.dir] / f"f{f.idx}.rtdc"

    def url_of(self, f):
        return f"{HOST}/w{self.tag}/{DIRS[f.dir]}/f{f.idx}.rtdc"

    def spell(self, ref, j, style, seed):
        """a path to file j, relative to the directory of `ref` or absolute, decorated with
        no-op components (`./`, `sub/../`, `../<dir>/`), a symlinked directory (`ld0`) or a
        symlinked file name (`l<j>.rtdc`, created next to its target)"""
        tgt = self.files[j]
        name = f"f{j}.rtdc"
        if seed & 1:
            name = f"l{j}.rtdc"
            link = self.root / DIRS[tgt.dir] / name
            if not link.is_symlink():
                link.symlink_to(f"f{j}.rtdc")

        def noop(d, bits):
            """no-op components valid inside directory id d"""
            out = []
            if bits & 1:
                out.append(".")
            if bits & 2:
                out += ["sub", ".."] if d in (0, 1) else ["..", "sub"]
            if bits & 4:
                out += ["..", DIRS[d].split("/")[-1]]
            return out

        if style == "rel":
            rel = os.path.relpath(self.root / DIRS[tgt.dir], self.root / DIRS[ref.dir])
            comps = noop(ref.dir, seed >> 1 & 7) + ([] if rel == "." else rel.split("/"))
            comps += noop(tgt.dir, seed >> 4 & 7) + [name]
            return "/".join(comps)
        base = DIRS[tgt.dir]
        if seed & 2 and base.startswith("d0"):
            base = "l" + base                      # through the directory symlink
        comps = base.split("/") + noop(tgt.dir, seed >> 4 & 7) + [name]
        return str(self.root) + "/" + "/".join(comps)

    def loc_string(self, loc, ref):
        kind = loc[0]
        if kind == "abs":
            return str(self.path_of(self.files[loc[1]]))
        if kind == "rel":
            return f"f{loc[1]}.rtdc"
        if kind == "sp":
            return self.spell(ref, loc[1], loc[2], loc[3])
        if kind == "dangling":
            return str(self.root / "nowhere" / "gone.rtdc")
        if kind == "url":
            return self.url_of(self.files[loc[1]])
        if kind == "deadurl":
            return f"{HOST}/w{self.tag}/gone.rtdc"
        return "basin_events"

    def loc_model(self, loc):
        kind = loc[0]
        if kind in ("abs", "sp"):
            # spelled paths are no-op decorations: they resolve (physically) to file j from the
            # referrer's directory; the harness checks that with os.path.realpath when writing
            f = self.files[loc[1]]
            return f"a{f.dir}.{f.idx}"
        if kind == "rel":
            return f"r{loc[1]}"
        if kind == "dangling":
            return "a9.99"
        if kind == "url":
            return f"u{loc[1]}"
        if kind == "deadurl":
            return "u99"
        return "r98"

    def write(self):
        dclab = common.import_dclab()
        from dclab.util import hashobj
        import h5py
        for d in DIRS.values():
            (self.root / d).mkdir(parents=True, exist_ok=True)
        if not (self.root / "ld0").exists():
            (self.root / "ld0").symlink_to("d0", target_is_directory=True)
        for f in self.files:
            f.path = self.path_of(f)
            if f.path.exists():
                os.unlink(f.path)        # replaced, not truncated (handles may still be open)
            gen.make_rtdc(f.path, f.tokens(), feats=[KEEP] + f.innate, rid=f.rid)
            with dclab.RTDCWriter(f.path, mode="append") as hw:
                for k, m in sorted(f.maps.items()):
                    hw.store_feature(f"basinmap{k}", np.array(m, dtype=np.uint64))
                if f.internal:
                    grp = hw.h5file.require_group("basin_events")
                    for feat, toks in f.internal.items():
                        hw.write_ndarray(group=grp, name=feat, data=gen.rows(feat, toks))
                for d in f.defs:
                    bd = {"description": None, "format": d["format"], "name": d["name"],
                          "type": d["type"],
                          "features": d["feats"],
                          "mapping": "same" if d["map"] is None else f"basinmap{d['map']}"}
                    ls = [self.loc_string(x, f) for x in d["locs"]]
                    for x, text in zip(d["locs"], ls):
                        if x[0] == "sp":
                            base = text if os.path.isabs(text) else os.path.join(
                                str(self.root / DIRS[f.dir]), text)
                            assert os.path.realpath(base) == os.path.realpath(
                                self.path_of(self.files[x[1]])), (text, x)
                    if d["type"] == "remote":
                        bd["urls"] = ls
                    else:
                        bd["paths"] = ls
                    lines = json.dumps(bd, indent=2).split("\n")
                    key = hashobj(lines)
                    grp = hw.h5file.require_group("basins")
                    if key not in grp:
                        hw.write_text(grp, key, lines)
                    d["key"] = key
                    self.keys.setdefault(key, len(self.keys) + 1)
            with h5py.File(f.path, "a") as h5:
                # the run identifier in every HDF5 string flavour, written with raw h5py
                if f.rid is None:
                    for a in ("setup:identifier", "experiment:run identifier"):
                        if a in h5.attrs:
                            del h5.attrs[a]
                else:
                    if "experiment:run identifier" in h5.attrs:
                        del h5.attrs["experiment:run identifier"]
                    key = "experiment:run identifier"
                    if f.flavour == "bytes":
                        h5.attrs[key] = np.bytes_(f.rid)      # fixed-length ASCII (np.bytes_)
                    elif f.flavour == "fixutf8" and f.rid:
                        h5.attrs.create(key, f.rid,
                                        dtype=h5py.string_dtype("utf-8", len(f.rid) + 2))
                    elif f.flavour == "vlenascii":
                        h5.attrs.create(key, f.rid, dtype=h5py.string_dtype("ascii"))
                    elif f.flavour == "pybytes":
                        h5.attrs[key] = f.rid.encode()
                    else:
                        h5.attrs[key] = f.rid                 # variable-length UTF-8 str
        for f in self.files:
            self.env.ses.blobs[self.url_of(f)] = f.path.read_bytes()

    def model_lines(self):
        lines = ["reset http"]
        for f in self.files:
            lines.append(f"file {f.dir} {f.idx} {rid_codes(f.rid)}")
            for feat in [KEEP] + f.innate:
                lines.append(f"feat {FID[feat]} {L(f.tokens())}")
            for k, m in sorted(f.maps.items()):
                lines.append(f"map {k} {L(m)}")
            for feat, toks in f.internal.items():
                lines.append(f"int {FID[feat]} {L(toks)}")
            for d in self.stored_order(f):      # HDF5 iterates the group by key name
                ty = d["type"] if d["type"] in ("file", "remote", "internal") else "other"
                fmt = d["format"] if d["format"] in FORMATS[:5] else "other"
                locs = ";".join(self.loc_model(x) for x in d["locs"]) or "-"
                lines.append(f"def {self.keys[d['key']]} {ty} {fmt} {locs} "
                             f"{'*' if d['feats'] is None else L(FID[x] for x in d['feats'])} "
                             f"{'same' if d['map'] is None else d['map']}")
        for f in self.files:
            lines.append(f"url {f.idx} {f.dir} {f.idx}")
        return lines

    def stored_order(self, f):
        """definitions of a file in HDF5 storage order (alphabetical by key)"""
        seen, out = set(), []
        for d in sorted(f.defs, key=lambda d: d["key"]):
            if d["key"] not in seen:
                seen.add(d["key"])
                out.append(d)
        return out

    # ---- python-side oracle: data reachable over permitted paths ----------------------
    def legit(self, root_idx, remote_root, feat):
        """set of token tuples that a permitted path of definitions can deliver for `feat`"""
        cls_type = {"h5dataset": "internal", "hdf5": "file", "http": "remote", "s3": "remote",
                    "dcor": "remote"}
        out = set()

        def id_ok(r, b, mapped):
            if r is None:
                return True
            if b is None:
                return False
            return r.startswith(b) if mapped else r == b

        def walk(i, is_remote, used_keys, depth):
            """yield token lists file i (opened locally / remotely) may show for feat"""
            f = self.files[i]
            res = []
            if feat in f.innate or feat == KEEP:
                res.append(f.tokens())
            if depth > 8:
                return res
            for d in f.defs:
                if d["key"] in used_keys:
                    continue
                ctype = cls_type.get(d["format"])       # the class that is instantiated
                if ctype is None or d["type"] not in ("file", "remote", "internal"):
                    continue
                if ctype == "internal" and d["type"] != "internal":
                    continue
                if d["feats"] is not None and feat not in d["feats"]:
                    continue
                m = None if d["map"] is None else f.maps.get(d["map"])
                subs = []
                if ctype == "internal":
                    if feat in f.internal and m is not None:
                        subs = [f.internal[feat]]
                else:
                    for loc in d["locs"]:
                        tgt, tremote = None, None
                        if ctype == "file" and not is_remote:
                            # local paths may only be followed from datasets on the local disk
                            if loc[0] in ("abs", "sp"):
                                tgt, tremote = loc[1], False
                            elif loc[0] == "rel" and self.files[loc[1]].dir == f.dir:
                                tgt, tremote = loc[1], False
                        elif ctype == "remote" and d["format"] == "http" and loc[0] == "url":
                            tgt, tremote = loc[1], True
                        if tgt is None:
                            continue
                        if not id_ok(eff_rid(f.rid), eff_rid(self.files[tgt].rid),
                                     d["map"] is not None):
                            continue
                        subs += walk(tgt, tremote, used_keys | {d["key"]}, depth + 1)
                for s in subs:
                    if m is None:
                        res.append(list(s))
                    elif all(x < len(s) for x in m):
                        res.append([s[x] for x in m])
            return res

        for r in walk(root_idx, remote_root, frozenset(), 0):
            out.add(tuple(r))
        return out


# --------------------------------------------------------------------------------- observation
def observe(env, world, root_idx, remote):
    """open the root and observe; returns dict"""
    dclab = common.import_dclab()
    from dclab.rtdc_dataset.fmt_http import RTDC_HTTP
    f = world.files[root_idx]
    res = {"feats": None, "in": {}, "data": {}, "errors": [], "opened": [], "time": None}
    box = {}

    def work():
        ds = None
        try:
            env.opened.clear()
            env.count = 0
            n_log = len(env.ses.log)
            if remote:
                ds = RTDC_HTTP(world.url_of(f))
            else:
                ds = dclab.new_dataset(f.path)
            try:
                res["feats"] = sorted(x for x in ds.features_basin if x in FEATS)
            except BaseException as e:  # noqa
                res["feats"] = common.err_class(e)
                res["errors"].append(("features_basin", repr(e)[:160]))
            for feat in FEATS:
                try:
                    res["in"][feat] = feat in ds
                except BaseException as e:  # noqa
                    res["in"][feat] = common.err_class(e)
                    res["errors"].append((f"{feat} in ds", repr(e)[:160]))
                try:
                    res["data"][feat] = gen.tokens_of(feat, ds[feat][:], UNIV)
                except KeyError:
                    res["data"][feat] = None
                except BaseException as e:  # noqa
                    res["data"][feat] = common.err_class(e)
                    res["errors"].append((f"ds[{feat!r}]", repr(e)[:160]))
            res["opened"] = list(env.opened[1:])
            res["urls"] = sorted(set(u for (u, _r) in env.ses.log[n_log:]))
        except BaseException as e:  # noqa
            res["errors"].append(("open", repr(e)[:160]))
        finally:
            try:
                if ds is not None:
                    ds.close()
            except BaseException:
                pass
            box["done"] = True

    t0 = time.time()
    th = threading.Thread(target=work, daemon=True)
    th.start()
    th.join(30)
    res["time"] = time.time() - t0
    res["hung"] = th.is_alive()
    res["count"] = env.count
    return res


def opened_model_names(world, opened):
    out = set()
    bypath = {os.path.realpath(f.path): f for f in world.files}
    byurl = {world.url_of(f): f for f in world.files}
    for kind, name in opened:
        if kind == "local":
            f = bypath.get(os.path.realpath(name))
            out.add(f"a{f.dir}.{f.idx}" if f else f"a?:{name}")
        else:
            f = byurl.get(name)
            out.add(f"u{f.idx}" if f else f"u?:{name}")
    return out


def check_world(ctx, env, world, roots, label):
    """open the roots one after the other in this process (a history: what is accepted for one
    referrer must not depend on what was opened before), evaluate the oracles on each;
    returns (model lines, expectations)"""
    lines, expect = [], []
    if isinstance(roots, int):
        roots = [(roots, False), (roots, True)]
    for step, (root_idx, remote) in enumerate(roots):
        f = world.files[root_idx]
        obs = observe(env, world, root_idx, remote)
        followed = bool(obs["opened"])
        canon = (describe_world(world.files), root_idx, remote)
        sample = {"world": label, "root": root_idx, "remote": remote, "feats": obs["feats"],
                  "data": {k: v for k, v in obs["data"].items() if v}, "opened": obs["opened"][:4]}
        ctx.case(canon, nontrivial=followed, sample=sample)
        ctx.stat("root:remote" if remote else "root:local")
        ctx.stat(f"files:{len(world.files)}")
        replay = {"world": label, "root": root_idx, "remote": remote,
                  "roots": [list(r) for r in roots[:step + 1]],
                  "files": [{"idx": x.idx, "dir": x.dir, "rid": x.rid, "flavour": x.flavour,
                             "shift": x.shift,
                             "innate": x.innate,
                             "maps": {str(k): v for k, v in x.maps.items()},
                             "internal": x.internal,
                             "defs": [{k: v for k, v in d.items() if k != "key"} for d in x.defs]}
                            for x in world.files],
                  "observed": {"feats": obs["feats"], "data": obs["data"],
                               "opened": obs["opened"], "errors": obs["errors"]}}
        # (O3) termination
        if obs["hung"] or obs["time"] > 10:
            ctx.violation("spec", f"opening/reading a dataset with basins took {obs['time']:.1f}s "
                                  f"(no termination within the guard)", replay)
            if obs["hung"]:
                # the worker thread is still running inside dclab: later observations of this
                # process are not reliable any more
                ctx.hung = True
                break
            continue
        # (O3') bounded number of opened datasets (hard guard in the h5py wrapper)
        if obs["count"] > OPEN_LIMIT:
            ctx.stat("oracle:too-many-opens")
            ctx.violation("spec", f"unbounded basin recursion: more than {OPEN_LIMIT} datasets "
                                  f"opened while reading a world of {len(world.files)} files "
                                  f"(last: {[o[1][-60:] for o in obs['opened'][-2:]]})", replay)
            continue
        # (O1) remote never local
        names = opened_model_names(world, obs["opened"])
        local_opened = sorted(n for n in names if n.startswith("a"))
        if remote and local_opened:
            ctx.stat("oracle:remote-opened-local")
            ctx.violation("spec", "a dataset opened through RTDC_HTTP opened local files "
                                  f"{[o[1] for o in obs['opened'] if o[0] == 'local'][:2]} "
                                  "through its basin definitions", replay)
        # (O4) only declared URLs are contacted (fake session log)
        declared = {world.url_of(f)} if remote else set()
        for x in world.files:
            for d in x.defs:
                declared |= {world.loc_string(l, x) for l in d["locs"]}
        stray = [u for u in obs.get("urls", []) if u not in declared]
        if stray:
            ctx.violation("spec", f"URLs requested that no basin definition declares: {stray[:2]}",
                          replay)
        # (O5) nothing raises
        if obs["errors"]:
            ctx.stat("oracle:raised")
            ctx.violation("spec", "basin resolution raises instead of degrading: "
                                  f"{obs['errors'][0][0]} -> {obs['errors'][0][1]}"[:260], replay)
        # (O2) served data comes over a permitted path
        for feat in FEATS:
            got = obs["data"].get(feat)
            if isinstance(got, list):
                leg = world.legit(root_idx, remote, feat)
                if tuple(got) not in leg:
                    ctx.stat("oracle:illegit-data")
                    src = sorted(set(t // 20 for t in got if t is not None and t < 300))
                    srids = [world.files[s].rid for s in src if s < len(world.files)]
                    if remote and any(o[0] == "local" for o in obs["opened"]):
                        head = "data of a local file served to a dataset opened through RTDC_HTTP"
                    elif f.rid is not None and None in srids:
                        head = "data served from a basin file that has no run identifier"
                    else:
                        head = ("served feature data does not come over a permitted chain of "
                                "basins with matching run identifiers")
                    ctx.violation("spec", f"{head} (feature {feat}, tokens {got} from file(s) {src}; "
                                          f"identifiers root={f.rid!r} sources={srids})", replay)
                    break
        for d in f.defs:
            ctx.stat(f"def:{d['type']}/{d['format']}")
        # model comparison
        univ = L(FID[x] for x in FEATS)
        lines.append(f"resolve {'U ' + str(f.idx) if remote else 'L %d %d' % (f.dir, f.idx)} {univ}")
        expect.append({"feats": obs["feats"], "data": obs["data"], "opened": names,
                       "in": obs["in"], "innate": list(f.innate),
                       "label": label, "remote": remote, "root": root_idx, "replay": replay})
    return lines, expect


def parse_model(ans):
    parts = dict(p.split("=", 1) for p in ans.split())
    feats = [] if parts["feats"] == "-" else [int(x) for x in parts["feats"].split(",")]
    data = {}
    if parts["data"] != "-":
        for e in parts["data"].split("|"):
            k, _, v = e.partition(":")
            data[int(k)] = [] if v == "-" else [int(x) for x in v.split(",")]
    opened = set() if parts["opened"] == "-" else set(parts["opened"].split(";"))
    return feats, data, opened, int(parts["depth"])


def all_worlds(ctx):
    """yield (label, files, root)"""
    for label, files, root in targeted_worlds():
        yield label, files, root
    if ctx.thorough:
        k = 3
        pairs = [(a, b) for a in range(k) for b in range(k)]
        for bits in range(2 ** len(pairs)):
            edges = [p for n, p in enumerate(pairs) if bits >> n & 1]
            yield f"graph3-{bits}", graph_world(ctx.rng, k, edges), 0
    for n in range(ctx.n(330, 3300)):
        files = random_world(ctx.rng)
        yield f"rand{n}", files, random_roots(ctx.rng, files)


def random_roots(rng, files):
    """a history of roots: up to four files opened locally in random order (repeats allowed)
    and one through RTDC_HTTP somewhere in between"""
    k = len(files)
    roots = [(rng.randrange(k), False) for _ in range(min(k, 4))]
    roots.insert(rng.randrange(len(roots) + 1), (rng.randrange(k), True))
    return roots


def run(ctx):
    env = Env()
    all_lines, all_expect = [], []
    try:
        for tag, (label, files, root) in enumerate(all_worlds(ctx)):
            if getattr(ctx, "hung", False):
                ctx.note("C14: exploration stopped after a non-terminating open")
                break
            if time.time() - ctx.t0 > (110 if not ctx.thorough else 800):
                ctx.note(f"C14: wall budget reached after {tag} worlds")
                break
            world = World(ctx, env, tag, files)
            try:
                world.write()
            except Exception as e:  # noqa
                ctx.note(f"C14: could not write world {label}: {e!r}"[:200])
                continue
            ml = world.model_lines()
            lines, expect = check_world(ctx, env, world, root, label)
            all_lines += ml + lines
            all_expect += [None] * len(ml) + expect
            if label.startswith("rand") and ctx.rng.random() < 0.3 and not getattr(ctx, "hung", False):
                # mutable file world: one file is replaced in place by another measurement (other
                # identifier / flavour, other data), then referrers are opened again in this
                # process; the model is re-run on the new world
                victim = ctx.rng.choice(files)
                victim.rid = rand_rid(ctx.rng, "mixed")
                victim.flavour = ctx.rng.choice(FLAVOURS)
                victim.shift = 10
                try:
                    world.write()
                except Exception as e:  # noqa
                    ctx.note(f"C14: could not rewrite world {label}: {e!r}"[:200])
                else:
                    ctx.stat("history:file-replaced")
                    ml = world.model_lines()
                    lines, expect = check_world(ctx, env, world,
                                                random_roots(ctx.rng, files)[:3], label + "+replaced")
                    all_lines += ml + lines
                    all_expect += [None] * len(ml) + expect
            for f in files:
                env.ses.blobs.pop(world.url_of(f), None)
            shutil.rmtree(world.root, ignore_errors=True)
    finally:
        env.close()
    if not ctx.lean_ok:
        return
    out = ctx.lean("C14", all_lines)
    diffs = []
    maxdepth = 0
    for ln, ex, got in zip(all_lines, all_expect, out):
        if ex is None:
            if got != "ok":
                diffs.append((ln, "ok", got, None))
            continue
        try:
            mfeats, mdata, mopened, depth = parse_model(got)
        except Exception:
            diffs.append((ln, "parsable answer", got, ex["replay"]))
            continue
        maxdepth = max(maxdepth, depth)
        ifeats = ex["feats"] if not isinstance(ex["feats"], list) else sorted(FID[x] for x in ex["feats"])
        idata = {FID[k]: v for k, v in ex["data"].items() if v is not None}
        want_in = {k: (k in ex["innate"] or FID[k] in mfeats) for k in FEATS}
        if ifeats != mfeats or idata != mdata:
            diffs.append((ln, f"feats={ifeats} data={idata}", got, ex["replay"]))
        elif ex["in"] != want_in:
            diffs.append((ln, f"in={ex['in']}", got, ex["replay"]))
        elif not ex["opened"] <= mopened:
            diffs.append((ln, f"opened={sorted(ex['opened'])}", got, ex["replay"]))
    ctx.stat("model:max-depth", maxdepth)
    if diffs and not any(v["kind"] == "spec" for v in ctx.violations):
        extended_search(ctx)
    if diffs and not any(v["kind"] == "spec" for v in ctx.violations):
        d0 = diffs[0]
        ctx.violation("mirror", f"{len(diffs)} answers differ between dclab's basin resolution and "
                                f"the Lean model; first: '{d0[0]}' impl {d0[1]} model '{d0[2]}'"[:600],
                      {"correspondence": "Drive/C14.lean (Basin.resolve) vs RTDCBase.basins_retrieve / "
                                         "features_basin / _get_basin_feature_data",
                       "first": [str(x) for x in d0[:3]], "world": d0[3], "count": len(diffs)})
    elif diffs:
        ctx.stat("mirror-diffs-next-to-spec-violations", len(diffs))


def extended_search(ctx, seconds=60):
    """the model and the implementation differ but no property oracle failed: look for a failing
    input on the implementation alone with a larger budget (DESIGN section 4, case B)"""
    env = Env()
    t0 = time.time()
    n = 0
    try:
        while time.time() - t0 < (seconds if not ctx.thorough else 6 * seconds):
            files = random_world(ctx.rng)
            world = World(ctx, env, 100000 + n, files)
            n += 1
            try:
                world.write()
            except Exception:
                continue
            check_world(ctx, env, world, random_roots(ctx.rng, files), f"search{n}")
            shutil.rmtree(world.root, ignore_errors=True)
            if any(v["kind"] == "spec" for v in ctx.violations) or getattr(ctx, "hung", False):
                break
    finally:
        env.close()
    ctx.stat("extended-search-worlds", n)


def replay(ctx, data):
    rp = data.get("replay", data)
    if "files" not in rp:
        rp = rp.get("world") or {}
    if "files" not in rp:
        run(ctx)
        return bool(ctx.violations)
    files = []
    for x in rp["files"]:
        f = WFile(x["idx"], x["dir"], x["rid"], x["innate"], x.get("flavour", "vlen"))
        f.shift = x.get("shift", 0)
        f.maps = {int(k): v for k, v in x["maps"].items()}
        f.internal = x["internal"]
        f.defs = [dict(d, locs=[tuple(z) for z in d["locs"]]) for d in x["defs"]]
        files.append(f)
    env = Env()
    try:
        world = World(ctx, env, 0, files)
        world.write()
        roots = [tuple(r) for r in rp.get("roots") or [(rp["root"], False), (rp["root"], True)]]
        lines, expect = check_world(ctx, env, world, roots, rp.get("world", "replay"))
        ml = world.model_lines()
    finally:
        env.close()
    if ctx.violations:
        for v in ctx.violations[:3]:
            print("  ", v["what"][:200])
        return True
    if ctx.lean_ok:
        out = ctx.lean("C14", ml + lines)
        for ex, got in zip(expect, out[len(ml):]):
            mfeats, mdata, mopened, _ = parse_model(got)
            ifeats = ex["feats"] if not isinstance(ex["feats"], list) else sorted(FID[x] for x in ex["feats"])
            idata = {FID[k]: v for k, v in ex["data"].items() if v is not None}
            if ifeats != mfeats or idata != mdata or not ex["opened"] <= mopened:
                print("   model differs:", got)
                return True
    return False
