"""C14 — basins are only followed when matching, acyclic and permitted.

Worlds of 2-6 .rtdc files (token generator; file i carries tokens 20*i+j, so read-back data
identifies the source file and the maps applied) in four directories (two with a sub directory,
plus a directory symlink), connected by basin definitions forming arbitrary directed graphs (self
references, k-cycles, diamonds); run identifiers equal / prefix-extended / pieces of a substring
lattice (proper suffix, inner substring, superstring, case variant) / unrelated / empty / missing, written with raw h5py in every HDF5 string flavour; locations absolute / sibling name /
dangling / URL / spelled relative or absolute paths (`./`, `sub/../`, `../dir/`, symlinked
directory or file); definitions of type file / remote / internal / unknown with every format
string (matching or not).  About a fifth of the files are basin-only *relays* (no events of their
own, mostly without the 'experiment:event count' attribute: everything incl. their length comes
through their basins), a tenth ordinary files without event count.  Every world is a history
within one process: up to four roots opened locally in random order, one through `RTDC_HTTP` and
one through `RTDC_S3` (in-process fake requests session and fake boto3 object store serving the
same bytes — dclab's own HTTPFile / S3File / availability probes run unchanged on top —, fake
socket); each observation is compared with the history-free model.  Observed:
`ds.basins` (order, public attributes), `features_basin`, `feat in ds`, the data tokens of every
feature, histories of `verify_basin` calls on the basin objects (and on basin objects built
directly with the documented constructor: negative answers), the files / URLs handed to
`h5py.File` (wrapped from outside), the fake session's / object store's request log, wall clock
and CPU time.

Decision: (1) property oracles evaluated directly in Python — a remote root never opens a local
path; served data is the data of some *permitted* path of definitions (identifier match on every
hop, type = class type, local paths only from local datasets), composed maps applied; nothing
raises; bounded time and bounded number of opened datasets — and (2) exact comparison of features /
data with the Lean model `Basin.resolve` (priority order, ignored keys, path resolution), of the
order of `ds.basins` with `basinOrder`, of `verify_basin` histories with `runVerifyBasin`;
opened datasets ⊆ model.  `translate()` regenerates `Gen/BasinTable.lean` (registered basin
classes per format, priority key characters) from the imported dclab.

Private seams used (each degrades to a NOTE, never to a verdict, when it is gone): module names
`boto3` / `socket` of `dclab.rtdc_dataset.fmt_s3` (otherwise S3 is treated as unreachable, as
before session 4); everything else is public API (`ds.basins`, `Basin.basin_format/basin_type/
mapping/location/verify_basin`, `get_basin_classes`, `basin_priority_sorted_key`,
`RTDCBase.ignore_basins`).  `VERIF_NO_WALL_GUARD=1` disables the wall budget (full seeded case
list on a loaded machine).
"""
import copy
import itertools
import json
import os
import pathlib
import shutil
import socket
import threading
import time
import types

import numpy as np

from . import common, gen

ID = "C14"
LEAN_MODULES = ["DclabModel.Properties.C14"]
RULE = ("quick: 6 targeted worlds (remote/internal definition with local path, basin without "
        "identifier unmapped/mapped, mapped-then-unmapped histories) + 11 identifier-relation worlds "
        "(one per member of RID_FAMILY = equal, proper prefix, proper suffix, inner substring, three "
        "superstrings, case variant, unrelated, empty, missing; an unmapped and a mapped basin with "
        "own features in both directions, data served end to end) + the exhaustive verify_basin "
        "table over RID_FAMILY x RID_FAMILY x {unmapped, mapped} (242 directly constructed basin "
        "objects) + 250 seeded random worlds over "
        "2-6 files (20 % basin-only relay files without events, 75 % of those and 10 % of the others "
        "without event count), 0-3 definitions per file drawn from type x format (http / s3 "
        "reachable) x location (incl. spelled paths "
        "and symlinks) x feature-list x mapping, identifiers from {equal, prefix chain, pieces of a "
        "substring lattice (suffix, inner, superstring, case variant), unrelated, empty, "
        "missing} x 6 HDF5 string flavours; each world opened as a history of up to 4 local roots, "
        "one RTDC_HTTP root and one RTDC_S3 root in one process; per root the order of ds.basins and "
        "a history of 3 verify_basin calls on up to 4 basin objects, per world 2 directly "
        "constructed file-type basin objects (any referrer/target pair, mapped or not, dangling "
        "15 %) with a history of 3 verify_basin calls. "
        "thorough: additionally every directed graph (incl. self loops) over <= 3 files with "
        "file-type definitions. A case is non-trivial when at least one definition is followed; "
        "distinct = distinct canonical (world, root) pairs.")
TRUSTED_BASE = [
    "modelled, not verified: h5py/HDF5, json, pathlib.exists, the in-process fake requests session, "
    "fake socket (availability probes of HTTPBasin / S3Basin) and fake boto3 Session/resource/"
    "Object (content_length, e_tag, load, ranged get) underneath dclab's own S3File; DCOR "
    "endpoints are unreachable in the sandbox and modelled as unavailable (remote-type class: "
    "theorem remote_never_local covers it by construction); when the boto3/socket seam of fmt_s3 "
    "is missing S3 is treated the same way (NOTE)",
    "Gen/BasinTable.lean is regenerated by translate() from get_basin_classes() and "
    "basin_priority_sorted_key(); the generator is trusted, tables_match_source is kernel-checked",
    "basin keys are md5 hashes of the definition text (hashobj), assumed collision free"]
ASSUMPTIONS = [
    "mapped definitions come with their basinmap feature stored in the referrer and maps valid for "
    "the basin; internal definitions come with mapping and feature list (the real code raises "
    "ValueError otherwise — malformed file, not generated)",
    "relative locations are single file names; no file of that name exists in the working directory",
    "a remote basin whose identifier does not match is *offered* in features_basin (the check only "
    "runs in get_feature_data) but never *served*: 'used' in used_only_if_matching means data "
    "handed out"]
NOT_PROVED = [
    "real sockets, S3/DCOR authentication, timing of the availability-check threads",
    "exact laziness of opening basin datasets: observed opened datasets are compared by inclusion "
    "in the model's set (exact for features, data, the order of ds.basins and verify_basin answers)",
    "a resource bound on the number of opened datasets: 'opens <= distinct definitions' is false "
    "(opens_not_bounded_by_definitions, findings/C14-diamond-opens.md); only depth <= #keys + 1 "
    "is proved, the harness enforces <= 400 opens per observation of a <= 6 file world",
    "the witnesses F14 / F70 / opens_not_bounded_by_definitions are stated on the unrolled step "
    "function (resolveStep / resolveN), not on the well-founded `resolve` (decide does not reduce it)",
    "_get_length() of datasets without event count (derived from features / basins) is exercised "
    "by the relay files but not modelled (no length in the model)"]

FEATS = ["pos_x", "pos_y", "size_x", "size_y"]
KEEP = "frame"
FID = {f: i for i, f in enumerate(FEATS + [KEEP])}
N_EV = 4
UNIV = range(0, 400)
HOST = "http://verif.invalid"
TYPES = ["file", "remote", "internal", "peter"]
FORMATS = ["h5dataset", "hdf5", "http", "s3", "dcor", "xyz"]


GEN_PATH = common.LEAN_DIR / "DclabModel" / "Gen" / "BasinTable.lean"


def translate():
    """regenerate lean/DclabModel/Gen/BasinTable.lean from the imported dclab: which basin class
    (storage type) is registered for each format string, and the characters
    `basin_priority_sorted_key` assigns to types and formats.  `tables_match_source`
    (Properties/C14.lean) proves that the model's `classType`, `typeRank`, `formatRank` and the
    key layout agree with these tables."""
    common.import_dclab()
    from dclab.rtdc_dataset import feat_basin
    bc = feat_basin.get_basin_classes()
    model_formats = FORMATS[:5]
    type_id = {"internal": 0, "file": 1, "remote": 2}
    class_ids = [type_id.get(getattr(bc.get(fm), "basin_type", None), 9) for fm in model_formats]
    extra = sorted(k for k in bc if k not in model_formats)
    key = feat_basin.basin_priority_sorted_key

    def kk(ty, fm, mp="same"):
        return key({"type": ty, "format": fm, "mapping": mp})

    type_codes = [ord(kk(t, "hdf5")[0]) for t in ("internal", "file", "remote", "peter")]
    format_codes = [ord(kk("file", fm)[1]) for fm in model_formats + ["xyz"]]
    maps = ["same"] + [f"basinmap{i}" for i in range(10)]
    tails = [kk("file", "hdf5", m)[2:] for m in maps]
    layout = (all(len(kk(t, fm)) == 3 for t in ("internal", "file", "remote", "peter")
                  for fm in model_formats + ["xyz"])
              and tails == sorted(tails) and len(set(tails)) == len(tails)
              and key({"type": "file", "format": "hdf5"}) == kk("file", "hdf5"))
    text = f"""/-!
GENERATED by harness/c14.py:translate from dclab.rtdc_dataset.feat_basin (get_basin_classes,
basin_priority_sorted_key) -- do not edit.
-/
namespace DclabModel.Gen.BasinTable

/-- per format string (h5dataset, hdf5, http, s3, dcor): storage type of the registered basin class
(0 internal, 1 file, 2 remote; 9 = no class registered) -/
def classTypeIds : List Nat := {class_ids}

/-- number of registered basin formats the model does not know: {extra} -/
def extraFormats : Nat := {len(extra)}

/-- code point of the first key character for the types internal, file, remote, <anything else> -/
def typeKeyCodes : List Nat := {type_codes}

/-- code point of the second key character for the formats h5dataset, hdf5, http, s3, dcor,
<anything else> -/
def formatKeyCodes : List Nat := {format_codes}

/-- the key is type character ++ format character ++ mapping part, the mapping parts of
same, basinmap0 .. basinmap9 are distinct and increase in this order, a missing mapping counts as
same -/
def keyLayoutOK : Bool := {"true" if layout else "false"}

end DclabModel.Gen.BasinTable
"""
    if not GEN_PATH.exists() or GEN_PATH.read_text() != text:
        GEN_PATH.write_text(text)


def L(xs):
    xs = list(xs)
    return ",".join(str(int(x)) for x in xs) if xs else "-"


def eff_rid(rid):
    """the measurement identifier dclab derives: the stored run identifier; an empty one is
    ignored by the configuration parser and replaced by the md5-uuid of time_date_setup-id
    (the same for all generated files); None = no identifier derivable"""
    if rid == "":
        import hashlib
        import uuid
        m = gen.BASE_META
        text = f"{m['experiment']['time']}_{m['experiment']['date']}_{m['setup']['identifier']}"
        return str(uuid.UUID(hex=hashlib.md5(text.encode("utf-8")).hexdigest()))
    return rid


def rid_codes(rid):
    rid = eff_rid(rid)
    return "x" if rid is None else L(rid.encode())


# --------------------------------------------------------------------------------- environment
class _FakeSock:
    def __init__(self, *a, **k):
        pass

    def __enter__(self):
        return self

    def __exit__(self, *a):
        return False

    def settimeout(self, t):
        pass

    def connect(self, addr):
        if addr[0] != "verif.invalid":
            raise OSError("no network in the sandbox")

    def close(self):
        pass


class TooManyOpens(BaseException):
    """raised by the h5py wrapper once an observation opened more datasets than any finite
    resolution of the generated worlds needs (hard guard against unbounded recursion)"""


OPEN_LIMIT = 400


class _FakeS3Object:
    """what `boto3.resource("s3").Object(bucket, key)` offers to dclab's S3File: lazy header
    attributes, `load()`, ranged `get()`; bytes come from the fake session's blob table"""

    def __init__(self, env, bucket_name, key):
        self.env = env
        self.url = f"{HOST}/{bucket_name}/{key}"

    def _blob(self):
        import botocore.exceptions
        self.env.ses.log.append((self.url, "s3"))
        blob = self.env.ses.blobs.get(self.url)
        if blob is None:
            raise botocore.exceptions.ClientError(
                {"Error": {"Code": "404", "Message": "Not Found"}}, "HeadObject")
        return blob

    def load(self):
        self._blob()

    @property
    def content_length(self):
        return len(self._blob())

    @property
    def e_tag(self):
        return '"verif-s3-etag-%d"' % len(self._blob())

    def get(self, Range=None, **kw):
        import io
        blob = self._blob()
        if Range:
            a, b = Range.split("=")[1].split("-")
            blob = blob[int(a):int(b) + 1]
        return {"Body": io.BytesIO(blob)}


class _FakeBoto3Session:
    def __init__(self, env, *a, **k):
        self.env = env

    def client(self, *a, **k):
        return types.SimpleNamespace(close=lambda: None)

    def resource(self, *a, **k):
        env = self.env
        return types.SimpleNamespace(
            Object=lambda bucket_name, key: _FakeS3Object(env, bucket_name, key))


class Env:
    """fake session + fake socket + fake S3 object store + h5py.File wrapper"""

    def __init__(self, ctx=None):
        dclab = common.import_dclab()
        import h5py
        from dclab import http_utils
        self.h5py = h5py
        self.http_utils = http_utils
        self.ses = common.install_fake_session()
        self._old_socket = http_utils.socket
        http_utils.socket = types.SimpleNamespace(
            socket=_FakeSock, AF_INET=socket.AF_INET, SOCK_STREAM=socket.SOCK_STREAM,
            gaierror=socket.gaierror)
        self.opened = []
        self.count = 0
        self.active = None            # token of the running observation
        self.tls = threading.local()  # .obs = token of the observation this thread works for
        self._orig_init = h5py.File.__init__
        env = self
        # S3: dclab's own S3File / is_s3_object_available run unchanged on top of an in-process
        # object store (module-level names `boto3` and `socket` of fmt_s3 are replaced).  If that
        # seam is not there any more (or the self test fails) S3 stays "unreachable" as before.
        self.s3 = False
        self._s3_saved = None
        self.s3_problem = None
        try:
            from dclab.rtdc_dataset import fmt_s3
            if not (getattr(fmt_s3, "BOTO3_AVAILABLE", False) and hasattr(fmt_s3, "boto3")
                    and hasattr(fmt_s3, "socket")):
                raise RuntimeError("fmt_s3 has no boto3/socket seam")
            self._s3_saved = (fmt_s3, fmt_s3.boto3, fmt_s3.socket)
            fmt_s3.boto3 = types.SimpleNamespace(
                Session=lambda *a, **k: _FakeBoto3Session(env, *a, **k))
            fmt_s3.socket = http_utils.socket
            self.s3 = True
        except BaseException as e:  # noqa
            self.s3_problem = repr(e)[:160]
        if self.s3 and ctx is not None:
            self._s3_selftest(ctx)
        if not self.s3 and ctx is not None:
            ctx.note("C14: in-process S3 object store not usable on this tree "
                     f"({self.s3_problem}); S3 treated as unreachable")

        def wrapped(self_, name, *a, **k):
            # only opens made while an observation is running are counted (the harness itself
            # opens files when it writes a world; a worker left behind by a hung observation
            # must not disturb later bookkeeping)
            if env.active is not None and getattr(env.tls, "obs", None) in (None, env.active):
                if isinstance(name, (str, bytes, pathlib.Path)):
                    env.opened.append(("local", str(name)))
                    env.count += 1
                elif hasattr(name, "url"):
                    env.opened.append(("url", str(name.url)))
                    env.count += 1
                if env.count > OPEN_LIMIT:
                    raise TooManyOpens(f"more than {OPEN_LIMIT} datasets opened")
            return env._orig_init(self_, name, *a, **k)

        h5py.File.__init__ = wrapped

    def _s3_selftest(self, ctx):
        """an object served by the fake store opens through RTDC_S3 and is reported available by
        S3Basin; a missing object is reported unavailable"""
        try:
            from dclab.rtdc_dataset import fmt_s3
            p = ctx.workdir / "s3selftest.rtdc"
            gen.make_rtdc(p, [1, 2, 3], feats=[KEEP], rid="R")
            url = f"{HOST}/selftest/s3/x.rtdc"
            self.ses.blobs[url] = p.read_bytes()
            try:
                with fmt_s3.RTDC_S3(url) as ds:
                    ok = gen.tokens_of(KEEP, ds[KEEP][:], UNIV) == [1, 2, 3]
                ok = ok and bool(fmt_s3.is_s3_object_available(url))
                ok = ok and not fmt_s3.is_s3_object_available(f"{HOST}/selftest/s3/gone.rtdc")
            finally:
                self.ses.blobs.pop(url, None)
                os.unlink(p)
            if not ok:
                raise RuntimeError("self test gave unexpected answers")
        except BaseException as e:  # noqa
            self.s3_problem = "self test: " + repr(e)[:140]
            self._s3_restore()
            self.s3 = False
        finally:
            self.opened.clear()
            self.count = 0

    def _s3_restore(self):
        if self._s3_saved is not None:
            mod, b3, so = self._s3_saved
            mod.boto3, mod.socket = b3, so
            self._s3_saved = None

    def close(self):
        self.h5py.File.__init__ = self._orig_init
        self.http_utils.socket = self._old_socket
        self._s3_restore()


# --------------------------------------------------------------------------------- worlds
#: directory ids of a world (relative to its root); `ld0` is a symlink to `d0`
DIRS = {0: "d0", 1: "d1", 2: "d0/sub", 3: "d1/sub"}
FLAVOURS = ["vlen", "vlen", "bytes", "fixutf8", "vlenascii", "pybytes"]


class WFile:
    def __init__(self, idx, d, rid, innate, flavour="vlen"):
        self.idx, self.dir, self.rid = idx, d, rid
        self.flavour = flavour                # HDF5 string flavour of the run identifier
        self.innate = innate                  # list of feature names
        self.maps = {}                        # K -> list
        self.internal = {}                    # feat -> tokens
        self.defs = []                        # dicts (see make_def)
        self.path = None
        self.shift = 0                        # changed when the file is replaced by other content
        self.relay = False                    # basin-only file: no events of its own at all
        self.nocount = False                  # no 'experiment:event count' attribute (the length
        #                                       has to be derived from features / basins)

    def own(self):
        """features stored in the file itself (besides basinmaps)"""
        return [] if self.relay else [KEEP] + list(self.innate)

    def tokens(self):
        return [20 * self.idx + self.shift + j for j in range(N_EV)]


def describe_world(files):
    return tuple((f.idx, f.dir, f.rid, f.flavour, f.shift, f.relay, f.nocount, tuple(f.innate),
                  tuple(sorted(f.maps.items())) and
                  tuple((k, tuple(v)) for k, v in sorted(f.maps.items())),
                  tuple((d["type"], d["format"], tuple(d["locs"]), tuple(d["feats"] or ("*",)),
                         d["map"]) for d in f.defs)) for f in files)


#: words whose substring lattice supplies run identifiers in every relation to each other
RID_WORDS = ["R-a-c", "R-b-c", "Qx-R-a"]


def rid_relation(r, b):
    """relation of a basin's (effective) identifier b to the referrer's identifier r: what
    `verify_basin` has to tell apart. Only `equal` (and `prefix` for mapped basins) match."""
    if r is None:
        return "referrer-missing"
    if b is None:
        return "basin-missing"
    if r == b:
        return "equal"
    if r.startswith(b):
        return "prefix"            # b is a proper prefix of r
    if r.endswith(b):
        return "suffix"            # b is a proper suffix of r
    if b in r:
        return "inner"             # b occurs inside r, neither at its start nor at its end
    if b.startswith(r):
        return "super-prefix"      # r is a proper prefix of b
    if r in b:
        return "super"             # r is a proper non-prefix substring of b
    if r.lower() == b.lower():
        return "case"
    return "unrelated"


def lattice_rid(rng):
    """a contiguous piece of one of RID_WORDS (whole word 30 %), sometimes with another case or
    wrapped into a longer string: two such draws are equal, proper prefix, proper suffix, inner
    substring, superstring (any side), case variant or unrelated"""
    w = rng.choice(RID_WORDS)
    r = rng.random()
    if r < 0.3:
        s = w
    else:
        i = rng.randrange(len(w))
        s = w[i:rng.randint(i + 1, len(w))]
    r = rng.random()
    if r < 0.08:
        s = s.swapcase()
    elif r < 0.14:
        s = rng.choice(["x" + s, s + "y", "x" + s + "y"])
    return s


def rand_rid(rng, scheme):
    r = rng.random()
    if scheme == "equal":
        return "R"
    if scheme == "lattice" and r < 0.85:
        return lattice_rid(rng)
    if r < 0.42:
        return "R"
    if r < 0.60:
        return "R-" + rng.choice("ab")
    if r < 0.72:
        return "R-" + rng.choice("ab") + "-c"
    if r < 0.80:
        return lattice_rid(rng)
    if r < 0.88:
        return "Q" + rng.choice("xy")
    if r < 0.92:
        return ""
    return None


def rand_locs(rng, files, j, style):
    """symbolic locations: ('abs', j) | ('rel', j) | ('dangling',) | ('url', j) | ('deadurl',)"""
    sp = lambda st: ("sp", j, st, rng.randrange(1 << 16))  # noqa: E731
    if style == "path":
        pool = [("abs", j), ("rel", j), ("dangling",), sp("rel"), sp("rel"), sp("abs")]
    elif style == "url":
        pool = [("url", j), ("url", j), ("deadurl",)]
    else:
        pool = [("abs", j), ("rel", j), ("url", j), ("dangling",), ("deadurl",), sp("rel"),
                sp("abs")]
    k = rng.choice([1, 1, 1, 2])
    return [rng.choice(pool) for _ in range(k)]


def rand_def(rng, files, i):
    fi = files[i]
    j = rng.randrange(len(files))
    r = rng.random()
    if r < 0.5:
        ty, fmt, style = "file", "hdf5", "path"
    elif r < 0.72:
        ty, fmt, style = "remote", rng.choice(["http", "http", "s3"]), "url"
    elif r < 0.8:
        ty, fmt, style = "internal", "h5dataset", "internal"
    else:
        # any combination, matching or not (incl. the F14 shape remote+hdf5+local path)
        ty = rng.choice(TYPES)
        fmt = rng.choice(FORMATS)
        style = rng.choice(["path", "url", "mixed"])
        if ty == "internal" and fmt == "h5dataset":
            style = "internal"
    feats = None if rng.random() < 0.5 else sorted(rng.sample(FEATS, rng.randint(1, 3)))
    mapping = None
    if style == "internal" or rng.random() < 0.35:
        k = rng.randrange(3)
        if k not in fi.maps:
            fi.maps[k] = [rng.randrange(N_EV) for _ in range(N_EV)]
        mapping = k
    if style == "internal":
        locs = [("group",)]
        f = rng.choice(FEATS)
        if f not in fi.internal:
            fi.internal[f] = [300 + 10 * i + jj for jj in range(N_EV)]
        feats = sorted(set([f] + (feats or [])[:1]))
    else:
        locs = rand_locs(rng, files, j, style)
    if (ty == "internal" or fmt == "h5dataset") and not (mapping is not None and feats):
        # the real constructor raises ValueError for such (malformed) internal definitions
        if mapping is None:
            k = 0
            fi.maps.setdefault(0, [rng.randrange(N_EV) for _ in range(N_EV)])
            mapping = k
        feats = feats or [rng.choice(FEATS)]
    return {"type": ty, "format": fmt, "locs": locs, "feats": feats, "map": mapping,
            "name": rng.choice(["x", f"d{i}-{len(fi.defs)}"])}


def random_world(rng):
    k = rng.choice([2, 3, 3, 4, 4, 5, 6])
    scheme = rng.choice(["equal", "mixed", "mixed", "lattice"])
    files = []
    for i in range(k):
        innate = sorted(rng.sample(FEATS, rng.randint(0, 3)))
        files.append(WFile(i, rng.choice([0, 0, 0, 0, 1, 1, 2, 2, 3]), rand_rid(rng, scheme), innate,
                           rng.choice(FLAVOURS)))
        r = rng.random()
        if r < 0.2:
            # basin-only relay: everything it shows comes through its basins
            files[-1].relay, files[-1].innate = True, []
            files[-1].nocount = rng.random() < 0.75
        elif r < 0.3:
            files[-1].nocount = True
    for i in range(k):
        for _ in range(rng.choice([0, 1, 1, 2, 2, 3])):
            files[i].defs.append(rand_def(rng, files, i))
    return files


def graph_world(rng, k, edges):
    """plain file-type definitions along the given edge set (thorough, exhaustive graphs)"""
    files = [WFile(i, rng.choice([0, 0, 1, 2]), "R", sorted(rng.sample(FEATS, rng.randint(0, 2))))
             for i in range(k)]
    for (a, b) in edges:
        files[a].defs.append({"type": "file", "format": "hdf5",
                              "locs": [rng.choice([("abs", b), ("sp", b, "rel", rng.randrange(1 << 16)),
                                                   ("sp", b, "abs", rng.randrange(1 << 16))])],
                              "feats": None,
                              "map": None, "name": f"g{a}-{b}"})
    return files


def targeted_worlds():
    out = []
    # remote definition with a local path (F14 shape), secret file without relation
    a = WFile(0, 0, "R", [])
    s = WFile(1, 0, "R", ["pos_x", "pos_y"])
    a.defs.append({"type": "remote", "format": "hdf5", "locs": [("abs", 1)], "feats": None,
                   "map": None, "name": "t14"})
    out.append(("remote-def-local-path", [a, s], 0))
    a = WFile(0, 0, None, [])
    s = WFile(1, 0, None, ["pos_x"])
    a.defs.append({"type": "internal", "format": "hdf5", "locs": [("abs", 1)], "feats": ["pos_x"],
                   "map": 0, "name": "t14b"})
    a.maps[0] = [0, 1, 2, 3]
    out.append(("internal-def-local-path", [a, s], 0))
    # basin without identifier, unmapped and mapped (F22 shapes)
    a = WFile(0, 0, "R", [])
    s = WFile(1, 0, None, ["pos_x"])
    a.defs.append({"type": "file", "format": "hdf5", "locs": [("abs", 1)], "feats": None,
                   "map": None, "name": "t22a"})
    out.append(("basin-without-identifier", [a, s], 0))
    a = WFile(0, 0, "R", [])
    s = WFile(1, 0, None, ["pos_x"])
    a.defs.append({"type": "file", "format": "hdf5", "locs": [("rel", 1)], "feats": None,
                   "map": 1, "name": "t22b"})
    a.maps[1] = [3, 3, 0, 1]
    out.append(("mapped-basin-without-identifier", [a, s], 0))
    # histories: a mapped (prefix) and an unmapped definition to the same file from referrers
    # with the same identifier, opened in both orders
    for order in ((0, 1), (1, 0)):
        x = WFile(2, 0, "R", ["pos_x", "pos_y"])
        a = WFile(0, 0, "R-a", [])
        b = WFile(1, 0, "R-a", [])
        a.defs.append({"type": "file", "format": "hdf5", "locs": [("abs", 2)], "feats": None,
                       "map": 0, "name": "h-mapped"})
        a.maps[0] = [1, 3, 3, 0]
        b.defs.append({"type": "file", "format": "hdf5", "locs": [("abs", 2)], "feats": None,
                       "map": None, "name": "h-same"})
        out.append((f"history-{order[0]}{order[1]}", [a, b, x],
                    [(order[0], False), (order[1], False), (order[0], False)]))
    out += relation_worlds()
    return out


#: one identifier per relation to the core word (see rid_relation), both roles are played by
#: every member: equal, proper prefix, proper suffix, inner substring, superstrings (core at the
#: start / at the end / inside), case variant, unrelated, empty, missing
RID_CORE = "Ra-b"
RID_FAMILY = [RID_CORE, "Ra", "-b", "a-", "Ra-b-c", "xRa-b", "xRa-by", "rA-B", "Qx", "", None]


def relation_worlds():
    """for every member m of RID_FAMILY one world that serves data end to end in both directions:
    file 0 (core) refers to file 1 unmapped and to file 2 mapped (both with identifier m), file 3
    (m) refers to file 4 unmapped and to file 5 mapped (both core); every basin has its own
    feature, so that each of the four decisions is visible in features_basin and in the data"""
    out = []
    for n, m in enumerate(RID_FAMILY):
        rids = [RID_CORE, m, m, m, RID_CORE, RID_CORE]
        files = [WFile(i, 0, rids[i], [], FLAVOURS[(n + i) % len(FLAVOURS)]) for i in range(6)]
        for ref, (tgt_same, tgt_map), (fa, fb) in ((0, (1, 2), FEATS[:2]), (3, (4, 5), FEATS[2:])):
            files[tgt_same].innate, files[tgt_map].innate = [fa], [fb]
            files[ref].maps[0] = [2, 0, 3, 3]
            files[ref].defs.append({"type": "file", "format": "hdf5", "locs": [("abs", tgt_same)],
                                    "feats": [fa], "map": None, "name": f"rel{n}-same"})
            files[ref].defs.append({"type": "file", "format": "hdf5", "locs": [("rel", tgt_map)],
                                    "feats": [fb], "map": 0, "name": f"rel{n}-mapped"})
        out.append((f"id-relation-{n}", files, [(0, False), (3, False)]))
    return out


def family_world():
    """RID_FAMILY as a world without definitions (every file with a map, so that it can be the
    referrer of a mapped basin): the ground for the exhaustive verify_basin table"""
    files = []
    for n, m in enumerate(RID_FAMILY):
        f = WFile(n, 0, m, [FEATS[n % len(FEATS)]], FLAVOURS[n % len(FLAVOURS)])
        f.maps[0] = [1, 1, 0, 2]
        files.append(f)
    return files


class World:
    def __init__(self, ctx, env, tag, files):
        self.ctx, self.env, self.tag, self.files = ctx, env, tag, files
        self.root = ctx.workdir / f"w{tag}"
        self.keys = {}          # key string -> int

    def path_of(self, f):
        return self.root / DIRS[f.dir] / f"f{f.idx}.rtdc"

    def url_of(self, f):
        return f"{HOST}/w{self.tag}/{DIRS[f.dir]}/f{f.idx}.rtdc"

    def spell(self, ref, j, style, seed):
        """a path to file j, relative to the directory of `ref` or absolute, decorated with
        no-op components (`./`, `sub/../`, `../<dir>/`), a symlinked directory (`ld0`) or a
        symlinked file name (`l<j>.rtdc`, created next to its target)"""
        tgt = self.files[j]
        name = f"f{j}.rtdc"
        if seed & 1:
            name = f"l{j}.rtdc"
            link = self.root / DIRS[tgt.dir] / name
            if not link.is_symlink():
                link.symlink_to(f"f{j}.rtdc")

        def noop(d, bits):
            """no-op components valid inside directory id d"""
            out = []
            if bits & 1:
                out.append(".")
            if bits & 2:
                out += ["sub", ".."] if d in (0, 1) else ["..", "sub"]
            if bits & 4:
                out += ["..", DIRS[d].split("/")[-1]]
            return out

        if style == "rel":
            rel = os.path.relpath(self.root / DIRS[tgt.dir], self.root / DIRS[ref.dir])
            comps = noop(ref.dir, seed >> 1 & 7) + ([] if rel == "." else rel.split("/"))
            comps += noop(tgt.dir, seed >> 4 & 7) + [name]
            return "/".join(comps)
        base = DIRS[tgt.dir]
        if seed & 2 and base.startswith("d0"):
            base = "l" + base                      # through the directory symlink
        comps = base.split("/") + noop(tgt.dir, seed >> 4 & 7) + [name]
        return str(self.root) + "/" + "/".join(comps)

    def loc_string(self, loc, ref):
        kind = loc[0]
        if kind == "abs":
            return str(self.path_of(self.files[loc[1]]))
        if kind == "rel":
            return f"f{loc[1]}.rtdc"
        if kind == "sp":
            return self.spell(ref, loc[1], loc[2], loc[3])
        if kind == "dangling":
            return str(self.root / "nowhere" / "gone.rtdc")
        if kind == "url":
            return self.url_of(self.files[loc[1]])
        if kind == "deadurl":
            return f"{HOST}/w{self.tag}/gone.rtdc"
        return "basin_events"

    def loc_model(self, loc):
        kind = loc[0]
        if kind in ("abs", "sp"):
            # spelled paths are no-op decorations: they resolve (physically) to file j from the
            # referrer's directory; the harness checks that with os.path.realpath when writing
            f = self.files[loc[1]]
            return f"a{f.dir}.{f.idx}"
        if kind == "rel":
            return f"r{loc[1]}"
        if kind == "dangling":
            return "a9.99"
        if kind == "url":
            return f"u{loc[1]}"
        if kind == "deadurl":
            return "u99"
        return "r98"

    def write(self):
        dclab = common.import_dclab()
        from dclab.util import hashobj
        import h5py
        for d in DIRS.values():
            (self.root / d).mkdir(parents=True, exist_ok=True)
        if not (self.root / "ld0").exists():
            (self.root / "ld0").symlink_to("d0", target_is_directory=True)
        for f in self.files:
            f.path = self.path_of(f)
            if f.path.exists():
                os.unlink(f.path)        # replaced, not truncated (handles may still be open)
            gen.make_rtdc(f.path, f.tokens(), feats=f.own(), rid=f.rid)
            with dclab.RTDCWriter(f.path, mode="append") as hw:
                for k, m in sorted(f.maps.items()):
                    hw.store_feature(f"basinmap{k}", np.array(m, dtype=np.uint64))
                if f.internal:
                    grp = hw.h5file.require_group("basin_events")
                    for feat, toks in f.internal.items():
                        hw.write_ndarray(group=grp, name=feat, data=gen.rows(feat, toks))
                for d in f.defs:
                    bd = {"description": None, "format": d["format"], "name": d["name"],
                          "type": d["type"],
                          "features": d["feats"],
                          "mapping": "same" if d["map"] is None else f"basinmap{d['map']}"}
                    ls = [self.loc_string(x, f) for x in d["locs"]]
                    for x, text in zip(d["locs"], ls):
                        if x[0] == "sp":
                            base = text if os.path.isabs(text) else os.path.join(
                                str(self.root / DIRS[f.dir]), text)
                            assert os.path.realpath(base) == os.path.realpath(
                                self.path_of(self.files[x[1]])), (text, x)
                    if d["type"] == "remote":
                        bd["urls"] = ls
                    else:
                        bd["paths"] = ls
                    lines = json.dumps(bd, indent=2).split("\n")
                    key = hashobj(lines)
                    grp = hw.h5file.require_group("basins")
                    if key not in grp:
                        hw.write_text(grp, key, lines)
                    d["key"] = key
                    self.keys.setdefault(key, len(self.keys) + 1)
            with h5py.File(f.path, "a") as h5:
                if f.relay:
                    h5.require_group("events")
                if f.nocount and "experiment:event count" in h5.attrs:
                    del h5.attrs["experiment:event count"]
                # the run identifier in every HDF5 string flavour, written with raw h5py
                if f.rid is None:
                    for a in ("setup:identifier", "experiment:run identifier"):
                        if a in h5.attrs:
                            del h5.attrs[a]
                else:
                    if "experiment:run identifier" in h5.attrs:
                        del h5.attrs["experiment:run identifier"]
                    key = "experiment:run identifier"
                    if f.flavour == "bytes":
                        h5.attrs[key] = np.bytes_(f.rid)      # fixed-length ASCII (np.bytes_)
                    elif f.flavour == "fixutf8" and f.rid:
                        h5.attrs.create(key, f.rid,
                                        dtype=h5py.string_dtype("utf-8", len(f.rid) + 2))
                    elif f.flavour == "vlenascii":
                        h5.attrs.create(key, f.rid, dtype=h5py.string_dtype("ascii"))
                    elif f.flavour == "pybytes":
                        h5.attrs[key] = f.rid.encode()
                    else:
                        h5.attrs[key] = f.rid                 # variable-length UTF-8 str
        for f in self.files:
            self.env.ses.blobs[self.url_of(f)] = f.path.read_bytes()

    def up(self):
        """remote protocols that can be reached in this process"""
        return ["http", "s3"] if self.env.s3 else ["http"]

    def model_lines(self):
        lines = ["reset " + ",".join(self.up())]
        for f in self.files:
            lines.append(f"file {f.dir} {f.idx} {rid_codes(f.rid)}")
            for feat in f.own():
                lines.append(f"feat {FID[feat]} {L(f.tokens())}")
            for k, m in sorted(f.maps.items()):
                lines.append(f"map {k} {L(m)}")
            for feat, toks in f.internal.items():
                lines.append(f"int {FID[feat]} {L(toks)}")
            for d in self.stored_order(f):      # HDF5 iterates the group by key name
                ty = d["type"] if d["type"] in ("file", "remote", "internal") else "other"
                fmt = d["format"] if d["format"] in FORMATS[:5] else "other"
                locs = ";".join(self.loc_model(x) for x in d["locs"]) or "-"
                lines.append(f"def {self.keys[d['key']]} {ty} {fmt} {locs} "
                             f"{'*' if d['feats'] is None else L(FID[x] for x in d['feats'])} "
                             f"{'same' if d['map'] is None else d['map']}")
        for f in self.files:
            lines.append(f"url {f.idx} {f.dir} {f.idx}")
        return lines

    def stored_order(self, f):
        """definitions of a file in HDF5 storage order (alphabetical by key)"""
        seen, out = set(), []
        for d in sorted(f.defs, key=lambda d: d["key"]):
            if d["key"] not in seen:
                seen.add(d["key"])
                out.append(d)
        return out

    # ---- python-side oracle: data reachable over permitted paths ----------------------
    def legit(self, root_idx, remote_root, feat):
        """set of token tuples that a permitted path of definitions can deliver for `feat`"""
        cls_type = {"h5dataset": "internal", "hdf5": "file", "http": "remote", "s3": "remote",
                    "dcor": "remote"}
        out = set()

        def id_ok(r, b, mapped):
            if r is None:
                return True
            if b is None:
                return False
            return r.startswith(b) if mapped else r == b

        def walk(i, is_remote, used_keys, depth):
            """yield token lists file i (opened locally / remotely) may show for feat"""
            f = self.files[i]
            res = []
            if feat in f.own():
                res.append(f.tokens())
            if depth > 8:
                return res
            for d in f.defs:
                if d["key"] in used_keys:
                    continue
                ctype = cls_type.get(d["format"])       # the class that is instantiated
                if ctype is None or d["type"] not in ("file", "remote", "internal"):
                    continue
                if ctype == "internal" and d["type"] != "internal":
                    continue
                if d["feats"] is not None and feat not in d["feats"]:
                    continue
                m = None if d["map"] is None else f.maps.get(d["map"])
                subs = []
                if ctype == "internal":
                    if feat in f.internal and m is not None:
                        subs = [f.internal[feat]]
                else:
                    for loc in d["locs"]:
                        tgt, tremote = None, None
                        if ctype == "file" and not is_remote:
                            # local paths may only be followed from datasets on the local disk
                            if loc[0] in ("abs", "sp"):
                                tgt, tremote = loc[1], False
                            elif loc[0] == "rel" and self.files[loc[1]].dir == f.dir:
                                tgt, tremote = loc[1], False
                        elif ctype == "remote" and d["format"] in self.up() and loc[0] == "url":
                            tgt, tremote = loc[1], True
                        if tgt is None:
                            continue
                        if not id_ok(eff_rid(f.rid), eff_rid(self.files[tgt].rid),
                                     d["map"] is not None):
                            continue
                        subs += walk(tgt, tremote, used_keys | {d["key"]}, depth + 1)
                for s in subs:
                    if m is None:
                        res.append(list(s))
                    elif all(x < len(s) for x in m):
                        res.append([s[x] for x in m])
            return res

        for r in walk(root_idx, remote_root, frozenset(), 0):
            out.add(tuple(r))
        return out


# --------------------------------------------------------------------------------- observation
def basin_loc_name(world, fmt, location):
    """model name of the dataset a basin object points to, `-` if nothing can be opened there"""
    loc = str(location)
    if fmt == "hdf5":
        bypath = {os.path.realpath(f.path): f for f in world.files}
        f = bypath.get(os.path.realpath(loc)) if os.path.exists(loc) else None
        return f"a{f.dir}.{f.idx}" if f else "-"
    if fmt in world.up():
        byurl = {world.url_of(f): f for f in world.files}
        f = byurl.get(loc)
        return f"u{f.idx}" if f else "-"
    return "-"


def observe(env, world, root_idx, remote, vflags=()):
    """open the root and observe; returns dict"""
    dclab = common.import_dclab()
    from dclab.rtdc_dataset.fmt_http import RTDC_HTTP
    f = world.files[root_idx]
    res = {"feats": None, "in": {}, "data": {}, "errors": [], "opened": [], "time": None}
    box = {}

    token = object()

    def work():
        ds = None
        try:
            env.tls.obs = token
            env.opened.clear()
            env.count = 0
            env.active = token
            n_log = len(env.ses.log)
            if remote == "s3":
                from dclab.rtdc_dataset.fmt_s3 import RTDC_S3
                ds = RTDC_S3(world.url_of(f))
            elif remote:
                ds = RTDC_HTTP(world.url_of(f))
            else:
                ds = dclab.new_dataset(f.path)
            try:
                # the list `ds.basins` in order (public attributes of the basin objects only),
                # read before any data access
                res["basins"] = [(str(bn.basin_format), str(bn.mapping), str(bn.location))
                                 for bn in ds.basins]
            except BaseException as e:  # noqa
                res["basins"] = None
                res["basins_problem"] = repr(e)[:120]
            try:
                res["feats"] = sorted(x for x in ds.features_basin if x in FEATS)
            except BaseException as e:  # noqa
                res["feats"] = common.err_class(e)
                res["errors"].append(("features_basin", repr(e)[:160]))
            for feat in FEATS:
                try:
                    res["in"][feat] = feat in ds
                except BaseException as e:  # noqa
                    res["in"][feat] = common.err_class(e)
                    res["errors"].append((f"{feat} in ds", repr(e)[:160]))
                try:
                    res["data"][feat] = gen.tokens_of(feat, ds[feat][:], UNIV)
                except KeyError:
                    res["data"][feat] = None
                except BaseException as e:  # noqa
                    res["data"][feat] = common.err_class(e)
                    res["errors"].append((f"ds[{feat!r}]", repr(e)[:160]))
            res["opened"] = list(env.opened[1:])
            res["urls"] = sorted(set(u for (u, _r) in env.ses.log[n_log:]))
            # histories of verify_basin calls on the basin objects of this dataset (after the
            # data was read: the answers must not depend on what happened before)
            res["verify"] = []
            try:
                for bn in list(ds.basins)[:4]:
                    answers = [bool(bn.verify_basin(run_identifier=fl)) for fl in vflags]
                    res["verify"].append((str(bn.basin_format), str(bn.basin_type), str(bn.mapping),
                                          str(bn.location), answers))
            except BaseException as e:  # noqa
                res["verify"] = None
                res["verify_problem"] = repr(e)[:120]
        except BaseException as e:  # noqa
            res["errors"].append(("open", repr(e)[:160]))
        finally:
            try:
                if ds is not None:
                    ds.close()
            except BaseException:
                pass
            box["done"] = True

    t0 = time.time()
    c0 = time.process_time()
    th = threading.Thread(target=work, daemon=True)
    th.start()
    th.join(30)
    # wall time alone never decides: a worker that got (almost) no CPU within the guard is the
    # machine's load, not dclab — give it more wall time (bounded) until it either finishes or
    # has really consumed CPU
    extra = 0
    while th.is_alive() and time.process_time() - c0 < 8 and extra < 6:
        th.join(30)
        extra += 1
    res["time"] = time.time() - t0
    res["cpu"] = time.process_time() - c0
    res["hung"] = th.is_alive()
    res["count"] = env.count
    env.active = None
    return res


def fmt_name(remote):
    return "RTDC_S3" if remote == "s3" else "RTDC_HTTP" if remote else "RTDC_HDF5"


def opened_model_names(world, opened):
    out = set()
    bypath = {os.path.realpath(f.path): f for f in world.files}
    byurl = {world.url_of(f): f for f in world.files}
    for kind, name in opened:
        if kind == "local":
            f = bypath.get(os.path.realpath(name))
            out.add(f"a{f.dir}.{f.idx}" if f else f"a?:{name}")
        else:
            # dclab's S3File spells the endpoint with its port
            f = byurl.get(name.replace(HOST + ":80/", HOST + "/"))
            out.add(f"u{f.idx}" if f else f"u?:{name}")
    return out


def check_world(ctx, env, world, roots, label):
    """open the roots one after the other in this process (a history: what is accepted for one
    referrer must not depend on what was opened before), evaluate the oracles on each;
    returns (model lines, expectations)"""
    lines, expect = [], []
    if isinstance(roots, int):
        roots = [(roots, False), (roots, True), (roots, "s3")]
    if not env.s3:
        roots = [(i, True if r == "s3" else r) for (i, r) in roots]
    for step, (root_idx, remote) in enumerate(roots):
        f = world.files[root_idx]
        vflags = [ctx.rng.random() < 0.65 for _ in range(3)]
        obs = observe(env, world, root_idx, remote, vflags)
        followed = bool(obs["opened"])
        canon = (describe_world(world.files), root_idx, remote)
        sample = {"world": label, "root": root_idx, "remote": remote, "feats": obs["feats"],
                  "data": {k: v for k, v in obs["data"].items() if v}, "opened": obs["opened"][:4]}
        ctx.case(canon, nontrivial=followed, sample=sample)
        ctx.stat(f"root:{'s3' if remote == 's3' else 'http'}" if remote else "root:local")
        if f.relay or f.nocount:
            ctx.stat("root:relay" if f.relay else "root:no-event-count")
        ctx.stat(f"files:{len(world.files)}")
        replay = {"world": label, "root": root_idx, "remote": remote,
                  "roots": [list(r) for r in roots[:step + 1]],
                  "files": [{"idx": x.idx, "dir": x.dir, "rid": x.rid, "flavour": x.flavour,
                             "shift": x.shift, "relay": x.relay, "nocount": x.nocount,
                             "innate": x.innate,
                             "maps": {str(k): v for k, v in x.maps.items()},
                             "internal": x.internal,
                             "defs": [{k: v for k, v in d.items() if k != "key"} for d in x.defs]}
                            for x in world.files],
                  "observed": {"feats": obs["feats"], "data": obs["data"],
                               "opened": obs["opened"], "errors": obs["errors"]}}
        # (O3) termination
        if not obs["hung"] and obs["time"] > 10 and obs["cpu"] <= 5:
            # slow but finished, and hardly any CPU was used: load of the machine, no verdict
            ctx.stat("slow-observation-under-load")
            ctx.note("C14: an observation needed more than 10 s wall with little CPU (loaded "
                     "machine); not judged by time")
        elif obs["hung"] or obs["time"] > 10:
            ctx.violation("spec", f"opening/reading a dataset with basins took {obs['time']:.1f}s "
                                  f"wall / {obs['cpu']:.1f}s CPU "
                                  f"(no termination within the guard)", replay)
            if obs["hung"]:
                # the worker thread is still running inside dclab: later observations of this
                # process are not reliable any more
                ctx.hung = True
                break
            continue
        # (O3') bounded number of opened datasets (hard guard in the h5py wrapper)
        if obs["count"] > OPEN_LIMIT:
            ctx.stat("oracle:too-many-opens")
            ctx.violation("spec", f"unbounded basin recursion: more than {OPEN_LIMIT} datasets "
                                  f"opened while reading a world of {len(world.files)} files "
                                  f"(last: {[o[1][-60:] for o in obs['opened'][-2:]]})", replay)
            continue
        # (O1) remote never local
        names = opened_model_names(world, obs["opened"])
        local_opened = sorted(n for n in names if n.startswith("a"))
        if remote and local_opened:
            ctx.stat("oracle:remote-opened-local")
            ctx.violation("spec", f"a dataset opened through {fmt_name(remote)} opened local files "
                                  f"{[o[1] for o in obs['opened'] if o[0] == 'local'][:2]} "
                                  "through its basin definitions", replay)
        # (O4) only declared URLs are contacted (fake session log)
        declared = {world.url_of(f)} if remote else set()
        for x in world.files:
            for d in x.defs:
                declared |= {world.loc_string(l, x) for l in d["locs"]}
        stray = [u for u in obs.get("urls", []) if u not in declared]
        if stray:
            ctx.violation("spec", f"URLs requested that no basin definition declares: {stray[:2]}",
                          replay)
        # (O5) nothing raises
        if obs["errors"]:
            ctx.stat("oracle:raised")
            ctx.violation("spec", "basin resolution raises instead of degrading: "
                                  f"{obs['errors'][0][0]} -> {obs['errors'][0][1]}"[:260], replay)
        # (O2) served data comes over a permitted path
        for feat in FEATS:
            got = obs["data"].get(feat)
            if isinstance(got, list):
                leg = world.legit(root_idx, remote, feat)
                if tuple(got) not in leg:
                    ctx.stat("oracle:illegit-data")
                    src = sorted(set(t // 20 for t in got if t is not None and t < 300))
                    srids = [world.files[s].rid for s in src if s < len(world.files)]
                    if remote and any(o[0] == "local" for o in obs["opened"]):
                        head = ("data of a local file served to a dataset opened through "
                                + fmt_name(remote))
                    elif f.rid is not None and None in srids:
                        head = "data served from a basin file that has no run identifier"
                    else:
                        head = ("served feature data does not come over a permitted chain of "
                                "basins with matching run identifiers")
                    ctx.violation("spec", f"{head} (feature {feat}, tokens {got} from file(s) {src}; "
                                          f"identifiers root={f.rid!r} sources={srids})", replay)
                    break
        for d in f.defs:
            ctx.stat(f"def:{d['type']}/{d['format']}")
        # model comparison
        univ = L(FID[x] for x in FEATS)
        lines.append(f"resolve {'U ' + str(f.idx) if remote else 'L %d %d' % (f.dir, f.idx)} {univ}")
        expect.append({"feats": obs["feats"], "data": obs["data"], "opened": names,
                       "in": obs["in"], "innate": list(f.innate),
                       "label": label, "remote": remote, "root": root_idx, "replay": replay})
        # order of ds.basins (exact) against `basinOrder`
        if obs.get("basins") is None:
            ctx.note("C14: ds.basins / public basin attributes not readable on this tree "
                     f"({obs.get('basins_problem')}); order comparison skipped")
        else:
            seq = []
            for fmt, mp, loc in obs["basins"]:
                seq.append(f"{fmt}:{'same' if mp == 'same' else mp.replace('basinmap', '')}:"
                           f"{basin_loc_name(world, fmt, loc)}")
            lines.append(f"basins {'U ' + str(f.idx) if remote else 'L %d %d' % (f.dir, f.idx)}")
            expect.append({"kind": "basins", "seq": seq, "replay": replay})
            ctx.stat("order:basins-compared", len(seq))
        # verify_basin histories against `runVerifyBasin`
        if obs.get("verify") is None:
            if obs.get("verify_problem"):
                ctx.note("C14: verify_basin histories not observable on this tree "
                         f"({obs.get('verify_problem')}); skipped")
        else:
            calls_of = lambda av: ";".join(f"{int(av)}{int(fl)}" for fl in vflags)  # noqa: E731
            for fmt, bty, mp, loc, answers in obs["verify"]:
                if bty == "internal":
                    if not all(answers):
                        ctx.violation("spec", "verify_basin of an internal basin answers False",
                                      replay)
                    continue
                name = basin_loc_name(world, fmt, loc)
                brid = "x"
                if name != "-":
                    brid = rid_codes(world.files[int(name[1:].split(".")[-1])].rid)
                lines.append(f"verify {rid_codes(f.rid)} {brid} {int(mp != 'same')} "
                             f"{calls_of(name != '-')}")
                expect.append({"kind": "verify", "answers": answers, "replay": replay})
                ctx.stat("verify:in-situ")
    return lines, expect


def parse_model(ans):
    parts = dict(p.split("=", 1) for p in ans.split())
    feats = [] if parts["feats"] == "-" else [int(x) for x in parts["feats"].split(",")]
    data = {}
    if parts["data"] != "-":
        for e in parts["data"].split("|"):
            k, _, v = e.partition(":")
            data[int(k)] = [] if v == "-" else [int(x) for x in v.split(",")]
    opened = set() if parts["opened"] == "-" else set(parts["opened"].split(";"))
    return feats, data, opened, int(parts["depth"])


def verify_probe(ctx, env, world, label):
    """basin objects built directly with the documented constructor arguments (file-type class,
    any pair referrer / target of the world, unmapped or mapped, existing or dangling location):
    a history of verify_basin calls is compared with `runVerifyBasin`.  This reaches the negative
    answers that never show up in `ds.basins` (file-type candidates that do not verify).
    returns (model lines, expectations)"""
    lines, expect = [], []
    dclab = common.import_dclab()
    try:
        from dclab.rtdc_dataset import feat_basin
        cls = feat_basin.get_basin_classes()["hdf5"]
    except BaseException as e:  # noqa
        ctx.note(f"C14: basin classes not reachable on this tree ({e!r}); direct verify probe skipped"[:200])
        return lines, expect
    if label == "id-family":
        # the whole decision table: every ordered pair of RID_FAMILY, unmapped and mapped
        n = len(world.files)
        todo = [(i, j, mp, False, [True, ctx.rng.random() < 0.5, True])
                for i in range(n) for j in range(n) for mp in (False, True)]
    else:
        todo = []
        for _ in range(2):
            i = ctx.rng.randrange(len(world.files))
            j = ctx.rng.randrange(len(world.files))
            mapped = bool(world.files[i].maps) and ctx.rng.random() < 0.5
            dangling = ctx.rng.random() < 0.15
            todo.append((i, j, mapped, dangling, [ctx.rng.random() < 0.65 for _ in range(3)]))
    for i, j, mapped, dangling, flags in todo:
        fi, fj = world.files[i], world.files[j]
        mapping = f"basinmap{sorted(fi.maps)[0]}" if mapped else "same"
        loc = world.root / "nowhere" / "gone.rtdc" if dangling else fj.path
        ref = bn = None
        try:
            ref = dclab.new_dataset(fi.path)
            ref.ignore_basins(list(world.keys))
            rid = ref.get_measurement_identifier()
            bn = cls(loc, name="probe", measurement_identifier=rid, mapping=mapping,
                     mapping_referrer=ref, ignored_basins=list(world.keys))
            answers = [bool(bn.verify_basin(run_identifier=fl)) for fl in flags]
        except BaseException as e:  # noqa
            ctx.note(f"C14: direct verify probe raised {type(e).__name__} on this tree; skipped")
            ctx.stat("verify:direct-skipped")
            continue
        finally:
            for x in (bn, ref):
                try:
                    if x is not None:
                        x.close()
                except BaseException:  # noqa
                    pass
        want_rid = eff_rid(fi.rid)
        if rid != want_rid:
            # the identifier dclab derives is part of the modelled input
            lines.append("selftest-noop")
            expect.append({"kind": "literal", "want": f"identifier {want_rid!r}", "got": f"{rid!r}",
                           "replay": {"world": label, "file": i}})
            continue
        # property oracle, directly: a True answer to a call that asked for the identifier check
        # means equal identifiers (prefix for mapped) unless the referrer has none
        rb = eff_rid(fj.rid)
        match = rid is None or (rb is not None and (rid.startswith(rb) if mapped else rid == rb))
        if any(a and fl for a, fl in zip(answers, flags)) and not (match and not dangling):
            ctx.violation("spec", f"verify_basin accepts a basin of another measurement or an "
                                  f"unavailable one (referrer {rid!r}, basin {rb!r}, "
                                  f"relation {rid_relation(rid, rb)}, "
                                  f"mapped={mapped}, exists={not dangling}, flags={flags}, "
                                  f"answers={answers})",
                          {"world": label, "referrer": i, "basin": j, "mapped": mapped})
        lines.append(f"verify {rid_codes(fi.rid)} {'x' if dangling else rid_codes(fj.rid)} "
                     f"{int(mapped)} " + ";".join(f"{int(not dangling)}{int(fl)}" for fl in flags))
        expect.append({"kind": "verify", "answers": answers,
                       "replay": {"world": label, "referrer": i, "basin": j, "mapped": mapped,
                                  "dangling": dangling, "flags": flags,
                                  "rids": [fi.rid, fj.rid]}})
        ctx.stat("verify:direct")
        ctx.stat(f"verify:direct:{'match' if match else 'mismatch'}")
        if not dangling:
            ctx.stat(f"verify:relation:{rid_relation(rid, rb)}:{'mapped' if mapped else 'same'}")
    return lines, expect


def compare_answer(ex, got):
    """None when the model's answer line agrees with the observation, else (impl, depth)"""
    kind = ex.get("kind", "resolve")
    if kind == "basins":
        body = got[len("basins="):] if got.startswith("basins=") else None
        if body is None:
            return "parsable answer"
        mseq = [] if body == "-" else [e.split(":", 1)[1] for e in body.split(";")]
        return None if mseq == ex["seq"] else f"ds.basins order={ex['seq']}"
    if kind == "literal":
        return f"{ex['got']} (expected {ex['want']})"
    if kind == "verify":
        want = "res=" + ",".join(str(int(a)) for a in ex["answers"])
        return None if got == want else f"verify_basin answers {want}"
    try:
        mfeats, mdata, mopened, depth = parse_model(got)
    except Exception:
        return "parsable answer"
    ex["depth"] = depth
    ifeats = ex["feats"] if not isinstance(ex["feats"], list) else sorted(FID[x] for x in ex["feats"])
    idata = {FID[k]: v for k, v in ex["data"].items() if v is not None}
    want_in = {k: (k in ex["innate"] or FID[k] in mfeats) for k in FEATS}
    if ifeats != mfeats or idata != mdata:
        return f"feats={ifeats} data={idata}"
    if ex["in"] != want_in:
        return f"in={ex['in']}"
    if not ex["opened"] <= mopened:
        return f"opened={sorted(ex['opened'])}"
    return None


def all_worlds(ctx):
    """yield (label, files, root)"""
    for label, files, root in targeted_worlds():
        yield label, files, root
    yield "id-family", family_world(), []
    if ctx.thorough:
        k = 3
        pairs = [(a, b) for a in range(k) for b in range(k)]
        for bits in range(2 ** len(pairs)):
            edges = [p for n, p in enumerate(pairs) if bits >> n & 1]
            yield f"graph3-{bits}", graph_world(ctx.rng, k, edges), 0
    for n in range(ctx.n(250, 2500)):
        files = random_world(ctx.rng)
        yield f"rand{n}", files, random_roots(ctx.rng, files)


def random_roots(rng, files):
    """a history of roots: up to four files opened locally in random order (repeats allowed)
    and one through RTDC_HTTP somewhere in between"""
    k = len(files)
    roots = [(rng.randrange(k), False) for _ in range(min(k, 4))]
    roots.insert(rng.randrange(len(roots) + 1), (rng.randrange(k), True))
    roots.insert(rng.randrange(len(roots) + 1), (rng.randrange(k), "s3"))
    return roots


def run(ctx):
    env = Env(ctx)
    all_lines, all_expect = [], []
    try:
        for tag, (label, files, root) in enumerate(all_worlds(ctx)):
            if getattr(ctx, "hung", False):
                ctx.note("C14: exploration stopped after a non-terminating open")
                break
            if (time.process_time() > (110 if not ctx.thorough else 800)
                    and not os.environ.get("VERIF_NO_WALL_GUARD")):
                # (VERIF_NO_WALL_GUARD=1: explore the full seeded case list on a loaded machine)
                ctx.note(f"C14: CPU budget reached after {tag} worlds")
                break
            world = World(ctx, env, tag, files)
            try:
                world.write()
            except Exception as e:  # noqa
                ctx.note(f"C14: could not write world {label}: {e!r}"[:200])
                continue
            ml = world.model_lines()
            lines, expect = check_world(ctx, env, world, root, label)
            all_lines += ml + lines
            all_expect += [None] * len(ml) + expect
            if not getattr(ctx, "hung", False):
                lines, expect = verify_probe(ctx, env, world, label)
                all_lines += lines
                all_expect += expect
            if label.startswith("rand") and ctx.rng.random() < 0.3 and not getattr(ctx, "hung", False):
                # mutable file world: one file is replaced in place by another measurement (other
                # identifier / flavour, other data), then referrers are opened again in this
                # process; the model is re-run on the new world
                victim = ctx.rng.choice(files)
                victim.rid = rand_rid(ctx.rng, "mixed")
                victim.flavour = ctx.rng.choice(FLAVOURS)
                victim.shift = 10
                try:
                    world.write()
                except Exception as e:  # noqa
                    ctx.note(f"C14: could not rewrite world {label}: {e!r}"[:200])
                else:
                    ctx.stat("history:file-replaced")
                    ml = world.model_lines()
                    lines, expect = check_world(ctx, env, world,
                                                random_roots(ctx.rng, files)[:3], label + "+replaced")
                    all_lines += ml + lines
                    all_expect += [None] * len(ml) + expect
            for f in files:
                env.ses.blobs.pop(world.url_of(f), None)
            shutil.rmtree(world.root, ignore_errors=True)
    finally:
        env.close()
    if not ctx.lean_ok:
        return
    out = ctx.lean("C14", all_lines)
    diffs = []
    maxdepth = 0
    for ln, ex, got in zip(all_lines, all_expect, out):
        if ex is None:
            if got != "ok":
                diffs.append((ln, "ok", got, None))
            continue
        bad = compare_answer(ex, got)
        maxdepth = max(maxdepth, ex.get("depth", 0))
        if bad is not None:
            diffs.append((ln, bad, got, ex["replay"]))
    ctx.stat("model:max-depth", maxdepth)
    if diffs and not any(v["kind"] == "spec" for v in ctx.violations):
        extended_search(ctx)
    if diffs and not any(v["kind"] == "spec" for v in ctx.violations):
        d0 = diffs[0]
        ctx.violation("mirror", f"{len(diffs)} answers differ between dclab's basin resolution and "
                                f"the Lean model; first: '{d0[0]}' impl {d0[1]} model '{d0[2]}'"[:600],
                      {"correspondence": "Drive/C14.lean (Basin.resolve) vs RTDCBase.basins_retrieve / "
                                         "features_basin / _get_basin_feature_data",
                       "first": [str(x) for x in d0[:3]], "world": d0[3], "count": len(diffs)})
    elif diffs:
        ctx.stat("mirror-diffs-next-to-spec-violations", len(diffs))


def extended_search(ctx, seconds=60):
    """the model and the implementation differ but no property oracle failed: look for a failing
    input on the implementation alone with a larger budget (DESIGN section 4, case B)"""
    env = Env(ctx)
    t0 = time.time()
    n = 0
    try:
        while time.time() - t0 < (seconds if not ctx.thorough else 6 * seconds):
            files = random_world(ctx.rng)
            world = World(ctx, env, 100000 + n, files)
            n += 1
            try:
                world.write()
            except Exception:
                continue
            check_world(ctx, env, world, random_roots(ctx.rng, files), f"search{n}")
            shutil.rmtree(world.root, ignore_errors=True)
            if any(v["kind"] == "spec" for v in ctx.violations) or getattr(ctx, "hung", False):
                break
    finally:
        env.close()
    ctx.stat("extended-search-worlds", n)


def replay(ctx, data):
    rp = data.get("replay", data)
    if "files" not in rp:
        rp = rp.get("world") or {}
    if "files" not in rp:
        run(ctx)
        return bool(ctx.violations)
    files = []
    for x in rp["files"]:
        f = WFile(x["idx"], x["dir"], x["rid"], x["innate"], x.get("flavour", "vlen"))
        f.shift = x.get("shift", 0)
        f.relay, f.nocount = bool(x.get("relay")), bool(x.get("nocount"))
        f.maps = {int(k): v for k, v in x["maps"].items()}
        f.internal = x["internal"]
        f.defs = [dict(d, locs=[tuple(z) for z in d["locs"]]) for d in x["defs"]]
        files.append(f)
    env = Env(ctx)
    try:
        world = World(ctx, env, 0, files)
        world.write()
        roots = [tuple(r) for r in rp.get("roots") or [(rp["root"], False), (rp["root"], True)]]
        if not env.s3:
            roots = [(i, True if r == "s3" else r) for (i, r) in roots]
        lines, expect = check_world(ctx, env, world, roots, rp.get("world", "replay"))
        ml = world.model_lines()
    finally:
        env.close()
    if ctx.violations:
        for v in ctx.violations[:3]:
            print("  ", v["what"][:200])
        return True
    if ctx.lean_ok:
        out = ctx.lean("C14", ml + lines)
        for ex, got in zip(expect, out[len(ml):]):
            bad = compare_answer(ex, got)
            if bad is not None:
                print("   model differs:", bad, "<>", got)
                return True
    return False
