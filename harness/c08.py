"""C08 — compress, repack, condense and tdms2rtdc preserve dataset content.

Inputs come from a seeded HDF5 layout generator that writes with raw h5py (c08_util.gen_spec /
build) and, for a share of the cases, through dclab's writer.  Every task is run in-process:

* spec oracle (direct): the output shows the same stored features (raw h5py, all non-defective
  ones), logs, tables incl. attributes, metadata and basin definitions as the input, through
  dclab (`dclab_view`) and structurally; the input's sha256 is unchanged; compress / repack
  applied to their own output change no data; condense output scalar features equal `ds[feat]`;
* mirror: the output file item by item (layout, rows, attributes) equals the Lean model's
  `rtdcCopy` / `compress` / `condCopy` + `condOut` of the input's items.
"""
import json
import pathlib
import shutil

import numpy as np

from . import common, gen, c08_util as U

ID = "C08"
LEAN_MODULES = ["DclabModel.Properties.C08"]
RULE = ("seeded layouts: 1-4 scalar features (+image, +trace group with an optionally empty "
        "member) x storage in {contiguous, chunked, chunk>len, gzip, lzf, zstd-1/5/7, zstd-5 with "
        "chunk>len}; 0-3 logs (S100, S150, variable-length; empty, 99/100/130-byte and non-ASCII "
        "lines); 0-2 compound tables with attributes (also empty); 0-3 basins out of {file, second "
        "file, mapped, internal (scalar / scalar+mask)}; defective markers (aspect/ShapeIn 2.0.6, "
        "volume/dclab 0.36.0); unknown feature; stored / missing / wrong min-max-mean attributes; "
        "empty scalar / image datasets; 15% of the files written through RTDCWriter; 45% carry a "
        "software-version chain out of 13 (dclab entry last / in the middle / first, ShapeIn first "
        "or absent) with 1-4 of the defect-prone features (volume, time as float64/float32 with or "
        "without frame, inert_ratio_*, tilt, aspect), wide ROI and marker logs — which stored "
        "feature is defective is decided by an independent re-implementation of the documented "
        "rules (c08_util.defect_oracle), not by dclab; mapped file basins with the same event "
        "count as the referrer (permuted / duplicating map) or a longer origin; per run one "
        "contiguous image dataset of 17-33 MiB with a prime event count. Tasks: "
        "compress, compress again, repack with the four strip combinations, repack again, "
        "condense with the four store options, rtdc_copy called directly with random feature "
        "selection / strip options / meta_prefix. Output names: seeded names built from the input "
        "stem or another base, 0-2 extra dotted parts, suffix in {none, .rtdc, .h5, .RTDC, .rtdc~, "
        ".tdms, .x}, hidden names, same / other directory, by-stander files at every path a wrong "
        "suffix rule could hit; tasks compress/repack/condense/join; oracle: input exists with the "
        "same sha256, output at name+'.rtdc' (or refused when that is the input), by-standers "
        "untouched, no stray files. tdms2rtdc on a DIRECTORY of 2 (thorough: up to 4) different "
        "measurements, the one with the fewest features first: every innate feature of each source "
        "is in its output. Session 4: 35% of the float scalar features carry 1-3 of NaN / +inf / "
        "-inf (12% of those: all NaN); image / trace / internal-basin mask datasets are chunked with "
        "trailing chunk shapes in {full axis, proper divisor, NON-divisor (ragged edge chunks), "
        "ragged last axis only}; internal basins list 1-3 features (userdef1, userdef0, mask) in a "
        "seeded order, 40% of the file basins list theirs in descending order; k = 3-4 (thorough "
        "4-6) successive dclab-compress runs of one file (every run's command log must survive); "
        "skip_empty_image_events on 14 (thorough 64) combinations of (initial, final, first image "
        "empty, last image empty, n in {1,2,3,5}). Non-trivial = the layout has a dataset that is re-created (not "
        "object-copied) / the output name needs the suffix correction. distinct = distinct layout "
        "specs / (task, names).")
TRUSTED_BASE = [
    "modelled, not verified: HDF5 filters, h5py.h5o.copy, h5py iter_chunks covering the dataset, "
    "create_dataset defaults (auto-chunking), numpy astype('S<n>')",
    "harness/c08_util.py: read_items (raw h5py -> protocol items, row bytes -> tokens), dclab_view",
    "the chunk loop is modelled along the event axis only: chunk shapes that split the trailing axes "
    "(ragged edge chunks) are exercised by the generator, not modelled",
    "h5py refuses to create a link under an existing name (renameCollides; probed on every run); "
    "the suffixes of renamed command logs are read off the output (a NOTE is recorded when they are "
    "not dclab.util.hashfile of the run's input)",
    "numpy nanmin / nanmax / nanmean as reference for the summary attributes (tolerance 1e-11, "
    "1e-5 for float32)"]
ASSUMPTIONS = [
    "a feature is stored either in /events or in /basin_events, not in both",
    "variable-length HDF5 strings contain no NUL byte",
    "derived metadata of the generated inputs are consistent, so the exit hook of RTDCWriter in "
    "dclab-compress only brands the software version (O8); the harness checks that no other "
    "attribute than the O8 keys differs"]
NOT_PROVED = [
    "compress_idempotent_on_data / repack_idempotent_on_data keep the well-formedness (WF) of the "
    "first run's output as hypothesis (…_partial); the closure WF(input) -> WF(output) is FALSE "
    "(idempotence_needs_surviving_basin_features_witness: an internal basin that lists a feature "
    "stored as an empty dataset; replayed on the real code, candidate finding); what would make it "
    "true — every feature named by an internal basin is stored non-empty, known and not defective "
    "— is not proved to be preserved; NoUnknownFeature of the output IS proved "
    "(copy_output_has_no_unknown_feature); idempotence is checked on every generated file",
    "tdms2rtdc: which events are dropped is proved exactly (tdms2rtdc_exact / _count / _index) "
    "and skip_empty_image_events is compared with it on HDF5 data; the feature VALUES read from "
    ".tdms files are correspondence-only (directory conversion in the quick tier, single files in "
    "the thorough tier); the CorruptFrameWarning branch of the final-event test is not exercised",
    "command logs across generations: proved for files without command logs and for the "
    "'dclab-compress' log; the environment-dependent 'dclab-compress-warnings' logs are renamed by "
    "the same model function but not part of the history theorem; that run n+2 does NOT collide "
    "when the hashes are distinct is shown by example only (compress_equal_hash_collides is the "
    "general statement for equal hashes)",
    "input immutability: the path arithmetic of setup_task_paths is proved (setup_never_touches_"
    "input, setup_refuses_input_as_output); that the tasks open the input read-only is checked "
    "by sha256 only (shared trace property with C10)",
    "values of ancillary features written by condense (C06) are compared with ds[feat], not proved",
    "values of the completed min/max/mean attributes are an opaque token in the model "
    "(Env.summary); the harness compares them with numpy's NaN-aware summaries of the stored data"]

O8_ENC = {U.enc(k) for k in U.O8_KEYS}

TASK_OPTS = {"repack": [(False, False), (True, False), (False, True), (True, True)],
             "condense": [(True, True), (False, True), (True, False), (False, False)]}


def run_task(task, pin, pout, **kw):
    common.import_dclab()
    from dclab import cli
    try:
        import io
        import contextlib
        with contextlib.redirect_stdout(io.StringIO()):
            getattr(cli, task)(path_in=pin, path_out=pout, **kw)
        return None
    except Exception as e:  # noqa
        return f"{type(e).__name__}: {e}"[:200]


def is_cmd_log(name):
    return name.startswith("dclab-compress") or name.startswith("dclab-condense") \
        or name.startswith("dclab%2Dcompress")


OWN_WARNING_LOGS = ("dclab-compress-warnings", "dclab-condense-warnings")


def compare_items(model, actual, cmd_logs_free=True, ignore_attr_keys=()):
    """fieldwise comparison of the model's items with the actual output; returns differences"""
    diffs = []
    model = dict(model)
    for key in [k for k in model if k[0] == "D" and k[1].startswith("rewritten~")]:
        # a rewritten basin definition is stored under the hash of its new text
        cands = [k for k in actual if k[0] == "D" and k not in model and actual[k][:3] == model[key][:3]]
        if cands:
            model[cands[0]] = actual[cands[0]]
            del model[key]
            ignore_attr_keys = set(ignore_attr_keys) | O8_ENC      # written through RTDCWriter
    for key in sorted(set(model) | set(actual), key=str):
        if key[0] == "A" and key[1] in ignore_attr_keys:
            continue
        if key[0] == "L" and is_cmd_log(key[1].replace("%2D", "-")) and cmd_logs_free \
                and key in model and key in actual:
            continue
        if key not in model:
            if key[0] == "L" and cmd_logs_free and key[1].replace("%2D", "-") in OWN_WARNING_LOGS:
                # the task's own warnings log: written whenever *any* warning is recorded in the
                # process while the task runs (catch_warnings(record=True) + simplefilter("always")
                # also records e.g. a ResourceWarning of an object the garbage collector happens to
                # finalise inside that window), so its presence is not a function of the input.
                # It belongs to the "added command log" the property exempts.
                continue
            diffs.append(("extra in output", key))
            continue
        if key not in actual:
            diffs.append(("missing in output", key))
            continue
        m, a = model[key], actual[key]
        if key[0] in "EBLT":
            ml, al = m[0], a[0]
            if ml.startswith("c-"):                       # chunking chosen by h5py
                al = "c-" + al[al.index("z"):]
            if (ml, m[1]) != (al, a[1]):
                diffs.append(("data/layout", key, (ml, m[1][:60]), (al, a[1][:60])))
            if m[2] != a[2]:
                ma = dict(x.split("=") for x in m[2].split(",")) if m[2] != "-" else {}
                aa = dict(x.split("=") for x in a[2].split(",")) if a[2] != "-" else {}
                for k in set(ma) | set(aa):
                    if k in ma and ma[k].startswith("90000"):
                        if k not in aa:
                            diffs.append(("summary attr missing", key, k))
                        continue                          # value checked by the caller
                    if ma.get(k) != aa.get(k):
                        diffs.append(("attr", key, k, ma.get(k), aa.get(k)))
        elif key[0] == "D":
            if m[:3] != a[:3]:
                diffs.append(("basin", key, m[:3], a[:3]))
        elif m != a:
            diffs.append(("value", key, m, a))
    return diffs


SUMMARY_FUNCS = {"min": np.nanmin, "max": np.nanmax, "mean": np.nanmean}


def close(a, b, single):
    """equality of two summary values: NaN == NaN, inf == inf, a tolerance that only absorbs a
    different order of summation (the oracle must not depend on the algorithm used)"""
    try:
        return bool(np.isclose(float(a), float(b), rtol=1e-5 if single else 1e-11, atol=0,
                               equal_nan=True))
    except Exception:  # noqa
        return False


def summary_problems(src, out):
    """property oracle on the raw files: a min/max/mean attribute that the task ADDED to a scalar
    feature (the input did not carry it) must be the NaN-aware summary of the stored data —
    dclab serves these attributes as `ds[feat].min()/max()/mean()` instead of looking at the data"""
    import h5py
    import warnings
    bad = []
    with h5py.File(src, "r") as hi, h5py.File(out, "r") as ho:
        for name in ho.get("events", {}):
            d = ho["events"][name]
            if not isinstance(d, h5py.Dataset) or d.ndim != 1 or d.dtype.kind not in "fiu" \
                    or d.shape[0] == 0:
                continue
            sattrs = hi["events"][name].attrs if name in hi.get("events", {}) else {}
            data = None
            for k, fn in SUMMARY_FUNCS.items():
                if k in d.attrs and k not in sattrs:
                    if data is None:
                        data = d[:]
                    with warnings.catch_warnings():
                        warnings.simplefilter("ignore")
                        want = fn(data)
                    if not close(d.attrs[k], want, data.dtype.itemsize <= 4):
                        bad.append(("summary attribute", name, k, float(d.attrs[k]), float(want)))
    return bad


def raw_features(items):
    """stored feature data per name (non-empty datasets only)"""
    out = {}
    for key, val in items.items():
        if key[0] == "E" and val[1] != "-":
            out[(key[1], key[2])] = val[1] if val[0][-1] == "n" or True else None
    return out


def content_diff(src_items, out_items, flags, strip_basins=False, strip_logs=False, prefix="",
                 scalar_only=False, rename={}):
    """the property's own oracle on the raw structure: what of the input is not in the output"""
    probs = []
    fl = flags
    for key, val in src_items.items():
        if key[0] == "E":
            name = key[1]
            if fl.get(name, "0000")[3] == "1":
                continue                                   # defective on purpose (O6)
            if strip_basins and fl.get(name, "0000")[2] == "1":
                continue
            if scalar_only and fl.get(name, "0000")[1] != "1":
                continue
            if val[1] == "-":
                continue                                   # empty: no content
            o = out_items.get(key)
            if o is None or o[1] != val[1]:
                probs.append(("feature", name, key[2]))
            else:
                sa = dict(x.split("=") for x in val[2].split(",")) if val[2] != "-" else {}
                oa = dict(x.split("=") for x in o[2].split(",")) if o[2] != "-" else {}
                for k in sa:
                    if oa.get(k) != sa[k]:
                        probs.append(("feature attribute", name, k))
        elif key[0] == "L" and not strip_logs:
            if val[1] == "-":
                continue
            o = out_items.get(("L", rename.get(key[1], prefix + key[1]), "-"))
            if scalar_only and is_cmd_log(key[1]):
                continue
            if o is None or strip_nul(o[1]) != strip_nul(val[1]):
                probs.append(("log", key[1]))
        elif key[0] == "T":
            o = out_items.get(("T", prefix + key[1], "-"))
            if o is None or o[1] != val[1]:
                probs.append(("table", key[1]))
            elif o[2] != val[2]:
                probs.append(("table attributes", key[1]))
        elif key[0] == "A":
            if key[1] not in O8_ENC and out_items.get(key) != val:
                probs.append(("metadata", key[1]))
        elif key[0] == "D" and not strip_basins and not (scalar_only and val[0] == "1"):
            if not any(k[0] == "D" and v[:3] == val[:3] for k, v in out_items.items()):
                probs.append(("basin definition", key[1]))
        elif key[0] == "B" and not strip_basins:
            if val[1] == "-" or (scalar_only and fl.get(key[1], "0000")[1] != "1"):
                continue
            o = out_items.get(key)
            if o is None or o[1] != val[1]:
                probs.append(("internal basin data", key[1]))
    if strip_logs and any(k[0] == "L" and not is_cmd_log(k[1]) for k in out_items):
        probs.append(("logs not stripped",))
    if strip_basins and any(k[0] in "DB" for k in out_items):
        probs.append(("basins not stripped",))
    return probs


def strip_nul(rows):
    out = []
    for r in rows.split(";"):
        b = r.split(".")
        while b and b[-1] == "0":
            b.pop()
        out.append(".".join(b) or "e")
    return ";".join(out)


def view_diff(vin, vout, task, flags):
    """differences between two dclab views, modulo what the task is allowed to change"""
    probs = []
    for f, val in vin["feats"].items():
        if isinstance(val, tuple) and val[1] and val[1][0] == 0:
            continue                                  # empty dataset: no content
        if vout["feats"].get(f) != val:
            probs.append(("dclab feature", f))
    for f, sm in vin.get("summ", {}).items():
        so = vout.get("summ", {}).get(f)
        if so is None or sm is None:
            continue
        for k, a, b in zip(("min", "max", "mean"), sm[1], so[1]):
            if not close(a, b, sm[0]):
                probs.append(("dclab feature summary", f, k, a, b))
    for k, lines in vin["logs"].items():
        if is_cmd_log(k):
            continue
        if vout["logs"].get(k) != lines:
            probs.append(("dclab log", k))
    for k, t in vin["tables"].items():
        if k not in vout["tables"] or vout["tables"][k][0] != t[0]:
            probs.append(("dclab table", k))
        elif vout["tables"][k][1] != t[1]:
            probs.append(("dclab table attributes", k))
    for sec, kv in vin["config"].items():
        for k, v in kv.items():
            if f"{sec}:{k}" in U.O8_KEYS:
                continue
            if vout["config"].get(sec, {}).get(k) != v:
                probs.append(("dclab metadata", sec, k))
    if vin["basins"] != vout["basins"]:
        probs.append(("dclab basins",))
    return probs


def one_case(ctx, idx, spec, lines, expects):
    """run all tasks on one layout; append protocol lines and expectations; return spec problems"""
    dclab = common.import_dclab()
    from dclab import util
    wd = ctx.workdir / f"c{idx}"
    if wd.exists():
        shutil.rmtree(wd)
    wd.mkdir()
    src = wd / "in.rtdc"
    probs = []
    try:
        U.build(spec, src, wd)
    except Exception as e:  # noqa
        ctx.note(f"layout generator failed on a spec: {e!r}"[:200])
        shutil.rmtree(wd, ignore_errors=True)
        return probs
    tok = U.Tok()
    sha0 = U.sha256(src)
    src_items = U.read_items(src, tok)
    proto = U.proto_lines(src, src_items)
    flags = {ln.split()[1]: ln.split()[2] for ln in proto if ln.startswith("flags ")}
    has_unknown = any(f[0] == "0" for f in flags.values())
    n_basins = sum(1 for k in src_items if k[0] == "D")
    recreated = any(k[0] in "EBLTD" and "z0" in (v[0] if k[0] != "D" else v[3])
                    for k, v in src_items.items() if k[0] in "EBLTD")
    ctx.stat("datasets_recreated" if recreated else "all_object_copied")
    lines += proto
    expects += [None] * len(proto)
    try:
        vin = U.dclab_view(src)
    except Exception as e:  # noqa
        vin = None
        ctx.stat("input_not_openable:" + type(e).__name__)
        ctx.note(f"an input could not be opened through dclab for the view comparison: {e!r}"[:160])

    def finish(task, out, err, model_cmd, strip=(False, False), second_of=None, rename=None):
        """register one task result: spec checks now, mirror data for later"""
        nonlocal probs
        label = f"{task}{strip if task == 'repack' else ''}"
        exp = {"task": label, "err": err, "spec": spec}
        if err is None:
            try:
                out_items = U.read_items(out, tok)
            except Exception as e:  # noqa
                probs.append(f"{label}: the output file cannot be read back structurally: {e!r}"[:200])
                exp["err"] = err = "unreadable output"
                exp["unreadable"] = True
        if err is None:
            exp["out_items"] = out_items
            exp["out_path"] = None
            try:    # the task's own warnings log is environment dependent: keep a record of it
                import h5py
                with h5py.File(out, "r") as ho:
                    for wl in OWN_WARNING_LOGS:
                        if wl in ho.get("logs", {}):
                            txt = " | ".join(x.decode(errors="replace") if isinstance(x, bytes)
                                             else str(x) for x in ho["logs"][wl][:6])
                            ctx.stats["own_warnings_logs"] = ctx.stats.get("own_warnings_logs", 0) + 1
                            ctx.stats.setdefault("own_warnings_sample", txt[:300])
            except Exception:  # noqa
                pass
            if second_of is None:
                cd = content_diff(src_items, out_items, flags, strip_basins=strip[0],
                                  strip_logs=strip[1], scalar_only=(task == "condense"),
                                  rename=rename or {})
                unk = [p for p in cd if p[0] == "feature" and flags.get(p[1], "1")[0] == "0"]
                if unk:
                    ctx.known("F23", "rtdc_copy silently drops features unknown to dclab "
                                     "(input has events/peter with feature_exists false)")
                cd = [p for p in cd if p not in unk]
                if cd:
                    probs.append(f"{label}: output differs from input in {cd[:3]}")
                try:
                    sp = summary_problems(src, out)
                    ctx.stat("summary_oracle_runs")
                except Exception as e:  # noqa
                    sp = []
                    ctx.note(f"summary oracle could not read an output: {e!r}"[:160])
                if sp:
                    probs.append(f"{label}: output differs from input in {sp[:2]}: the stored "
                                 f"summary is not the NaN-aware min/max/mean of the feature data")
                if vin is not None and task != "condense":
                    try:
                        vout = U.dclab_view(out)
                        vd = view_diff(vin, vout, task, flags)
                        if strip[0]:
                            vd = [p for p in vd if p[0] != "dclab basins" and not (
                                p[0] == "dclab feature" and flags.get(p[1], "0000")[2] == "1")]
                        if strip[1]:
                            vd = [p for p in vd if p[0] != "dclab log"]
                            import h5py
                            with h5py.File(out, "r") as ho:
                                newly = [f for f in ho["events"] if U.defect_oracle(ho, f)
                                         and flags.get(U.enc(f), "0000")[3] == "0"]
                            if any(p[0] == "dclab feature" and p[1] in newly for p in vd):
                                ctx.note("O11: stripping the logs removes the marker logs "
                                         "('dclab_issue_141', 'shapein-acquisition') that tell dclab "
                                         "a stored volume / inert_ratio feature is NOT defective; the "
                                         "data are copied, but dclab hides the feature in the "
                                         "log-stripped copy")
                            vd = [p for p in vd if not (p[0] == "dclab feature" and p[1] in newly)]
                        if vd:
                            probs.append(f"{label}: through dclab the output differs: {vd[:3]}")
                    except Exception as e:  # noqa
                        probs.append(f"{label}: output cannot be opened by dclab: {e!r}"[:200])
            else:
                first = second_of
                d2 = [k for k in set(first) | set(out_items)
                      if k[0] in "EBTDGH" and first.get(k) != out_items.get(k)]
                d2 += [k for k in first if k[0] == "L" and not is_cmd_log(k[1])
                       and first.get(k) != out_items.get(k)]
                if d2:
                    probs.append(f"{task} applied to its own output changes {sorted(d2, key=str)[:3]}")
            bad = U.sha256(src) != sha0
            if bad:
                probs.append(f"{label}: the input file was modified")
        lines.append(model_cmd)
        expects.append(exp)
        return exp

    # ---- compress, twice
    out1 = wd / "cmp1.rtdc"
    md5 = util.hashfile(src, count=80)
    e1 = finish("compress", out1, run_task("compress", src, out1), f"compress {md5}",
                rename={n: f"{n}_{md5}" for n in ("dclab-compress", "dclab-compress-warnings")})
    lines.append("oldbasinraises")
    expects.append({"task": "oldbasin", "n_basins": n_basins})
    if e1["err"] is None:
        out2 = wd / "cmp2.rtdc"
        tok2_items = e1["out_items"]
        proto2 = U.proto_lines(out1, tok2_items)
        err2 = run_task("compress", out1, out2)
        lines += proto2
        expects += [None] * len(proto2)
        finish("compress", out2, err2, f"compress {util.hashfile(out1, count=80)}",
               second_of=tok2_items)
        lines += proto                                  # back to the source file
        expects += [None] * len(proto)
    # ---- repack with strip options, and once on its own output
    for sb, sl in TASK_OPTS["repack"] if (idx % 2 == 0 or ctx.thorough) else [(False, False), (True, True)]:
        out = wd / f"rp{int(sb)}{int(sl)}.rtdc"
        err = run_task("repack", src, out, strip_basins=sb, strip_logs=sl)
        e = finish("repack", out, err, f"copy all {int(not sb)} {int(not sl)} 1 - 1", strip=(sb, sl))
        if e["err"] is None and (sb, sl) == (False, False):
            outb = wd / "rp_again.rtdc"
            errb = run_task("repack", out, outb)
            if errb is None:
                try:
                    ib = U.read_items(outb, tok)
                except Exception:  # noqa
                    ib = {}
                d2 = [k for k in set(ib) | set(e["out_items"]) if ib.get(k) != e["out_items"].get(k)]
                if d2:
                    probs.append(f"repack applied to its own output changes {sorted(d2, key=str)[:3]}")
            else:
                probs.append(f"repack of a repacked file raised {errb}")
    # ---- rtdc_copy called directly: feature selections and meta_prefix (as used by join/export)
    ev_names = sorted({k[1] for k in src_items if k[0] == "E"})
    sel = ctx.rng.choice(["all", "scalar", "none", "list"])
    chosen = ctx.rng.sample(ev_names, ctx.rng.randint(0, len(ev_names))) if sel == "list" else None
    ib, il, it = (ctx.rng.random() < 0.7, ctx.rng.random() < 0.8, ctx.rng.random() < 0.8)
    prefix = ctx.rng.choice(["", "src_", "src-#1_"])
    outd = wd / "direct.rtdc"
    errd = None
    try:
        import h5py
        from dclab.rtdc_dataset import rtdc_copy
        with h5py.File(src, "r") as h, h5py.File(outd, "w") as ho:
            rtdc_copy(h, ho, features=list(chosen) if sel == "list" else sel, include_basins=ib,
                      include_logs=il, include_tables=it, meta_prefix=prefix)
    except Exception as e:  # noqa
        errd = f"{type(e).__name__}: {e}"[:200]
    msel = sel if sel != "list" else "list~" + (",".join(chosen) or "-")
    ed = {"task": f"rtdc_copy({msel},{int(ib)}{int(il)}{int(it)},{prefix!r})", "err": errd, "spec": spec}
    if errd is None:
        try:
            ed["out_items"] = U.read_items(outd, tok)
            part = {k: v for k, v in src_items.items()
                    if (k[0] == "L" and il) or (k[0] == "T" and it) or k[0] == "A"}
            cd = content_diff(part, ed["out_items"], flags, prefix=U.enc(prefix) if prefix else "")
            if cd:
                probs.append(f"rtdc_copy(meta_prefix={prefix!r}): output differs from input in {cd[:3]}")
        except Exception as e:  # noqa
            probs.append(f"rtdc_copy: unreadable output {e!r}"[:200])
            ed["err"] = "unreadable output"
            ed["unreadable"] = True
    lines.append(f"copy {msel} {int(ib)} {int(il)} {int(it)} {U.enc(prefix) if prefix else '-'} 1")
    expects.append(ed)
    ctx.stat("direct_copy:" + sel)
    # ---- condense
    for sbf, saf in TASK_OPTS["condense"] if (idx % 3 == 0 or ctx.thorough) else [(True, True)]:
        out = wd / f"cd{int(sbf)}{int(saf)}.rtdc"
        info = None
        try:
            with dclab.new_dataset(src, enable_basins=sbf) as ds:
                info = {"scalar": list(ds.features_scalar), "loaded": list(ds.features_loaded),
                        "basin": list(ds.features_basin), "anc": list(ds.features_ancillary)}
        except Exception as e:  # noqa
            ctx.stat("condense_input_not_openable")
        err = run_task("condense", src, out, store_basin_features=sbf, store_ancillary_features=saf)
        if info is None:
            continue
        j = lambda xs: ",".join(U.enc(x) for x in xs) or "-"  # noqa: E731
        e = finish("condense", out, err,
                   f"condense {j(info['scalar'])} {j(info['loaded'])} {j(info['basin'])} "
                   f"{j(info['anc'])} {int(sbf)} {int(saf)}")
        e["cond"] = (sbf, saf)
        if e["err"] is None:
            # property oracle: every scalar feature of the output equals ds[feat] of the input
            try:
                with dclab.new_dataset(src, enable_basins=sbf) as ds, \
                        dclab.new_dataset(out, enable_basins=False) as do:
                    outs = [f for f in do.features_innate if f in do.features_scalar]
                    e["out_scalar"] = sorted(outs)
                    for f in outs:
                        if f not in ds:
                            probs.append(f"condense{(sbf, saf)}: output feature {f} not in input")
                            continue
                        if not np.array_equal(np.asarray(ds[f][:], dtype=float),
                                              np.asarray(do[f][:], dtype=float), equal_nan=True):
                            probs.append(f"condense{(sbf, saf)}: feature {f} differs from ds[{f}]")
                    must = [f for f in info["loaded"] if f in info["scalar"]]
                    for f in must:
                        if f not in outs and f not in do.features:
                            probs.append(f"condense{(sbf, saf)}: loaded scalar feature {f} missing")
            except Exception as ex:  # noqa
                probs.append(f"condense{(sbf, saf)}: cannot compare output: {ex!r}"[:200])
    shutil.rmtree(wd, ignore_errors=True)
    return probs


def classify_error(ctx, exp, answer):
    """an exception of a task: known finding, defect, or agreement with the model"""
    err = exp["err"]
    spec = exp["spec"]
    if answer == "raises":
        if err is not None and err.startswith("AttributeError"):
            ctx.known("F27", "an empty scalar feature dataset in /events makes rtdc_copy raise "
                             "AttributeError (h5ds_copy returns None for empty datasets)")
            return None
        return ("mirror", f"model says rtdc_copy raises (F27) but {exp['task']} gave {err}")
    if exp.get("unreadable"):
        return None
    if err is not None:
        return ("spec", f"{exp['task']} raised {err}")
    return None


def judge(ctx, lines, expects, out):
    spec_probs, mirror = [], []
    for ln, exp, ans in zip(lines, expects, out):
        if exp is None:
            continue
        if exp["task"] == "oldbasin":
            if ans == "1":
                ctx.stat("inputs_hitting_F26_before_fix")
            continue
        c = classify_error(ctx, exp, ans)
        if c is not None:
            (spec_probs if c[0] == "spec" else mirror).append((c[1], exp["spec"]))
            continue
        if exp["err"] is not None or ans == "raises":
            continue
        if exp["task"] == "condense":
            head, _, rest = ans.partition(" A:")
            parts = dict(p.split("=", 1) for p in head.split(" ") if "=" in p)
            mout = sorted(x for x in parts.get("out", "").split(",") if x)
            if "out_scalar" in exp and mout != [U.enc(x) for x in exp["out_scalar"]]:
                mirror.append((f"condense{exp['cond']}: scalar features of the output "
                               f"{exp['out_scalar']} vs model {mout}", exp["spec"]))
            if parts.get("oldraises") == "1":
                ctx.stat("inputs_hitting_F28_before_fix")
            continue
        model = U.parse_items(ans)
        ctx.stat("task_outputs_compared_with_model")
        ctx.stat("items_compared_with_model", len(model))
        diffs = compare_items(model, exp["out_items"],
                              ignore_attr_keys={U.enc(k) for k in U.O8_KEYS}
                              if exp["task"] == "compress" else ())
        if diffs:
            mirror.append((f"{exp['task']}: output differs from the model: {diffs[:3]}", exp["spec"]))
    return spec_probs, mirror


def fixed_cases():
    """recorded inputs of the findings"""
    base = {"n": 6, "feats": [{"name": "deform", "kind": "scalar", "storage": "contig", "chunk": 2,
                               "attrs": [], "wrongattr": False}],
            "unknown": False, "defective": None, "emptyscalar": False, "emptyimage": False,
            "logs": [], "tables": [], "basins": [], "writer": False}
    out = []
    s = json.loads(json.dumps(base))
    s["tables"] = [{"name": "tab0", "rows": 4, "attrs": {"COLOR_a": "red"}, "storage": "contig", "chunk": 2}]
    out.append(s)                                                      # F09
    s = json.loads(json.dumps(base))
    s["basins"] = [{"kind": "file", "storage": "contig", "nonscalar": False},
                   {"kind": "file2", "storage": "zstd5", "nonscalar": False}]
    out.append(s)                                                      # F26
    s = json.loads(json.dumps(base))
    s["unknown"] = True
    out.append(s)                                                      # F23
    s = json.loads(json.dumps(base))
    s["emptyscalar"] = True
    out.append(s)                                                      # F27
    s = json.loads(json.dumps(base))
    s["feats"] = [{"name": "image", "kind": "image", "storage": "chunk", "chunk": 2}]
    out.append(s)                                                      # F28
    return out


def big_spec(rng):
    """one contiguous (non-chunked) dataset of more than 16 MiB with a prime event count"""
    n = rng.choice([4513, 5003, 5501, 6007, 7001, 8009])
    shape = rng.choice([[64, 64], [60, 72]])
    return {"n": n, "feats": [{"name": "deform", "kind": "scalar", "storage": "contig", "chunk": 2,
                               "attrs": [], "wrongattr": False}],
            "big": shape, "unknown": False, "defective": None, "emptyscalar": False,
            "emptyimage": False, "logs": [], "tables": [], "basins": [], "writer": False}


def run(ctx, only=None):
    specs = only if only is not None else fixed_cases() + [big_spec(ctx.rng)] + [
        U.gen_spec(ctx.rng, ctx.thorough) for _ in range(ctx.n(95, 700))]
    lines, expects = [], []
    all_probs = []
    for i, spec in enumerate(specs):
        probs = one_case(ctx, i, spec, lines, expects)
        ctx.case(json.dumps(spec, sort_keys=True), nontrivial=True,
                 sample={"layout": spec} if i == len(fixed_cases()) else None)
        for f in spec["feats"]:
            ctx.stat("storage:" + f["storage"])
        for b in spec["basins"]:
            ctx.stat("basin:" + b["kind"])
        for lg in spec["logs"]:
            ctx.stat("log:" + lg["kind"] + (":empty" if not lg["lines"] else ""))
        ctx.stat("tables", len(spec["tables"]))
        for p in probs:
            all_probs.append((p, spec))
    out = None
    if ctx.lean_ok and lines:
        out = ctx.lean("C08", lines)
    spec_probs, mirror = ([], [])
    if out is not None:
        spec_probs, mirror = judge(ctx, lines, expects, out)
    else:
        for exp in expects:
            if exp is not None and exp.get("err") and not exp["err"].startswith("AttributeError"):
                spec_probs.append((f"{exp['task']} raised {exp['err']}", exp["spec"]))
    all_probs += spec_probs
    import re
    reported = set()
    for what, spec in all_probs:
        if " raised " in what:
            key = "raised " + re.sub(r"[0-9]+", "#", what.split(" raised ", 1)[1])[:40]
        else:
            m = re.search(r"\('([a-z ]+)'", what)
            key = (m.group(1).replace("dclab ", "") if m else
                   re.sub(r"[0-9]+", "#", what.split(": ", 1)[-1])[:42])
            key = {"table": "table attributes"}.get(key, key)
        if key in reported or len(reported) >= 5:
            continue
        reported.add(key)
        small = shrink(ctx, spec, what) if only is None else spec
        ctx.violation("spec", what, {"layout": small})
    if mirror and not all_probs:
        ctx.violation("mirror", f"{len(mirror)} task outputs differ from the Lean model; first: "
                                f"{mirror[0][0]}"[:600],
                      {"correspondence": "Drive/C08.lean (rtdcCopy / compress / condense) vs "
                                         "dclab.cli tasks", "layout": mirror[0][1]})
    if only is None:
        n0 = len(ctx.violations)
        paths_part(ctx)
        known_f75(ctx)
        gens_part(ctx)
        skip_part(ctx)
        tdms_dir_part(ctx)
        if ctx.thorough:
            tdms_part(ctx)
        return bool(all_probs) or len(ctx.violations) > n0
    return bool(all_probs)


def known_f75(ctx):
    """Recorded finding F75 (same root cause as F27): an internal basin whose definition lists a
    feature stored as an EMPTY dataset in /basin_events.  The first compress/repack copies the
    definition but skips the empty dataset; the second run rewrites the definition - the task
    applied to its own output changes data.  Replayed once per run."""
    import json as _json
    import h5py
    dclab = common.import_dclab()
    from dclab import cli
    try:
        from dclab.util import hashobj
    except Exception:  # noqa
        ctx.note("F75 replay skipped: dclab.util.hashobj not importable")
        return
    wd = ctx.workdir / "f75"
    wd.mkdir(exist_ok=True)
    pin = wd / "in.rtdc"
    gen.make_rtdc(pin, range(6), feats=["deform", "area_um"], rid="x")
    with h5py.File(pin, "a") as h:
        be = h.require_group("basin_events")
        be.create_dataset("userdef1", data=np.arange(3, dtype=float))
        be.create_dataset("userdef0", shape=(0,), dtype=float)
        h["events"].create_dataset("basinmap0", data=np.array([0, 1, 2, 0, 1, 2], dtype=np.uint64))
        bd = {"description": None, "format": "h5dataset", "name": "b-internal", "type": "internal",
              "features": ["userdef0", "userdef1"], "mapping": "basinmap0",
              "paths": ["basin_events"]}
        lines = _json.dumps(bd, indent=2).split("\n")
        h.require_group("basins").create_dataset(
            hashobj(lines), data=np.array([x.encode() for x in lines], dtype="S100"))

    def defs(path):
        with h5py.File(path) as h:
            return sorted((k, tuple(_json.loads(" ".join(x.decode() for x in h["basins"][k][:]))
                                    .get("features") or ())) for k in h.get("basins", {}))

    changed = []
    for task in ("compress", "repack"):
        a, b = wd / f"{task}1.rtdc", wd / f"{task}2.rtdc"
        try:
            getattr(cli, task)(path_in=pin, path_out=a)
            getattr(cli, task)(path_in=a, path_out=b)
        except Exception as e:  # noqa
            ctx.note(f"F75 replay: {task} raised {type(e).__name__} on the recorded input")
            continue
        if defs(a) != defs(b):
            changed.append(task)
    ctx.stat("F75_replayed")
    if changed:
        ctx.known("F75", "an internal basin definition that lists a feature stored as an empty dataset "
                         f"in /basin_events: {'/'.join(changed)} applied to its own output rewrites the "
                         "basin definition (the first run skipped the empty dataset, same root cause "
                         "as F27)")
    else:
        ctx.note("F75 (idempotence with an empty internal-basin dataset) no longer reproduces")


def shrink(ctx, spec, what):
    """drop parts of the layout while the same kind of problem remains"""
    kind = what.split(":")[0]

    def fails(s):
        lines, expects = [], []
        try:
            probs = one_case(ctx, 9000, s, lines, expects)
        except Exception:  # noqa
            return False
        errs = [e for e in expects if e is not None and e.get("err")
                and not e["err"].startswith("AttributeError")]
        return any(p.split(":")[0] == kind for p in probs) or (
            "raised" in what and bool(errs))
    cur = json.loads(json.dumps(spec))
    for field in ("logs", "tables", "basins", "feats"):
        for i in range(len(cur[field]) - 1, -1, -1):
            cand = json.loads(json.dumps(cur))
            del cand[field][i]
            if field == "feats" and not cand["feats"]:
                continue
            if fails(cand):
                cur = cand
    for flag in ("unknown", "emptyscalar", "emptyimage", "writer"):
        if cur.get(flag):
            cand = dict(cur, **{flag: False})
            if fails(cand):
                cur = cand
    if cur.get("defective"):
        cand = dict(cur, defective=None)
        if fails(cand):
            cur = cand
    return cur


# ---------------------------------------------------------------------------------------
# output names: the input is never touched, whatever the output is called
def gen_out_name(rng, stem):
    base = rng.choice([stem, stem, stem, "out", "res_" + stem, "M001"])
    extras = rng.sample(["compressed", "v1", "0", "04_out", "tmp", "rtdc", "RTDC", "cond", ""],
                        rng.choice([0, 0, 1, 1, 2]))
    suffix = rng.choice(["", "", ".rtdc", ".rtdc", ".h5", ".RTDC", ".rtdc~", ".tdms", ".x"])
    name = ".".join([base] + extras) + suffix
    if rng.random() < 0.06:
        name = "." + name
    return name


def expected_out(po):
    """the documented rule: '.rtdc' is appended unless the name already ends with it"""
    return po if po.suffix == ".rtdc" else po.with_name(po.name + ".rtdc")


def quick_content(path):
    import h5py
    with h5py.File(path, "r") as h:
        return {k: h["events"][k][:].tobytes() for k in h["events"]
                if isinstance(h["events"][k], h5py.Dataset)}


def paths_part(ctx):
    common.import_dclab()
    from dclab import cli
    lines, wants = [], []
    for c in range(ctx.n(40, 400)):
        rng = ctx.rng
        wd = ctx.workdir / f"p{c}"
        if wd.exists():
            shutil.rmtree(wd)
        wd.mkdir()
        stem = rng.choice(["x", "M001_sample", "data.v2", "a b"])
        task = rng.choice(["compress", "repack", "condense", "join"])
        # an input may carry any suffix when the suffix check is off — including the suffix of the
        # task's own temporary file (finding F64)
        insuf = ".rtdc"
        if task != "join" and rng.random() < 0.25:
            insuf = rng.choice([".rtdc~", ".rtdc~", ".h5", ".rtdc.bak"])
        pin = wd / (stem + insuf)
        gen.make_rtdc(pin, range(6), feats=["deform", "area_um"], rid=U.RID)
        name = gen_out_name(rng, stem)
        if insuf == ".rtdc~" and rng.random() < 0.6:
            name = rng.choice([stem, stem + ".rtdc"])       # temporary path == the input
        same = rng.random() < (0.9 if insuf == ".rtdc~" else 0.7)
        odir = wd if same else wd / "other"
        odir.mkdir(exist_ok=True)
        po = odir / name
        exp = expected_out(po)
        refuse = pin.resolve() in (exp.resolve(), exp.with_suffix(".rtdc~").resolve())
        # bystanders: files that a wrong suffix rule could hit
        by = {}
        for cand in {po.with_suffix(".rtdc"), odir / (name.split(".")[0] + ".rtdc"),
                     odir / (stem + ".rtdc"), exp}:
            if cand.resolve() != pin.resolve() and rng.random() < 0.7:
                gen.make_rtdc(cand, range(20, 24), feats=["deform"], rid="bystander")
                by[cand] = U.sha256(cand)
        sha0 = U.sha256(pin)
        content0 = quick_content(pin)
        before = {p for p in wd.rglob("*") if p.is_file()}
        err, ret = None, None
        try:
            import io
            import contextlib
            with contextlib.redirect_stdout(io.StringIO()):
                if task == "join":
                    pin2 = wd / "second_input.rtdc"
                    gen.make_rtdc(pin2, range(30, 34), feats=["deform", "area_um"], rid=U.RID,
                                  meta={"experiment": {"time": "11:00:00", "run index": 2}})
                    before.add(pin2)
                    ret = cli.join(paths_in=[pin, pin2], path_out=po, ret_path=True)
                elif insuf != ".rtdc":
                    ret = getattr(cli, task)(path_in=pin, path_out=po, ret_path=True,
                                             check_suffix=False)
                else:
                    ret = getattr(cli, task)(path_in=pin, path_out=po, ret_path=True)
        except BaseException as e:  # noqa
            err = f"{type(e).__name__}: {e}"[:160]
        label = f"{task}(path_in={pin.name!r}, path_out={'' if same else 'other/'}{name!r})"
        ctx.case(("paths", task, stem, insuf, name, same), nontrivial=po.suffix != ".rtdc")
        if insuf != ".rtdc":
            ctx.stat("paths:input_suffix" + insuf)
        ctx.stat("paths:" + ("refused" if refuse else "suffix_ok" if po.suffix == ".rtdc"
                             else "suffix_corrected"))
        probs = []
        if not pin.exists():
            probs.append(f"{label}: the INPUT file was deleted")
        elif U.sha256(pin) != sha0:
            probs.append(f"{label}: the input file was modified")
        if refuse:
            if err is None:
                probs.append(f"{label}: output or temporary path resolves to the input but the "
                             f"task did not refuse")
        elif err is not None:
            probs.append(f"{label} raised {err}")
        else:
            if pathlib.Path(ret).resolve() != exp.resolve() or not exp.exists():
                probs.append(f"{label}: output written to {pathlib.Path(ret).name!r}, documented "
                             f"location is {exp.name!r}")
            elif task != "join" and any(quick_content(exp).get(k) != v for k, v in content0.items()):
                probs.append(f"{label}: output features differ from the input")
            after = {p for p in wd.rglob("*") if p.is_file()}
            stray = sorted(str(p.relative_to(wd)) for p in after - before - {exp})
            if stray:
                probs.append(f"{label}: unexpected files {stray[:3]}")
        for cand, h in by.items():
            if cand.resolve() in (exp.resolve(), exp.with_suffix(".rtdc~").resolve()):
                continue
            if not cand.exists() or U.sha256(cand) != h:
                probs.append(f"{label}: the unrelated file {cand.name!r} was deleted or changed")
        for pr in probs[:2]:
            ctx.violation("spec", pr, {"paths": {"task": task, "stem": stem, "name": name,
                                                 "same_dir": same, "insuf": insuf}})
        if "." in stem or " " in stem or " " in name:
            pass
        lines.append(f"paths {(stem + insuf).replace(' ', '_')} {name.replace(' ', '_')} {int(same)}")
        wants.append((label, "refused" if err is not None and refuse else
                      None if err is not None else "out=" + pathlib.Path(ret).name.replace(" ", "_")))
        shutil.rmtree(wd, ignore_errors=True)
    if ctx.lean_ok and lines and not ctx.violations:
        out = ctx.lean("C08", lines)
        for (label, want), ans in zip(wants, out):
            if want is not None and ans.split(" temp=")[0] != want:
                ctx.violation("mirror", f"{label}: task paths differ from the model "
                                        f"(impl {want}, model {ans})",
                              {"correspondence": "Copy.setupPaths vs cli.common.setup_task_paths"})
                break


# ---------------------------------------------------------------------------------------
# tdms2rtdc on a directory of heterogeneous measurements
TDMS_POOL = ["fmt-tdms_shapein-2.0.1-no-image_2017.zip", "fmt-tdms_2fl-no-image_2017.zip",
             "fmt-tdms_minimal_2016.zip", "fmt-tdms_fl_2015.zip"]


def tdms_dir_part(ctx):
    dclab = common.import_dclab()
    from dclab import cli
    import zipfile
    import io
    import contextlib
    data = common.REPO / "tests" / "data"
    pool = [z for z in TDMS_POOL if (data / z).exists()]
    if len(pool) < 2:
        ctx.note("tdms fixtures not found; directory conversion not exercised")
        return
    k = 2 if not ctx.thorough else min(4, len(pool))
    chosen = ctx.rng.sample(pool, k)
    wd = ctx.workdir / "tdmsdir"
    src, dst = wd / "in", wd / "out"
    innate = {}
    for z in chosen:
        d = wd / "unz" / z[:-4]
        d.mkdir(parents=True, exist_ok=True)
        zipfile.ZipFile(data / z).extractall(d)
        with dclab.new_dataset(sorted(d.rglob("*.tdms"))[0]) as ds:
            innate[z] = list(ds.features_innate)
    # adversarial order: the measurement with the fewest features is converted first
    order = sorted(chosen, key=lambda z: (len(innate[z]), z))
    if ctx.thorough and ctx.rng.random() < 0.5:
        ctx.rng.shuffle(order)
    for i, z in enumerate(order):
        shutil.copytree(wd / "unz" / z[:-4], src / f"{i:02d}_{z[9:-4]}")
    shas = {p: U.sha256(p) for p in src.rglob("*") if p.is_file()}
    try:
        with contextlib.redirect_stdout(io.StringIO()):
            cli.tdms2rtdc(path_tdms=src, path_rtdc=dst, compute_features=False, verbose=False)
    except Exception as e:  # noqa
        ctx.violation("spec", f"tdms2rtdc on a directory raised {type(e).__name__}: {e}"[:200],
                      {"tdms_dir": order})
        return
    lines = ["bulk " + " ".join(",".join(innate[z]) for z in order)]
    got = []
    for i, z in enumerate(order):
        sub = src / f"{i:02d}_{z[9:-4]}"
        for tdms in sorted(sub.rglob("*.tdms")):
            if tdms.name.endswith("_traces.tdms"):
                continue
            out = dst / tdms.relative_to(src).with_suffix(".rtdc")
            ctx.case(("tdmsdir", z, i), nontrivial=True)
            ctx.stat("tdms_dir_measurements")
            if not out.exists():
                ctx.violation("spec", f"tdms2rtdc (directory): no output for {z}", {"tdms_dir": order})
                continue
            with dclab.new_dataset(tdms) as ds, dclab.new_dataset(out) as do:
                import h5py
                with h5py.File(out, "r") as h:
                    stored = sorted(h["events"].keys())
                got.append(stored)
                missing = [f for f in ds.features_innate if f not in stored]
                if missing:
                    ctx.violation("spec", f"tdms2rtdc (directory, measurement {i + 1} of {len(order)}: "
                                          f"{z}): features {missing[:5]} of the .tdms source are "
                                          f"missing in the output", {"tdms_dir": order, "missing": missing})
                    continue
                first = bool(("image" in ds and ds.config["fmt_tdms"]["video frame offset"])
                             or ("contour" in ds and np.all(ds["contour"][0] == 0))
                             or ("image" in ds and np.all(ds["image"][0] == 0)))
                lens = [len(ds["trace"][t]) for t in ds["trace"]] if "trace" in ds.features_innate else []
                lens += [len(ds[f]) for f in ds.features_innate if f != "trace"]
                keep = [j for j in range(int(min(lens))) if not (first and j == 0)]
                for f in ds.features_innate:
                    if f in ("contour", "trace", "image", "mask") or f.startswith("fl") and f.endswith("_max"):
                        continue
                    a, b = np.asarray(ds[f][:])[keep], np.asarray(do[f][:])
                    if len(b) != len(keep) or not np.array_equal(a, b, equal_nan=True):
                        ctx.violation("spec", f"tdms2rtdc (directory): feature {f} of {z} differs "
                                              f"from the .tdms source", {"tdms_dir": order, "feature": f})
                        break
    if any(U.sha256(p) != h for p, h in shas.items() if p.exists()) or any(not p.exists() for p in shas):
        ctx.violation("spec", "tdms2rtdc (directory) modified or removed an input file",
                      {"tdms_dir": order})
    if ctx.lean_ok and got and not ctx.violations:
        ans = ctx.lean("C08", lines)[0].split(" ")
        for z, want, stored in zip(order, ans, got):
            w = [] if want == "-" else want.split(",")
            if not set(w) <= set(stored):
                ctx.violation("mirror", f"tdms2rtdc directory: stored features of {z} do not "
                                        f"contain the model's list", {"correspondence": "bulkFeatures"})
    shutil.rmtree(wd, ignore_errors=True)


def tdms_part(ctx):
    """tdms2rtdc: features of the output equal the .tdms source (thorough tier)"""
    dclab = common.import_dclab()
    from dclab import cli
    import zipfile
    data = common.REPO / "tests" / "data"
    lines, wants = [], []
    for name in ["fmt-tdms_fl-image-bright_2017.zip", "fmt-tdms_minimal_2016.zip"]:
        z = data / name
        if not z.exists():
            ctx.note(f"tdms fixture {name} not found")
            continue
        wd = ctx.workdir / ("tdms_" + name[:-4])
        wd.mkdir(exist_ok=True)
        try:
            zipfile.ZipFile(z).extractall(wd)
            tdms = sorted(wd.rglob("*.tdms"))[0]
            sha0 = U.sha256(tdms)
            out = wd / "out.rtdc"
            cli.tdms2rtdc(path_tdms=tdms, path_rtdc=out, compute_features=False,
                          skip_initial_empty_image=True, skip_final_empty_image=True, verbose=False)
            with dclab.new_dataset(tdms) as ds, dclab.new_dataset(out) as do:
                # the repository's .tdms fixtures are truncated (contour/mask/image only for the
                # first events); export.hdf5 writes the first min(len(feature)) events (C02)
                lens = [len(ds["trace"][t]) for t in ds["trace"]] if "trace" in ds.features_innate else []
                lens += [len(ds[f]) for f in ds.features_innate if f != "trace"]
                n = int(min(lens))
                first = bool(("image" in ds and ds.config["fmt_tdms"]["video frame offset"])
                             or ("contour" in ds and np.all(ds["contour"][0] == 0))
                             or ("image" in ds and np.all(ds["image"][0] == 0)))
                last = bool("image" in ds and False)
                keep = [i for i in range(n) if not (first and i == 0)]
                lines.append(f"tdms {int(first)} {int(last)} {n}")
                wants.append((name, keep))
                for f in ds.features_innate:
                    if f in ("contour", "trace", "image", "mask"):
                        continue
                    a, b = np.asarray(ds[f][:])[keep], np.asarray(do[f][:])
                    ctx.case(("tdms", name, f), nontrivial=True)
                    if len(b) != len(keep) or not np.array_equal(a, b, equal_nan=True):
                        ctx.violation("spec", f"tdms2rtdc: feature {f} of {name} differs from "
                                              f"the .tdms source", {"tdms": name, "feature": f})
                        break
            if U.sha256(tdms) != sha0:
                ctx.violation("spec", "tdms2rtdc modified its input", {"tdms": name})
        except Exception as e:  # noqa
            ctx.note(f"tdms2rtdc on {name}: {e!r}"[:200])
    if lines and ctx.lean_ok:
        out = ctx.lean("C08", lines)
        for (name, keep), ans in zip(wants, out):
            if ans != ",".join(map(str, keep)):
                ctx.violation("mirror", f"tdms2rtdc kept events differ from the model for {name}",
                              {"correspondence": "tdms2rtdcRows", "tdms": name})


# ---------------------------------------------------------------------------------------
# command logs across generations: n successive dclab-compress runs keep n command logs
def log_lines(h, name):
    return [x.decode("utf-8", "replace") if isinstance(x, bytes) else str(x) for x in h["logs"][name][:]]


def gens_part(ctx):
    """compress a file k times in a row; every run's command log must survive under its own name
    (property: logs are value-identical apart from the ADDED command log); names compared with
    the model's `compressGen` / `cmdHistory`"""
    common.import_dclab()
    import h5py
    from dclab import util
    wd = ctx.workdir / "gens"
    if wd.exists():
        shutil.rmtree(wd)
    wd.mkdir()
    k = ctx.rng.randint(3, 4) if not ctx.thorough else ctx.rng.randint(4, 6)
    user = {"cfg": ["a=1", "b=2"]} if ctx.rng.random() < 0.7 else {}
    p0 = wd / "g0.rtdc"
    gen.make_rtdc(p0, range(ctx.rng.randint(3, 8)), feats=["deform", "area_um"], rid=U.RID, logs=user)
    paths, hashes, own = [p0], [], []
    for j in range(k):
        try:
            hashes.append(util.hashfile(paths[-1], count=80))
        except Exception as e:  # noqa
            ctx.note(f"util.hashfile unavailable ({e!r}); log-name comparison skipped"[:160])
            hashes.append(None)
        pj = wd / f"g{j + 1}.rtdc"
        err = run_task("compress", paths[-1], pj)
        if err is not None:
            ctx.violation("spec", f"compress run {j + 1} of {k} successive runs raised {err}",
                          {"gens": k})
            return
        with h5py.File(pj, "r") as h:
            own.append(log_lines(h, "dclab-compress") if "dclab-compress" in h.get("logs", {}) else None)
        paths.append(pj)
    ctx.case(("gens", k, bool(user)), nontrivial=True)
    ctx.stat("compress_generations", k)
    with h5py.File(paths[-1], "r") as h:
        names = sorted(h.get("logs", {}).keys())
        content = {n: log_lines(h, n) for n in names}
    cmd = [n for n in names if n.startswith("dclab-compress") and "warnings" not in n]
    probs = []
    if len(cmd) != k:
        probs.append(f"after {k} successive dclab-compress runs the file holds {len(cmd)} command "
                     f"logs {cmd} instead of {k}")
    for j, lines in enumerate(own):
        if lines is None:
            probs.append(f"run {j + 1} wrote no 'dclab-compress' log")
        elif not any(content[n] == lines for n in cmd):
            probs.append(f"the command log of run {j + 1} of {k} is lost in the final file")
    for n, lines in user.items():
        if content.get(n) != lines:
            probs.append(f"user log {n!r} changed after {k} compress runs")
    for pr in probs[:2]:
        ctx.violation("spec", pr, {"gens": k})
    # trusted base of `renameCollides`: h5py refuses a link under an existing name
    try:
        with h5py.File(wd / "probe.h5", "w") as h:
            g = h.create_group("logs")
            g["a"] = np.zeros(2)
            g["a_x"] = np.ones(2)
            try:
                g["a_x"] = g["a"]
                ctx.note("h5py overwrote an existing link on assignment: renameCollides no longer "
                         "describes the equal-hash case")
            except Exception:  # noqa
                ctx.stat("h5py_refuses_existing_link")
    except Exception as e:  # noqa
        ctx.note(f"h5py link probe failed: {e!r}"[:120])
    if ctx.lean_ok and not probs:
        # the suffixes are taken from the observed names (which run's log sits under which name is
        # what the model decides); that they are dclab.util.hashfile of the inputs is informative
        pre = "dclab-compress_"
        seen = []
        for j in range(k - 1):
            cands = [n for n in cmd if n.startswith(pre) and content[n] == own[j]]
            seen.append(cands[0][len(pre):] if cands else "missing")
        if all(hashes) and seen != hashes[1:]:
            ctx.note("renamed command logs do not carry util.hashfile(input, count=80) as suffix "
                     f"(observed {seen[:2]}, expected {hashes[1:3]})"[:200])
        tok = U.Tok()
        lines = U.proto_lines(p0, U.read_items(p0, tok)) + [
            f"gens {k} " + ",".join(U.enc(x) for x in ["first"] + seen + ["zz"])]
        ans = ctx.lean("C08", lines)[-1]
        model = {}
        for w in ans.split(" ")[0].split(","):
            if "~" in w:
                n, t = w.rsplit("~", 1)
                model[n.replace("%2D", "-").replace("%2E", ".")] = t
        distinct = len({tuple(x) for x in own}) == len(own)
        actual = {}
        for n in names:
            if n in OWN_WARNING_LOGS or n.startswith("dclab-compress-warnings"):
                continue
            js = [j for j, lines in enumerate(own) if content[n] == lines]
            actual[n] = f"c{js[0]}" if js and n in cmd else "u"
        model = {n: t for n, t in model.items() if not n.startswith("dclab-compress-warnings")}
        if set(model) != set(actual) or (distinct and model != actual):
            ctx.violation("mirror", f"logs after {k} compress generations {actual} differ from the "
                                    f"model {model}",
                          {"correspondence": "Copy.compressGen / cmdHistory vs cli.compress", "gens": k})
    shutil.rmtree(wd, ignore_errors=True)


# ---------------------------------------------------------------------------------------
# boundary-image skipping of tdms2rtdc (cli.common.skip_empty_image_events)
def skip_part(ctx):
    """which events are dropped as a function of the two options and of the first / last image;
    compared with the model's `skipFlags` + `tdmsKept` (theorem tdms2rtdc_exact)"""
    dclab = common.import_dclab()
    import h5py
    try:
        from dclab.cli import common as cli_common
        skip = cli_common.skip_empty_image_events
    except Exception as e:  # noqa
        ctx.note(f"cli.common.skip_empty_image_events not available ({e!r}); boundary-image "
                 f"skipping not exercised"[:200])
        return
    combos = [(i, f, z0, z1, n) for i in (0, 1) for f in (0, 1) for z0 in (0, 1) for z1 in (0, 1)
              for n in (1, 2, 3, 5)]
    if not ctx.thorough:
        combos = ctx.rng.sample(combos, 14)
    wd = ctx.workdir / "skip"
    if wd.exists():
        shutil.rmtree(wd)
    wd.mkdir()
    lines, got = [], []
    for c, (ini, fin, z0, z1, n) in enumerate(combos):
        path = wd / f"s{c}.rtdc"
        try:
            gen.make_rtdc(path, range(n), feats=["deform", "image"], rid=U.RID)
            with h5py.File(path, "r+") as h:
                img = h["events"]["image"]
                if not np.any(img[0]) or not np.any(img[n - 1]):
                    continue                         # the generator's own payload is empty: skip
                if z0:
                    img[0] = 0
                if z1:
                    img[n - 1] = 0
            with dclab.new_dataset(path) as ds:
                has_contour = "contour" in ds
                with contextlib_redirect():
                    skip(ds, initial=bool(ini), final=bool(fin))
                manual = np.asarray(ds.filter.manual, dtype=bool)
                kept = [int(j) for j in np.where(manual)[0]]
        except Exception as e:  # noqa
            ctx.note(f"skip_empty_image_events could not be exercised: {e!r}"[:200])
            continue
        if has_contour:
            continue
        empty = {j for j in (0, n - 1) if (j == 0 and z0) or (j == n - 1 and z1)}
        ctx.case(("skip", ini, fin, z0, z1, n), nontrivial=bool(empty))
        ctx.stat("skip_cases")
        lost = [j for j in range(n) if j not in kept and j not in empty]
        if lost:
            ctx.violation("spec", f"skip_empty_image_events(initial={bool(ini)}, final={bool(fin)}) "
                                  f"drops the events {lost} of {n} whose image is not empty",
                          {"skip": [ini, fin, z0, z1, n]})
            break                                    # one report is enough
        first0 = int(bool(z0 or (n == 1 and z1)))
        last0 = int(bool(z1 or (n == 1 and z0)))
        lines.append(f"tdmsx {ini} {fin} 1 0 0 {first0} {last0} {n}")
        got.append(((ini, fin, z0, z1, n), kept))
    if ctx.lean_ok and lines:
        out = ctx.lean("C08", lines)
        for (combo, kept), ans in zip(got, out):
            want = ans.split("kept=")[-1]
            if want != ",".join(map(str, kept)):
                ctx.violation("mirror", f"skip_empty_image_events{combo}: kept events {kept} differ "
                                        f"from the model ({ans})",
                              {"correspondence": "Copy.skipFlags / tdmsKept vs "
                                                 "cli.common.skip_empty_image_events",
                               "skip": list(combo)})
                break
    shutil.rmtree(wd, ignore_errors=True)


def contextlib_redirect():
    import io
    import contextlib
    return contextlib.redirect_stdout(io.StringIO())



def replay(ctx, data):
    r = data.get("replay", data)
    if "paths" in r or "tdms_dir" in r or "gens" in r or "skip" in r:
        n0 = len(ctx.violations)
        paths_part(ctx)
        gens_part(ctx)
        skip_part(ctx)
        tdms_dir_part(ctx)
        return len(ctx.violations) > n0
    if "layout" not in r:
        return run(ctx)
    return run(ctx, only=[r["layout"]])
