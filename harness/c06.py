"""C06 — computed (ancillary) features always reflect the current data and settings.

A long-lived hierarchy (root dataset, child, grandchild) is driven through seeded histories of
configuration edits on the root, temporary-feature edits on any level, filter changes,
rejuvenations, reads, availability tests and `ds.features` on any level.

* property oracle (decides violations): after every read the value is compared **bit-exactly**
  with a hierarchy *freshly built from the current state* (same data, same state operations
  replayed, nothing read before); `feat in ds` must be true exactly when reading succeeds;
  `ds.features` must equal the fresh dataset's list.  A child is rejuvenated by the harness
  before it is used when something above it changed (documented responsibility of the user);
  `set_temporary_feature(child, …)` must leave that child up to date by itself;
* emodulus precedence: `ds["emodulus"]` must equal `get_emodulus` called directly with the
  inputs that the documented precedence selects **by presence of the keys** (values include
  0.0 / -0.0 / range limits), and the recorded accesses of `compute_emodulus` to the `temp`
  feature must match the scenario; all 64 combinations of the five `emodulus *` keys and the
  `temp` feature are run with generic values, with zero values and for medium "other";
* systematic "cache, edit, read" triples: every feature is read on level L, one edit is made,
  every feature is read again (all edits x levels in the thorough tier, a stratified sample in
  the quick tier);
* systematic "read, switch, read" histories (`switch_triples`, derived from the registry, always
  run): an item one recipe of a multi-recipe feature needs (temporary feature, configuration key,
  key its requirement function looks at) is added / removed between reads on every level, so the
  recipe that applies or the availability changes while data of another recipe are cached;
* model correspondence: the abstract trace of every read that reaches the root (selected
  recipe, base/hit/miss, which cache entries were written, what the hash covered) is compared
  with the Lean model (`lean/Drive/C06.lean`) through the line protocol; recording proxies
  around `ds[...]`, `... in ds` and the configuration sections validate the hand-written
  `declaredReads` / `reqFuncInfo` tables of the model against what the methods really access;
* session 4: the read sets of the compute methods and requirement functions come from their
  SOURCE (`harness/c06_ast.py`, emitted by `translate()` together with a termination rank of
  the registry); per root read the observed recursion depths are compared with the model's rank
  bound (`fuel`), the model's closed-form availability gap with what happened (`gap`), the
  model's own rank computation with the translated one (`ranks`).  Exploration is budgeted in
  work units, never by the clock.
"""
import hashlib
import time

import numpy as np

from . import common
from .c06_table import translate, registry_rows  # noqa: F401  (translate is used by ./check)

ID = "C06"
LEAN_MODULES = ["DclabModel.Properties.C06"]
RULE = ("Histories of 5-40 operations over three dataset kinds (two-channel dict, three-channel "
        "dict, HDF5 file with image/mask/bg_off) with a child and a grandchild hierarchy level "
        "and 4 plug-in recipes registered by the harness; operations (issued on any level): "
        "set/change/delete of every [calculation] key, [imaging] pixel size/frame rate, [setup] "
        "flow rate/channel width/chip region/medium/temperature on the root, with generic and "
        "boundary values (0.0, -0.0, smallest/largest valid); set/replace of temporary features "
        "(scalar, non-scalar, ml_score) on root, child or grandchild; in-place edits of the array "
        "the caller handed to set_temporary_feature (`mutt`: the data of a temporary feature "
        "change without set_temporary_feature being called again; whole array or a few events); "
        "manual-filter changes; "
        "rejuvenate; reads of 30 features, `in`, `ds.features` on any level. Oracle: a hierarchy "
        "freshly built from the current state; for emodulus additionally get_emodulus of the "
        "inputs selected by the documented precedence (by key presence) and the recorded "
        "accesses to `temp`. A case is one history; it is non-trivial when at least one read was "
        "served from the cache after an edit and one was recomputed. distinct = distinct "
        "canonical histories. Plus the 3x64 emodulus combination cases (generic, zero-valued, "
        "medium 'other'), each read on the root and through a child. Systematic cache-edit-read "
        "triples per hierarchy level, incl. a temporary feature set for the FIRST time after "
        "everything was cached (quick: all of those and all replacements via child levels for one "
        "world + all in-place edits of one kind on every level with the reads restricted to the "
        "direct dependants and cheap controls, + 4 sampled; thorough: all, all reads). One "
        "long measurement per run (dict, 2**17+2**12 .. 2**18+2**12 events, size seeded, scalar "
        "features and cheap recipes only): 12 (thorough 40) changes of temporary features — "
        "replacement through any level or in-place edit — that differ from the current data at "
        "1-3 randomly placed events, dependants read before and after on some level. "
        "Per root read / `in`: observed nesting depth of "
        "is_available and __getitem__ vs the model's rank bound (`fuel`), and for emodulus / "
        "crosstalk reads the model's closed-form availability gap vs 'available but raises' "
        "(`gap`). Systematic 'read, switch, read' histories derived from the registry (always "
        "run, both tiers): for every feature with more than one recipe or a named requirement "
        "function, every recipe, every item it needs (a required feature the dataset lacks, added "
        "as a temporary feature, e.g. fl3_max / temp; a required configuration key; a key its "
        "requirement function looks at, e.g. chip region) and every hierarchy level: read with the "
        "item missing, add it, read, remove it (keys), read — the applicable recipe or the "
        "availability changes under cached data. "
        "The random-history phase is bounded by work units (judged operations: quick "
        "950, thorough 16000), not by the clock; wall-clock caps are safety limits only.")
TRUSTED_BASE = [
    "modelled, not verified: md5 and util.obj2bytes (the hash is modelled as the structured "
    "list of what is fed to md5; byte-level concatenation collisions are outside the model); "
    "that the bytes cover EVERY event of a feature column and are taken from the CURRENT data "
    "is correspondence: changes at single randomly placed events of a long measurement and "
    "in-place edits of the caller's array must show in every dependent feature",
    "the source walker harness/c06_ast.py (path-insensitive `ast` walk over a compute method / "
    "requirement function and the module-level helpers it passes the dataset to; anything it does "
    "not understand marks the result incomplete): it supplies the read sets of the compute "
    "methods (all but compute_ml_class today) and the keys accessed by the requirement "
    "functions; cross-validated on every run by the recording proxies (observed accesses must "
    "lie inside the extracted sets)",
    "hand-written model tables that remain: guard kinds and returned features of `reqFuncInfo`, "
    "`declaredReads` of methods with dynamic feature names (compute_ml_class), names of the "
    "returned dict keys, `pathExcluded` (compute_emodulus touches `temp` only in scenario A) — "
    "validated dynamically by recording proxies in every scenario the harness executes",
    "the numeric recipes themselves are parameters of the model (C05, C18)"]
ASSUMPTIONS = [
    "set_temporary_feature is used with names registered as temporary features, ml_score_* or "
    "standard features the dataset does NOT contain (fl3_max, temp in the switch histories); "
    "never to shadow data that are present (bg_off / fl?_max) or an ancillary feature",
    "ml_score_* features are innate or temporary data, not themselves plug-in features",
    "datasets without basins (basins are property C07)",
    "a hierarchy child is rejuvenated before it is used when an ancestor's configuration, "
    "temporary features or filter changed (documented responsibility of the user); "
    "set_temporary_feature(child) keeps that child current by itself",
    "non-scalar temporary features are set on the root only (set_temporary_feature through a "
    "child builds a 1-D root array)",
    "valid configuration values: registered LUTs, known media or 'other', known viscosity models; "
    "value combinations that the numerical routine itself rejects (get_emodulus raises the same "
    "exception when called directly, e.g. kestin-1978 for MC-PBS, herold-2017 at 0 degC, channel "
    "width 0) are counted as invalid_values, not as availability failures"]
NOT_PROVED = [
    "available_iff_runnable at full strength: false today (F07, F63). Proved instead, over the "
    "regenerated table: the exact decidable gap (emodGapS / ctcGapS) — outside it availability "
    "<=> runnability, inside it available-but-raises — for all 64 key/temp patterns x {two known "
    "media, 'other'} and all 512 crosstalk patterns x 3 features, for arbitrary values "
    "(emodulus_gap_any_values, crosstalk_gap_any_values) and every recursion depth >= liveFuel; "
    "for other registries only under the guard NoRaise",
    "numerical content of the recipes (C05/C18)",
    "termination: proved for the model (fuel_sufficient: availability, selection and values are "
    "fuel-independent beyond featFuel along the regenerated rank table; a cyclic registry admits "
    "no rank); that dclab's is_available / __getitem__ recurse only along the model's call "
    "relation is correspondence (observed nesting depths <= the rank bound on every run)",
    "read sets with dynamic feature names (compute_ml_class, has_ml_scores) cannot be extracted "
    "from the source; the path condition of compute_emodulus (`temp` only in scenario A) is a "
    "hand-written exclusion — both validated dynamically only"]

NEV = 8
IMG = (20, 28)


class Budget:
    """How much a run explores is decided by WORK UNITS (judged operations; an emodulus read
    counts 4), not by the clock: the same seed explores the same cases on a busy and on an idle
    machine.  Wall-clock limits are only generous safety caps against runaway runs (a NOTE is
    recorded when one cuts the exploration short)."""

    def __init__(self):
        self.w0 = time.time()
        self.units = 0

    def wall(self):
        return time.time() - self.w0


#: work units of the random-history phase (quick / thorough); wall-clock safety caps [s] apply
#: only to the open-ended parts — the sampled remainder of the triples and the random histories
#: beyond a guaranteed minimum number — never to the systematic parts (combinations, corpus,
#: stratified triples)
HIST_UNITS = (950, 16000)
HIST_MIN = (40, 300)
WALL_CAP_TRIPLES = (300, 500)
WALL_CAP_HIST = (330, 690)


def budget_of(ctx):
    b = getattr(ctx, "c06_budget", None)
    if b is None:
        b = ctx.c06_budget = Budget()
    return b
TEMP_NAMES = ["tmpa", "tmpn", "ml_score_abc", "ml_score_abd"]
READS = ["emodulus", "volume", "area_um", "area_ratio", "aspect", "deform", "time", "index",
         "fl1_max_ctc", "fl2_max_ctc", "fl3_max_ctc", "bright_avg", "bright_sd",
         "bright_bc_avg", "bright_bc_sd", "bright_perc_10", "bright_perc_90",
         "inert_ratio_cvx", "inert_ratio_prnc", "inert_ratio_raw", "tilt", "contour",
         "ml_class", "plug_s", "plug_t", "plug_n", "plug_e", "tmpa", "temp", "emodulus",
         "emodulus", "fl1_max_ctc", "ml_class", "area_um", "volume"]
CFG_VALUES = {
    # generic values and boundary values (0, -0.0, smallest / largest valid ones): presence of
    # a key must matter, never the truthiness of its value
    ("calculation", "emodulus lut"): ["LE-2D-FEM-19", "HE-2D-FEM-22", "HE-3D-FEM-22"],
    ("calculation", "emodulus medium"): ["CellCarrier", "CellCarrierB", "water", "water",
                                         "other", "other"],
    ("calculation", "emodulus temperature"): [22.5, 23.0, 0.0, -0.0, 40.0, 0.0],
    ("calculation", "emodulus viscosity"): [1.0, 5.0, 0.0, 1e-3, 1e3],
    ("calculation", "emodulus viscosity model"): ["herold-2017", "buyukurganci-2022",
                                                  "buyukurganci-2022", "kestin-1978"],
    ("calculation", "crosstalk fl21"): [0.0, 0.05, 0.1, -0.0],
    ("calculation", "crosstalk fl31"): [0.0, 0.02, 0.3],
    ("calculation", "crosstalk fl12"): [0.0, 0.05, 0.2, 1.0],
    ("calculation", "crosstalk fl32"): [0.0, 0.03, 0.1],
    ("calculation", "crosstalk fl13"): [0.0, 0.04, 0.4],
    ("calculation", "crosstalk fl23"): [0.0, 0.06, 0.1],
    ("imaging", "pixel size"): [0.34, 0.32, 0.0, 1e-3],
    ("imaging", "frame rate"): [2000.0, 3000.0, 0.0],
    ("setup", "flow rate"): [0.04, 0.06, 0.0, 1.2],
    ("setup", "channel width"): [20.0, 30.0, 15.0],
    ("setup", "chip region"): ["channel", "reservoir", "channel"],
    ("setup", "medium"): ["CellCarrier", "water"],
    ("setup", "temperature"): [22.0, 0.0],
}
CFG_KEYS = sorted(CFG_VALUES)
SECTIONS = ("calculation", "imaging", "setup")
EMOD_KEYS = ["emodulus lut", "emodulus medium", "emodulus temperature", "emodulus viscosity",
             "emodulus viscosity model"]


# ----------------------------------------------------------------------------------------
# data
def base_features(kind, variant, n=NEV):
    """innate feature dict of dataset `kind`; `variant` perturbs the numbers"""
    rs = np.random.RandomState(1000 + variant)
    d = {
        "area_cvx": np.linspace(260, 900, n) + rs.rand(n),
        "area_msd": np.linspace(250, 880, n) + rs.rand(n),
        "circ": np.linspace(0.93, 0.99, n),
        "size_x": rs.randint(10, 30, n).astype(float),
        "size_y": rs.randint(8, 20, n).astype(float),
        "frame": np.arange(n) * 3.0 + 10,
        "pos_x": np.linspace(10, 40, n),
        "pos_y": np.linspace(5, 9, n),
        "fl1_max": np.linspace(100, 500, n) + rs.rand(n),
        "fl2_max": np.linspace(90, 20, n) + rs.rand(n),
    }
    if variant % 2 == 0:
        d["temp"] = np.linspace(22.0, 24.0, n)
    if kind == "dict3":
        d["fl3_max"] = np.linspace(30, 60, n) + rs.rand(n)
    if kind == "h5":
        mask = np.zeros((n,) + IMG, dtype=bool)
        for i in range(n):
            r0, c0 = 3 + i % 4, 4 + (2 * i) % 9
            mask[i, r0:r0 + 6 + i % 5, c0:c0 + 8 + (3 * i) % 7] = True
            mask[i, r0 + 1, c0] = False
        d["mask"] = mask
        d["image"] = rs.randint(0, 255, (n,) + IMG).astype(np.uint8)
        d["image_bg"] = rs.randint(100, 140, (n,) + IMG).astype(np.uint8)
        if variant % 2 == 1:
            d["bg_off"] = np.linspace(-2, 2, n)
    return d


class World:
    """one dataset kind: how to open a fresh dataset"""

    def __init__(self, ctx, kind, variant, nev=None):
        self.kind, self.variant = kind, variant
        # kind "big": a long measurement (dict, scalar features only; `nev` events)
        self.nev = int(nev) if (kind == "big" and nev) else NEV
        self.feats = base_features(kind, variant, self.nev)
        self.path = None
        if kind == "h5":
            self.path = ctx.workdir / f"w_{variant}.rtdc"
            if not self.path.exists():
                self._write()

    def _write(self):
        dclab = common.import_dclab()
        import copy
        from . import gen
        meta = copy.deepcopy(gen.BASE_META)
        meta["imaging"]["roi size x"] = IMG[1]
        meta["imaging"]["roi size y"] = IMG[0]
        meta["setup"].pop("medium")
        with dclab.RTDCWriter(self.path, mode="reset") as hw:
            hw.store_metadata(meta)
            for f, v in self.feats.items():
                hw.store_feature(f, v)

    def open(self):
        dclab = common.import_dclab()
        if self.kind == "h5":
            return dclab.new_dataset(self.path)
        ds = dclab.new_dataset({k: v.copy() for k, v in self.feats.items()})
        ds.config["imaging"]["pixel size"] = 0.34
        ds.config["imaging"]["frame rate"] = 2000.0
        ds.config["setup"]["flow rate"] = 0.04
        ds.config["setup"]["channel width"] = 20.0
        return ds


    def temp_data(self, name, k, n):
        """k-th version of the data of temporary feature `name` for a level with `n` events.
        In a long measurement the versions k > 0 differ from version 0 only at FEW, randomly
        placed events (relabelling a handful of events)"""
        if self.kind != "big" or k == 0:
            return temp_data(name, k, n)
        return sparse_edit(name, temp_data(name, 0, n), (self.nev, 1, k))

    def mut_data(self, name, k, cur):
        """what the caller writes IN PLACE into the array it handed to
        set_temporary_feature: odd k — a few randomly placed events; even k — everything"""
        if self.kind == "big" or k % 2:
            return sparse_edit(name, cur.copy(), (self.nev, 2, k))
        return temp_data(name, k + 3, len(cur))


def temp_data(name, k, n=NEV):
    """k-th version of the data of temporary feature `name` for a level with `n` events"""
    if name == "tmpn":
        return (np.arange(n * 3, dtype=float).reshape(n, 3) + k) / 4
    if name.startswith("ml_score"):
        a = (np.arange(n) * (k + 2) * (3 if name.endswith("abc") else 5) + k) % 11
        return a / 10.0
    if name == "temp":                       # chip temperature [degC]
        return np.linspace(22.0, 24.0, n) + k / 4
    if name.startswith("fl") and name.endswith("_max"):
        return np.linspace(30, 60, n) + np.arange(n) % 3 + k
    return np.linspace(1, 2, n) * (k + 1)


def sparse_edit(name, arr, seed):
    """`arr` changed at 1, 2 or 3 randomly placed events (in place; returns `arr`)"""
    rs = np.random.RandomState([TEMP_NAMES.index(name)] + [int(x) % 2**31 for x in seed])
    for i in rs.randint(0, len(arr), (1, 1, 1, 2, 1, 3)[seed[-1] % 6]):
        if name.startswith("ml_score"):      # decisive for the class of that event
            arr[i] = 0.0 if arr[i] >= 0.5 else 1.0
        else:
            arr[i] = arr[i] + 0.5
    return arr


# ----------------------------------------------------------------------------------------
# plug-in recipes registered by the harness
def plug_method_st(mm):
    fr = mm.config["setup"]["flow rate"]
    return {"plug_s": np.asarray(mm["tmpa"]) * fr + np.asarray(mm["deform"]),
            "plug_t": np.asarray(mm["tmpa"]) - fr}


def plug_method_n(mm):
    return np.asarray(mm["tmpn"]) * 2 + mm.config["imaging"]["pixel size"]


def plug_method_e(mm):
    return np.asarray(mm["emodulus"]) * 2 + np.asarray(mm["tmpa"])


def plug_check_channel(mm):
    """boolean requirement function (its result is not hashed)"""
    return mm.config["setup"].get("chip region", "channel") == "channel"


PLUGS = [
    # name, method, features required, config required, scalar, shape, outs
    ("plug_s", plug_method_st, ["tmpa", "deform"], [["setup", ["flow rate"]]], True, None,
     ["plug_s", "plug_t"]),
    ("plug_t", plug_method_st, ["tmpa", "deform"], [["setup", ["flow rate"]]], True, None,
     ["plug_s", "plug_t"]),
    ("plug_n", plug_method_n, ["tmpn"], [["imaging", ["pixel size"]]], False, (3,), ["plug_n"],
     plug_check_channel),
    ("plug_e", plug_method_e, ["emodulus", "tmpa"], [], True, None, ["plug_e"]),
]


class Registered:
    """registers temporary features and plug-in recipes; removes them again"""

    def __enter__(self):
        common.import_dclab()
        from dclab.rtdc_dataset import feat_temp
        from dclab.rtdc_dataset.feat_anc_plugin import plugin_feature as pf
        from dclab.rtdc_dataset.feat_anc_core import AncillaryFeature
        self.ft, self.pf = feat_temp, pf
        self.core_n = len(AncillaryFeature.features)
        feat_temp.register_temporary_feature("tmpa")
        feat_temp.register_temporary_feature("tmpn", is_scalar=False)
        self.insts = []
        for name, meth, rf, rc, scalar, shape, outs, *chk in PLUGS:
            info = {"method": meth, "feature names": list(outs),
                    "features required": rf, "config required": rc,
                    "scalar feature": [scalar] * len(outs), "version": "1"}
            if chk:
                info["method check required"] = chk[0]
            if shape is not None:
                info["feature shapes"] = [shape] * len(outs)
            self.insts.append(pf.PlugInFeature(name, info))
        return self

    def __exit__(self, *a):
        for inst in self.insts:
            try:
                self.pf.remove_plugin_feature(inst)
            except Exception:
                pass
        for n in ("tmpa", "tmpn"):
            self.ft.deregister_temporary_feature(n)

    def plugin_lines(self):
        out = []
        for name, meth, rf, rc, scalar, shape, outs, *chk in PLUGS:
            keys = [f"{s}:{k}".replace(" ", "~") for s, ks in rc for k in ks]
            out.append(("plugin %s 0 %s %s %s %s %s" % (
                name, ",".join(rf) or "-", ",".join(keys) or "-", ",".join(outs), meth.__name__,
                "channel" if chk else "")).strip())
        return out


# ----------------------------------------------------------------------------------------
# recording proxies
class Recorder:
    """records, per registered recipe, which features / config keys its `hash` and its method
    access on the watched dataset"""

    def __init__(self):
        self.ds = None
        self.stack = []
        self.events = []          # per read: (idx, sorted outs) in completion order
        self.tokens = {}          # per read: output name -> digest token of the returned data
        self.root_gets = []       # per read: features read from the watched (root) dataset
        self.comp_reads = {}      # idx -> (set feats, set keys)
        self.comp_outs = {}       # idx -> set of returned keys
        self.hash_reads = {}      # idx -> (set feats accessed by getitem, set keys); per read
        self.av_depth = self.av_max = 0   # nesting of AncillaryFeature.is_available (per window)
        self.gi_depth = self.gi_max = 0   # nesting of RTDCBase.__getitem__ on the watched dataset
        self.depth_ok = False             # is_available could be wrapped
        self.installed = False

    def install(self):
        common.import_dclab()
        from dclab.rtdc_dataset.core import RTDCBase
        from dclab.rtdc_dataset.config import ConfigurationDict
        from dclab.rtdc_dataset.feat_anc_core import AncillaryFeature
        rec = self
        self._orig = {
            "gi": RTDCBase.__getitem__, "ct": RTDCBase.__contains__,
            "cg": ConfigurationDict.__getitem__, "cc": ConfigurationDict.__contains__,
            "cget": ConfigurationDict.get,
            "comp": AncillaryFeature.compute, "hash": AncillaryFeature.hash,
            "isav": getattr(AncillaryFeature, "is_available", None)}
        o = self._orig
        self._classes = (RTDCBase, ConfigurationDict, AncillaryFeature)

        def top():
            return rec.stack[-1] if rec.stack else None

        def gi(self, feat):
            if rec.ds is not self:
                return o["gi"](self, feat)
            t = top()
            if t is None:
                rec.root_gets.append(feat)
            elif t[0] in ("compute", "hash"):
                t[2].add(feat)
                t[4].add(feat)
            rec.stack.append(("ignore",))
            rec.gi_depth += 1
            rec.gi_max = max(rec.gi_max, rec.gi_depth)
            try:
                return o["gi"](self, feat)
            finally:
                rec.gi_depth -= 1
                rec.stack.pop()

        def isav(self, ds, *a, **kw):
            if rec.ds is not ds:
                return o["isav"](self, ds, *a, **kw)
            rec.av_depth += 1
            rec.av_max = max(rec.av_max, rec.av_depth)
            try:
                return o["isav"](self, ds, *a, **kw)
            finally:
                rec.av_depth -= 1

        def ct(self, feat):
            if rec.ds is not self:
                return o["ct"](self, feat)
            t = top()
            if t is not None and t[0] in ("compute", "hash"):
                t[2].add(feat)
            rec.stack.append(("ignore",))
            try:
                return o["ct"](self, feat)
            finally:
                rec.stack.pop()

        def note_cfg(self, key):
            t = top()
            if (t is not None and t[0] in ("compute", "hash") and rec.ds is not None
                    and getattr(self, "section", None) in SECTIONS
                    and rec.ds.config[self.section] is self):
                t[3].add(f"{self.section}:{str(key).lower()}")

        def cg(self, key):
            note_cfg(self, key)
            return o["cg"](self, key)

        def cc(self, key):
            note_cfg(self, key)
            return o["cc"](self, key)

        def cget(self, key, *a, **kw):
            note_cfg(self, key)
            return o["cget"](self, key, *a, **kw)

        def comp(self, ds):
            if rec.ds is not ds:
                return o["comp"](self, ds)
            idx = AncillaryFeature.features.index(self)
            fr = ("compute", idx, set(), set(), set())
            rec.stack.append(fr)
            try:
                res = o["comp"](self, ds)
            finally:
                rec.stack.pop()
                a = rec.comp_reads.setdefault(idx, (set(), set()))
                a[0].update(fr[2])
                a[1].update(fr[3])
            rec.events.append((idx, sorted(res), set(fr[2]), set(fr[4]), set(fr[3])))
            for k in res:
                rec.tokens[k] = "c" + hashlib.md5(repr(canon(res[k])).encode()).hexdigest()[:10]
            rec.comp_outs.setdefault(idx, set()).update(res)
            return res

        def hsh(self, ds):
            if rec.ds is not ds:
                return o["hash"](self, ds)
            idx = AncillaryFeature.features.index(self)
            fr = ("hash", idx, set(), set(), set())
            rec.stack.append(fr)
            try:
                return o["hash"](self, ds)
            finally:
                rec.stack.pop()
                a = rec.hash_reads.setdefault(idx, (set(), set()))
                a[0].update(fr[4])
                a[1].update(fr[3])

        RTDCBase.__getitem__ = gi
        RTDCBase.__contains__ = ct
        ConfigurationDict.__getitem__ = cg
        ConfigurationDict.__contains__ = cc
        ConfigurationDict.get = cget
        AncillaryFeature.compute = comp
        AncillaryFeature.hash = hsh
        if callable(o["isav"]):
            AncillaryFeature.is_available = isav
            self.depth_ok = True
        self.installed = True

    def uninstall(self):
        if not self.installed:
            return
        RTDCBase, ConfigurationDict, AncillaryFeature = self._classes
        o = self._orig
        RTDCBase.__getitem__ = o["gi"]
        RTDCBase.__contains__ = o["ct"]
        ConfigurationDict.__getitem__ = o["cg"]
        ConfigurationDict.__contains__ = o["cc"]
        ConfigurationDict.get = o["cget"]
        AncillaryFeature.compute = o["comp"]
        AncillaryFeature.hash = o["hash"]
        if self.depth_ok:
            AncillaryFeature.is_available = o["isav"]
            self.depth_ok = False
        self.installed = False

    def begin(self, ds):
        self.ds = ds
        self.stack = []
        self.events = []
        self.tokens = {}
        self.hash_reads = {}
        self.root_gets = []
        self.av_depth = self.av_max = 0
        self.gi_depth = self.gi_max = 0

    def end(self):
        self.ds = None
        self.stack = []


REC = Recorder()


# ----------------------------------------------------------------------------------------
# executing operations
def canon(v):
    """exactly comparable description of feature data"""
    if isinstance(v, np.ndarray):
        return ("arr", v.dtype.str, v.shape, v.tobytes())
    if hasattr(v, "__array__") and not hasattr(v, "identifier") and hasattr(v, "shape"):
        a = np.asarray(v)
        return ("arr", a.dtype.str, a.shape, a.tobytes())
    try:
        items = [np.asarray(v[i]) for i in range(len(v))]
        return ("seq", tuple((a.dtype.str, a.shape, a.tobytes()) for a in items))
    except Exception:  # noqa
        return ("obj", repr(v)[:80])


def outcome(fn):
    try:
        return ("ok", canon(fn()))
    except (KeyboardInterrupt, SystemExit):
        raise
    except BaseException as e:  # noqa  (MissingCrosstalkMatrixElementsError is a BaseException)
        return ("exc", type(e).__name__)


def safe(fn):
    """('ok', value) or ('exc', class name) without canonicalisation"""
    try:
        return ("ok", fn())
    except (KeyboardInterrupt, SystemExit):
        raise
    except BaseException as e:  # noqa
        return ("exc", type(e).__name__)


NLEV = 3          # root, child, grandchild


def norm(op):
    """operations carry the hierarchy level they are issued on (0 = root); older replay
    files do not"""
    op = tuple(op)
    if op[0] == "sett" and len(op) == 3:
        return op + (0,)
    if op[0] in ("read", "in") and len(op) == 2:
        return op + (0,)
    if op[0] == "feats" and len(op) == 1:
        return op + (0,)
    if op[0] == "child":                      # old format: filter the root, read via the child
        return ("read", op[1], 1)
    return op


def is_state_op(op):
    return op[0] in ("setc", "delc", "sett", "mutt", "filt")


class Hier:
    """root dataset with lazily created child and grandchild, operated according to the
    documented protocol: a child is rejuvenated before it is used when something above it
    changed (`dirty`); `set_temporary_feature(child)` rejuvenates that child itself"""

    def __init__(self, world, reg):
        self.world, self.reg = world, reg
        self.levels = [world.open()]
        self.dirty = [False] * NLEV
        self.handed = {}         # feature -> the array the caller gave to set_temporary_feature

    @property
    def root(self):
        return self.levels[0]

    def level(self, lev):
        dclab = common.import_dclab()
        while len(self.levels) <= lev:
            self.levels.append(dclab.new_dataset(self.levels[-1]))   # refreshes all ancestors
            for i in range(len(self.levels)):
                self.dirty[i] = False
        return self.levels[lev]

    def ensure(self, lev):
        lv = self.level(lev)
        if lev > 0 and any(self.dirty[1:lev + 1]):
            lv.rejuvenate()
            for i in range(1, lev + 1):
                self.dirty[i] = False
        return lv

    def mark(self, from_level):
        for i in range(max(from_level, 1), NLEV):
            self.dirty[i] = True

    def apply(self, op):
        """state operations (never read an ancillary feature)"""
        if op[0] == "setc":
            self.root.config[op[1]][op[2]] = op[3]
            self.mark(1)
        elif op[0] == "delc":
            self.root.config[op[1]].pop(op[2], None)
            self.mark(1)
        elif op[0] == "sett":
            lev = op[3]
            lv = self.ensure(lev)
            if self.world.kind == "big" and op[2] > 0 and op[1] in self.handed:
                # a few events of the column as this level shows it are relabelled (plain
                # data of the dataset: no ancillary feature is read)
                arr = sparse_edit(op[1], np.array(lv[op[1]], dtype=float),
                                  (self.world.nev, 1, op[2]))
            else:
                arr = self.world.temp_data(op[1], op[2], len(lv))
            self.reg.ft.set_temporary_feature(lv, op[1], arr)
            self.handed[op[1]] = arr         # the caller keeps its (writeable) array
            self.mark(lev + 1)
        elif op[0] == "mutt":
            # the caller edits the array it handed over IN PLACE; set_temporary_feature is
            # not called again (the root stores a view of that array: its data change; an
            # array handed over through a child was copied: nothing changes)
            arr = self.handed.get(op[1])
            if arr is not None:
                arr[...] = self.world.mut_data(op[1], op[2], arr)
                self.mark(1)
        elif op[0] == "filt":
            lev = op[1]
            lv = self.ensure(lev)
            m = np.ones(len(lv), dtype=bool)
            if len(lv):
                m[op[2] % len(lv)] = False
            lv.filter.manual[:] = m
            lv.apply_filter()
            self.mark(lev + 1)
        elif op[0] == "rejuv":
            self.level(op[1]).rejuvenate()
            for i in range(1, op[1] + 1):
                self.dirty[i] = False

    def replay(self, ops):
        for op in ops:
            if is_state_op(op):
                self.apply(op)
        return self

    def close(self):
        for d in reversed(self.levels):
            try:
                if hasattr(d, "close"):
                    d.close()
            except Exception:
                pass


def known_class(ds, feat, exc):
    """open known findings: structural availability vs. raising computation"""
    cc = ds.config["calculation"]
    if exc == "ValueError" and feat in ("emodulus", "plug_e"):
        medium = str(cc.get("emodulus medium", "other")).lower()
        visc = "emodulus viscosity" in cc
        if (medium != "other" and visc) or (medium == "other" and not visc):
            return "F07"
    if exc == "MissingCrosstalkMatrixElementsError" and feat.endswith("_max_ctc"):
        if all(f"fl{i}_max" in ds for i in (1, 2, 3)):
            return "F63"
    return None


def emod_scenario(ds, has_temp):
    """the documented precedence, decided by PRESENCE of keys / of the `temp` feature:
    'B' viscosity given for medium other/absent; 'C' known medium and temperature key;
    'A' known medium and `temp` feature; None: unavailable or contradictory (F07)"""
    cc = ds.config["calculation"]
    if "emodulus lut" not in cc:
        return None
    other = str(cc.get("emodulus medium", "other")).lower() == "other"
    visc = "emodulus viscosity" in cc
    if visc and other:
        return "B"
    if not other and not visc:
        if "emodulus temperature" in cc:
            return "C"
        if has_temp:        # the `temp` feature is plain data of the dataset
            return "A"
    return None


def emod_oracle(ds, has_temp):
    """`get_emodulus` called directly with the inputs the documented precedence selects
    (independent of `compute_emodulus`); None when no scenario applies"""
    from dclab.features.emodulus import get_emodulus
    scen = emod_scenario(ds, has_temp)
    if scen is None:
        return None
    cc = ds.config["calculation"]

    def call():
        kw = dict(area_um=ds["area_um"], deform=ds["deform"], lut_data=cc["emodulus lut"],
                  channel_width=ds.config["setup"]["channel width"],
                  flow_rate=ds.config["setup"]["flow rate"],
                  px_um=ds.config["imaging"]["pixel size"])
        if scen == "B":
            kw.update(medium=cc["emodulus viscosity"], temperature=None, visc_model=None)
        else:
            kw.update(medium=cc["emodulus medium"],
                      temperature=(cc["emodulus temperature"] if scen == "C" else ds["temp"]),
                      visc_model=cc.get("emodulus viscosity model", "herold-2017"))
        return get_emodulus(**kw)
    return scen, outcome(call)


#: minimised past failures ("cache, edit, read"), replayed first on every run
CORPUS = [
    ("F05", "dict2", 0, [
        ("setc", "calculation", "crosstalk fl21", 0.1),
        ("setc", "calculation", "crosstalk fl12", 0.2),
        ("setc", "calculation", "crosstalk fl13", 0.4),
        ("read", "fl1_max_ctc"),
        ("setc", "calculation", "crosstalk fl31", 0.3),
        ("read", "fl1_max_ctc")]),
    ("F06", "dict2", 0, [
        ("setc", "calculation", "emodulus lut", "LE-2D-FEM-19"),
        ("setc", "calculation", "emodulus medium", "other"),
        ("setc", "calculation", "emodulus temperature", 23.0),
        ("setc", "calculation", "emodulus viscosity", 5.0),
        ("read", "emodulus"),
        ("setc", "calculation", "emodulus viscosity", 7.5),
        ("read", "emodulus")]),
    ("F61", "dict2", 1, [
        ("sett", "ml_score_abc", 0), ("sett", "ml_score_abd", 0),
        ("read", "ml_class"),
        ("sett", "ml_score_abc", 1),
        ("read", "ml_class")]),
    ("F62", "dict2", 1, [
        ("read", "area_um"),
        ("delc", "imaging", "pixel size"),
        ("in", "area_um"), ("read", "area_um"), ("feats",)]),
]


class Runner:
    """runs one history on a long-lived hierarchy (root, child, grandchild), judging every step
    with the property's own oracle — a hierarchy freshly built from the current state —;
    optionally emits the model lines"""

    def __init__(self, ctx, world, reg, emit=True, record=True, share_fresh=False):
        self.ctx, self.world, self.reg = ctx, world, reg
        self.emit, self.record = emit, record
        self.share_fresh = share_fresh      # one fresh hierarchy per run of reads (triples part)
        self._fresh = None
        self.h = Hier(world, reg)
        self.ds = self.h.root
        self.done = []
        self.lines, self.expect = [], []
        self.failures = []       # (class, description)
        self.known = {}
        self.nhit = self.nmiss = 0
        self.edited_since = False
        self.fuel_asked = set()
        if emit:
            self._emit_init()

    # -- model lines ---------------------------------------------------------------
    def tok(self, sec, key, val):
        if key in ("emodulus medium", "chip region", "emodulus lut", "emodulus viscosity model"):
            return str(val).replace(" ", "_")
        return "v" + hashlib.md5(str(val).encode()).hexdigest()[:8]

    def dtok(self, arr):
        return "d" + hashlib.md5(np.ascontiguousarray(arr).tobytes()).hexdigest()[:10]

    def _emit_init(self):
        self.lines.append("reset")
        self.expect.append(None)
        self.lines += self.reg.plugin_lines()
        self.expect += [("plugin",)] * len(PLUGS)
        self.lines.append("innate " + " ".join(f"{f}=i_{f}" for f in sorted(self.world.feats)))
        self.expect.append(None)
        for sec in SECTIONS:
            for k in sorted(self.ds.config[sec].keys()):
                self.lines.append("setc %s:%s %s" % (sec, k.replace(" ", "~"),
                                                     self.tok(sec, k, self.ds.config[sec][k])))
                self.expect.append(None)

    def _emit_edit(self, op):
        if op[0] == "setc":
            v = self.ds.config[op[1]][op[2]]
            self.lines.append("setc %s:%s %s" % (op[1], op[2].replace(" ", "~"),
                                                 self.tok(op[1], op[2], v)))
        elif op[0] == "delc":
            self.lines.append("delc %s:%s" % (op[1], op[2].replace(" ", "~")))
        elif op[0] == "sett" or (op[0] == "mutt" and op[1] in self.h.handed):
            # the data as they arrive at the root (for the model an in-place edit of the
            # caller's array is a change of the temporary feature's data like a replacement)
            self.lines.append("sett %s %s" % (op[1], self.dtok(np.asarray(self.ds[op[1]]))))
        else:
            return
        self.expect.append(None)

    # -- one step --------------------------------------------------------------------
    def fail(self, cls, what):
        self.failures.append((cls, what))

    def step(self, op):
        op = norm(op)
        try:
            self._step(op)
        except (KeyboardInterrupt, SystemExit):
            raise
        except BaseException as e:  # noqa  dclab raised outside of a judged read
            self.fail("exception", f"operation '{op[0]} {op[1] if len(op) > 1 else ''}' makes "
                                   f"dclab raise {type(e).__name__} outside of a feature read")

    def fresh(self, lev):
        """hierarchy freshly built from the current state (same state operations, no reads)"""
        if self.share_fresh:
            if self._fresh is None:
                self._fresh = _Shared(self.world, self.reg).replay(self.done)
            return self._fresh, self._fresh.ensure(lev)
        fh = Hier(self.world, self.reg).replay(self.done)
        return fh, fh.ensure(lev)

    def _step(self, op):
        if is_state_op(op) or op[0] == "rejuv":
            if self._fresh is not None and is_state_op(op):
                self._fresh.really_close()
                self._fresh = None
            self.h.apply(op)
            self.done.append(op)
            if op[0] != "rejuv":
                self.edited_since = True
            if self.emit:
                self._emit_edit(op)
            return
        self.done.append(op)
        if op[0] == "in":
            self._check_in(op[1], op[2])
        elif op[0] == "feats":
            self._check_feats(op[1])
        elif op[0] == "read":
            self._check_read(op[1], op[2])

    def _emit_fuel(self, feat, how, av_max, gi_max):
        """recursion depths observed on the root vs. the model's rank bound (once per feature,
        kind of access and history)"""
        if not (self.emit and self.record and REC.depth_ok) or (feat, how) in self.fuel_asked:
            return
        self.fuel_asked.add((feat, how))
        self.lines.append(f"fuel {feat}")
        self.expect.append(("fuel", how, av_max, gi_max))

    def _check_in(self, feat, lev):
        lv = self.h.ensure(lev)
        measure = self.record and lev == 0
        if measure:
            REC.begin(self.ds)
        try:
            got = safe(lambda: feat in lv)
        finally:
            av_max = REC.av_max
            if measure:
                REC.end()
        fh, fl = self.fresh(lev)
        want = safe(lambda: feat in fl)
        fh.close()
        if got != want:
            self.fail("in-vs-fresh", f"'{feat}' in ds (level {lev}) is {got[1]} on the "
                                     f"long-lived dataset, {want[1]} on a fresh one")
        if self.emit:
            self.lines.append(f"in {feat}")
            self.expect.append(("in", got))
            if measure:
                self._emit_fuel(feat, "in", av_max, None)

    def _check_feats(self, lev):
        lv = self.h.ensure(lev)
        got = safe(lambda: tuple(lv.features))
        fh, fl = self.fresh(lev)
        want = safe(lambda: tuple(fl.features))
        fh.close()
        if got != want:
            delta = (sorted(set(got[1]) ^ set(want[1]))
                     if got[0] == want[0] == "ok" else (got, want))
            self.fail("features-vs-fresh", "ds.features differs from a fresh dataset with the "
                      f"same data and configuration: '{delta}'"[:300])
        if self.emit:
            self.lines.append("feats")
            self.expect.append(("feats", got[1] if got[0] == "ok" else None))

    def _check_read(self, feat, lev):
        ds = self.ds
        from dclab.rtdc_dataset.feat_anc_core import AncillaryFeature
        lv = self.h.ensure(lev)
        avail = safe(lambda: feat in lv)
        # plain data of the root (what the harness itself stored: no peeking into the dataset)
        is_base = feat in self.world.feats or any(
            o[0] == "sett" and o[1] == feat for o in self.done)
        sel = None
        if not is_base:
            try:
                inst = AncillaryFeature.available_features(ds).get(feat)
                sel = AncillaryFeature.features.index(inst) if inst is not None else None
            except BaseException:  # noqa
                sel = None
        if self.record:
            REC.begin(ds)
        try:
            got = outcome(lambda: lv[feat])
        finally:
            events = list(REC.events)
            hreads = dict(REC.hash_reads)
            hints = ",".join(f"{k}={v}" for k, v in sorted(REC.tokens.items()))
            root_read = feat in REC.root_gets
            av_max, gi_max = REC.av_max, REC.gi_max
            REC.end()
        fh, fl = self.fresh(lev)
        want = outcome(lambda: fl[feat])
        self.ctx.stat("reads")
        self.ctx.stat(f"reads_level{lev}")
        budget_of(self.ctx).units += 4 if feat in ("emodulus", "plug_e") else 1
        where = "" if lev == 0 else f" (hierarchy level {lev})"
        # (1) the property's oracle: long-lived == fresh
        if got != want:
            self.fail("stale", f"ds['{feat}']{where} on the long-lived dataset differs from a "
                               f"fresh dataset with the same data and configuration "
                               f"({got[0]}/{want[0]}; {got[1] if got[0] == 'exc' else ''})")
        # (2) the documented emodulus precedence decides which inputs are used
        excused = False
        if feat in ("emodulus", "plug_e"):
            has_temp = "temp" in self.world.feats or any(
                o[0] == "sett" and o[1] == "temp" for o in self.done)
            scen = safe(lambda: emod_scenario(fh.root, has_temp))
            scen = scen[1] if scen[0] == "ok" else None
            # the independent numerical oracle is expensive (Delaunay of the LUT): only where
            # it decides something
            need = (feat == "emodulus" and lev == 0 and got[0] == "ok") or (
                got[0] == "exc" and avail[1] is True and not known_class(ds, feat, got[1]))
            orc = safe(lambda: emod_oracle(fh.root, has_temp)) if (scen and need) else ("ok", None)
            orc = orc[1] if orc[0] == "ok" else None
            if scen is not None:
                oval = orc[1] if orc is not None else ("none",)
                self.ctx.stat("emodulus_scenario:" + scen)
                if orc is not None and feat == "emodulus" and lev == 0 and got[0] == "ok" \
                        and got != oval:
                    self.fail("precedence", "ds['emodulus'] is not get_emodulus(...) of the "
                              f"inputs that the documented precedence selects (scenario {scen} "
                              f"by presence of keys; oracle {oval[0]})")
                if got[0] == "exc" and oval[0] == "exc" and oval[1] == got[1]:
                    excused = True       # values outside the domain of the numerical routine
                    self.ctx.stat("invalid_values:" + got[1])
                for ev in events:
                    if AncillaryFeature.features[ev[0]].feature_name != "emodulus":
                        continue
                    if ("temp" in ev[2]) != (scen == "A") or ("temp" in ev[3]) != (scen == "A"):
                        self.fail("precedence-inputs", "compute of 'emodulus' accessed the "
                                  f"`temp` feature: {'temp' in ev[2]} although the documented "
                                  f"precedence selects scenario {scen}")
        fh.close()
        # (3) availability
        if avail[1] is True and got[0] == "exc":
            kc = known_class(ds, feat, got[1])
            if kc:
                self.known[kc] = (feat, got[1])
                self.ctx.stat("known:" + kc)
            elif not excused:
                self.fail("available-but-unreadable",
                          f"'{feat}' in ds is True but ds['{feat}'] raises {got[1]}{where}")
        elif avail[1] is False and got[0] == "ok":
            self.fail("readable-but-unavailable",
                      f"'{feat}' in ds is False but ds['{feat}'] succeeds{where}")
        fired = sorted(k for ev in events for k in ev[1])
        if is_base:
            kind = "base"
        elif got[0] == "ok":
            kind = "miss" if feat in fired else "hit"
        else:
            kind = "err" if avail[1] is True else "none"
        if kind == "hit":
            self.nhit += 1 if self.edited_since else 0
        if kind == "miss":
            self.nmiss += 1
        if lev == 0:
            self.ctx.stat("kind:" + kind)
        if self.emit and (lev == 0 or root_read or not self.record):
            # (a child read reaches the root only if the child has not cached the feature)
            self.lines.append(f"read {feat} {hints}".strip())
            if excused:       # the model's symbolic methods do not know invalid values
                self.expect.append(("skip",))
            elif lev == 0:
                cover = hreads.get(sel) if (sel is not None and got[0] == "ok") else None
                self.expect.append(("read", got[0] == "ok", avail[1] is True, sel, kind, fired,
                                    cover))
            else:       # the root's caches evolve as for a read
                self.expect.append(("childread", got[0] == "ok"))
            if lev == 0 and self.record:
                self._emit_fuel(feat, "read", av_max, gi_max)
            if lev == 0 and (feat == "emodulus" or feat.endswith("_max_ctc")) \
                    and avail[0] == "ok":
                # the model's closed-form availability gap (classes F07 / F63) vs. what happened
                self.lines.append(f"gap {feat}")
                self.expect.append(("skip",) if excused else
                                   ("gap", avail[1] is True and got[0] == "exc"))

    def close(self):
        if self._fresh is not None:
            self._fresh.really_close()
        self.h.close()


class _Shared(Hier):
    """fresh hierarchy that is kept until the next state operation"""

    def close(self):
        pass

    def really_close(self):
        Hier.close(self)


def gen_history(rng, world):
    n = rng.randint(5, 40)
    ops = []
    focus = rng.choice(["emod", "emod", "ctc", "mixed", "mixed", "temp", "temp",
                        "image" if world.kind == "h5" else "mixed"])
    ck = [k for k in CFG_KEYS if "crosstalk" in k[1]]

    home = rng.choice([0, 0, 1, 1, 2])      # most operations of a history act on one level

    def lvl():
        x = rng.random()
        if x < 0.65:
            return home
        return 0 if x < 0.82 else (1 if x < 0.93 else 2)

    if focus in ("emod", "temp") or rng.random() < 0.5:   # a plausible emodulus configuration
        scen = rng.choice(["C", "C", "B", "A", "rand"])
        ks = {"C": ["emodulus lut", "emodulus medium", "emodulus temperature"],
              "B": ["emodulus lut", "emodulus viscosity"],
              "A": ["emodulus lut", "emodulus medium"],
              "rand": rng.sample(EMOD_KEYS, rng.randint(2, 5))}[scen]
        if rng.random() < 0.5 and "emodulus viscosity model" not in ks:
            ks = ks + ["emodulus viscosity model"]
        for k in ks:
            v = rng.choice(CFG_VALUES[("calculation", k)])
            if k == "emodulus medium" and scen in ("C", "A") and rng.random() < 0.8:
                v = rng.choice(["CellCarrier", "CellCarrierB", "water", "water"])
            ops.append(("setc", "calculation", k, v))
        if scen == "B" and rng.random() < 0.6:
            ops.append(("setc", "calculation", "emodulus medium", "other"))
    if focus == "ctc" or rng.random() < 0.4:
        full = world.kind == "dict3" and rng.random() < 0.7
        pair = [k for k in ck if k[1] in ("crosstalk fl21", "crosstalk fl12")]
        for k in (ck if full else pair + rng.sample(ck, rng.randint(0, 2))):
            ops.append(("setc",) + k + (rng.choice(CFG_VALUES[k]),))
    tver = {f: 0 for f in TEMP_NAMES}
    if focus == "temp" or rng.random() < 0.3:
        for f in rng.sample(TEMP_NAMES, rng.randint(1, 4)):
            ops.append(("sett", f, 0, 0 if f == "tmpn" else lvl()))
    keys = CFG_KEYS
    if focus == "emod":
        keys = [k for k in CFG_KEYS if "crosstalk" not in k[1]]
    elif focus == "ctc":
        keys = ck + [("imaging", "pixel size")]
    elif focus == "image":
        keys = [("imaging", "pixel size"), ("imaging", "frame rate"), ("setup", "flow rate")]
    general = ["area_um", "area_ratio", "aspect", "deform", "time", "index", "tmpa", "temp"]
    reads = [r for r in READS if world.kind == "h5" or not r.startswith(
        ("bright", "inert", "tilt", "contour", "volume"))]
    if focus == "emod":
        reads = ["emodulus", "emodulus", "emodulus", "plug_e", "area_um", "deform", "time"]
    elif focus == "ctc":
        reads = ["fl1_max_ctc", "fl2_max_ctc", "fl1_max_ctc", "fl3_max_ctc", "area_um"]
    elif focus == "temp":
        reads = ["plug_s", "plug_t", "plug_n", "plug_e", "ml_class", "ml_class", "tmpa", "tmpn",
                 "emodulus"]
    elif focus == "image":
        reads = [r for r in READS if r.startswith(("bright", "inert", "tilt", "contour",
                                                   "volume", "area"))]
    n = max(n, len(ops) + 3)
    while len(ops) < n:
        # the idiom the property is about: cache, edit, read again (same level)
        if ops and ops[-1][0] in ("setc", "delc", "sett", "mutt", "filt") \
                and rng.random() < 0.4:
            before = [o for o in ops if o[0] == "read"]
            if before:
                ops.append(rng.choice(before[-6:]))
                continue
        x = rng.random()
        if x < 0.25:
            k = rng.choice(keys)
            ops.append(("setc",) + k + (rng.choice(CFG_VALUES[k]),))
        elif x < 0.31:
            ops.append(("delc",) + rng.choice(keys))
        elif x < 0.44:
            f = rng.choice(TEMP_NAMES)
            tver[f] = tver[f] + 1 if rng.random() < 0.7 else rng.randint(0, 2)
            if rng.random() < 0.35 and any(o[0] == "sett" and o[1] == f for o in ops):
                # the data change WITHOUT set_temporary_feature being called again: the caller
                # edits the array it handed over in place
                ops.append(("mutt", f, tver[f]))
            else:
                # (in-place edits are visible when the array was handed to the root)
                lev = 0 if f == "tmpn" else (lvl() if rng.random() < 0.7 else 0)
                ops.append(("sett", f, tver[f], lev))
        elif x < 0.80:
            f = rng.choice(reads if rng.random() < 0.85 else general)
            ops.append(("read", f, 0 if f == "contour" else lvl()))
        elif x < 0.88:
            ops.append(("in", rng.choice(reads), lvl()))
        elif x < 0.91:
            ops.append(("feats", lvl()))
        elif x < 0.96:
            ops.append(("filt", rng.choice([0, 0, 1]), rng.randrange(NEV)))
        else:
            ops.append(("rejuv", rng.choice([1, 2])))
    return ops[:40]


def run_history(ctx, world, reg, ops, emit=True, record=True, share_fresh=False):
    r = Runner(ctx, world, reg, emit=emit, record=record, share_fresh=share_fresh)
    try:
        for op in ops:
            r.step(op)
    finally:
        r.close()
    return r


def shrink(ctx, world, reg, ops, cls):
    """minimal history that still shows a failure of class `cls` (cache, edit, read)"""
    deadline = time.time() + (40 if ctx.tier == "quick" else 150)    # per shrink

    def fails(seq):
        if time.time() > deadline:
            return False
        try:
            r = run_history(ctx, world, reg, seq, emit=False, record=cls.startswith("prec"))
        except Exception:  # noqa
            return False
        return any(c == cls for c, _ in r.failures)
    return common.ddmin(ops, fails, max_tests=120)


def fmt_ops(ops):
    return [list(o) for o in ops]


# ----------------------------------------------------------------------------------------
COMBO_VALUES = {
    # generic values, boundary values (zero temperature / viscosity), medium "other"
    "generic": {"emodulus medium": "CellCarrier", "emodulus lut": "LE-2D-FEM-19",
                "emodulus temperature": 23.0, "emodulus viscosity": 5.0,
                "emodulus viscosity model": "buyukurganci-2022"},
    "zero": {"emodulus medium": "water", "emodulus lut": "LE-2D-FEM-19",
             "emodulus temperature": 0.0, "emodulus viscosity": 0.0,
             "emodulus viscosity model": "kestin-1978"},
    "other": {"emodulus medium": "other", "emodulus lut": "HE-2D-FEM-22",
              "emodulus temperature": -0.0, "emodulus viscosity": 0.0,
              "emodulus viscosity model": "buyukurganci-2022"},
}


def combos_part(ctx, reg, lines, expect):
    """all 64 combinations of the five emodulus keys x `temp`, with generic values, with
    boundary values (0.0) and for medium 'other'; read on the root and through a child"""
    for vname, vals in COMBO_VALUES.items():
        for bits in range(64):
            present = {k: bool(bits >> i & 1) for i, k in enumerate(EMOD_KEYS)}
            with_temp = bool(bits >> 5 & 1)
            world = World(ctx, "dict2", 0 if with_temp else 1)
            ops = [("setc", "calculation", k, vals[k]) for k in EMOD_KEYS if present[k]]
            ops += [("read", "emodulus", 0)]
            if vname == "generic":
                ops += [("read", "emodulus", 1)]
            r = run_history(ctx, world, reg, ops)
            lines += r.lines
            expect += r.expect
            ctx.case(("combo", vname, bits), nontrivial=True)
            ctx.stat("combo:" + ("fails" if r.known else "ok"))
            for k, v in r.known.items():
                ctx.stat("combo-known:" + k)
            for cls, what in r.failures:
                ctx.violation("spec", f"emodulus combination {vname} "
                                      f"{[k for k in EMOD_KEYS if present[k]]} temp={with_temp}: "
                                      f"{what}",
                              {"part": "combos", "kind": "dict2", "variant": world.variant,
                               "ops": fmt_ops(ops), "class": cls})
            if r.known:
                yield vname, bits, r.known


#: what is read around an in-place edit in the quick tier: what depends directly on a temporary
#: feature, the temporary features themselves and some cheap controls (the thorough tier reads
#: everything; `plug_e` = emodulus chain costs three LUT interpolations per triple)
TEMP_READS = ["plug_s", "plug_t", "plug_n", "ml_class", "tmpa", "tmpn", "ml_score_abc",
              "deform", "aspect", "area_um", "time"]


def triples(world, full=True):
    """systematic 'cache, edit, read' histories: every feature is read on level L, ONE edit is
    made (a config key set to another value or deleted on the root; a temporary feature
    replaced, or set for the first time, through level L), every feature is read on level L
    again"""
    pre = [("setc", "calculation", "emodulus lut", "LE-2D-FEM-19"),
           ("setc", "calculation", "emodulus medium", "CellCarrier"),
           ("setc", "calculation", "emodulus temperature", 23.0),
           ("setc", "calculation", "emodulus viscosity model", "buyukurganci-2022"),
           ("setc", "setup", "chip region", "channel")]
    pre += [("setc",) + k + (CFG_VALUES[k][1],) for k in CFG_KEYS if "crosstalk" in k[1]]
    feats = sorted(set(r for r in READS if world.kind == "h5" or not r.startswith(
        ("bright", "inert", "tilt", "contour", "volume"))))
    out = []
    for lev in range(NLEV):
        temps = [("sett", f, 0, 0 if f == "tmpn" else lev) for f in TEMP_NAMES]
        reads = [("read", f, 0 if f == "contour" else lev) for f in feats]
        edits = [("sett", f, 1, 0 if f == "tmpn" else lev) for f in TEMP_NAMES]
        edits += [("filt", min(lev, 1), 3)]
        for k in CFG_KEYS:
            edits.append(("setc",) + k + (CFG_VALUES[k][2 % len(CFG_VALUES[k])],))
            edits.append(("delc",) + k)
        for e in edits:
            out.append((lev, e, pre + temps + reads + [e] + reads))
        # the data of a temporary feature change without set_temporary_feature being called
        # again (in-place edit of the array the caller handed to the root), read on level L;
        # and the same for an array handed over through level L (copied: nothing may change)
        troot = [("sett", f, 0, 0) for f in TEMP_NAMES]
        mreads = reads if full else [r for r in reads if r[1] in TEMP_READS]
        for f in TEMP_NAMES:
            for k in (1, 2):
                e = ("mutt", f, k)
                out.append((lev, e, pre + troot + mreads + [e] + mreads))
            if lev > 0 and f != "tmpn":
                out.append((lev, ("mutt-via", f, 1), pre + temps + mreads + [("mutt", f, 1)]
                            + mreads))
        # a temporary feature that is set for the FIRST time after everything was read (and
        # cached) without it: what depends on it must become available and readable
        for f in TEMP_NAMES:
            if f == "tmpn" and lev > 0:
                continue
            e = ("sett", f, 0, lev)
            others = [t for t in temps if t[1] != f]
            out.append((lev, ("first",) + e, pre + others + reads + [e] + reads))
    return out


def switch_value(k):
    """value a required key is set to in the switch triples (the cheapest LUT: 0.02 s per
    interpolation instead of 0.2 s; which LUT is irrelevant for which recipe applies)"""
    if k == ("calculation", "emodulus lut"):
        return "HE-3D-FEM-22"
    return CFG_VALUES[k][1 % len(CFG_VALUES[k])]


def switch_triples(world):
    """systematic 'read, switch, read' histories, derived from the REGISTRY: for every feature
    with more than one recipe (and every feature with a named requirement function) and every
    hierarchy level L: a state in which everything recipe R needs is there except ONE item —
    a feature R requires that the dataset does not have (added as a temporary feature through
    level L), a configuration key R requires, or a key R's requirement function looks at
    (from its source) —; the feature is read on level L, the item is added, it is read again,
    the item is removed (keys), it is read again.  Adding / removing the item changes WHICH
    recipe applies or WHETHER the feature is available, often without changing anything the
    recipe that computed the cached data hashes.  Items shared by all recipes of a feature are
    exercised with its first recipe only.  Returns [(feature, recipe index, item, level, ops)]"""
    common.import_dclab()
    from dclab.rtdc_dataset.feat_anc_core import AncillaryFeature
    from dclab.definitions import feature_exists
    from .c06_ast import extract
    regs = list(AncillaryFeature.features)
    anc_names = {r.feature_name for r in regs}
    byname = {}
    for i, r in enumerate(regs):
        byname.setdefault(r.feature_name, []).append(i)

    def cfgkeys(r):
        return [(sec, k) for sec, ks in r.req_config for k in ks]

    def funckeys(r):
        if getattr(r.req_func, "__name__", "<lambda>") == "<lambda>":
            return []
        ks = extract(r.req_func)[1]
        return [tuple(k.split(":", 1)) for k in ks if tuple(k.split(":", 1)) in CFG_VALUES]

    def addable(r):
        return [f for f in r.req_features if f not in world.feats and f not in anc_names
                and feature_exists(f)]

    out, seen = [], set()
    for name in sorted(byname):
        idxs = byname[name]
        if len(idxs) < 2 and not any(funckeys(regs[i]) for i in idxs):
            continue
        items_of = {}
        for i in idxs:
            r = regs[i]
            ck = [k for k in cfgkeys(r) if k in CFG_VALUES]
            items_of[i] = ([("feat", f) for f in addable(r)] + [("key", k) for k in ck]
                           + [("fkey", k) for k in funckeys(r) if k not in ck])
        shared = set.intersection(*[set(v) for v in items_of.values()])
        for n, i in enumerate(idxs):
            r = regs[i]
            for item in items_of[i]:
                if n > 0 and item in shared:
                    continue
                mine = [k for kind, k in items_of[i] if kind == "key" and ("key", k) != item]
                for lev in range(NLEV):
                    ops = [("delc",) + k for k in sorted({
                        k for kind, k in set().union(*items_of.values()) if kind != "feat"})
                        if k not in mine]
                    ops += [("setc",) + k + (switch_value(k),) for k in mine]
                    ops += [("sett", f, 0, 0 if f == "tmpn" else lev)
                            for kind, f in items_of[i] if kind == "feat" and ("feat", f) != item]
                    rd = ("read", name, lev)
                    ops.append(rd)
                    if item[0] == "feat":
                        ops += [("sett", item[1], 0, 0 if item[1] == "tmpn" else lev), rd]
                    else:
                        vals = CFG_VALUES[item[1]]
                        for v in ([switch_value(item[1])] if item[0] == "key" else
                                  list(dict.fromkeys(vals))[:2]):
                            ops += [("setc",) + item[1] + (v,), rd]
                        ops += [("delc",) + item[1], rd]
                    if tuple(ops) not in seen:
                        seen.add(tuple(ops))
                        out.append((name, i, item, lev, ops))
    return out


def note_failures(ctx, world, reg, ops, r, seen_classes, part, extra=""):
    """shrink and remember one representative per (failure class, feature)"""
    for cls in sorted({c for c, _ in r.failures}):
        what = [x for c, x in r.failures if c == cls][0]
        key = (cls, what.split("'")[1] if "'" in what else "")
        if key in seen_classes or len(seen_classes) >= 12:
            continue
        small = shrink(ctx, world, reg, ops, cls)
        r2 = run_history(ctx, world, reg, small, emit=False, record=cls.startswith("prec"))
        w2 = [x for c, x in r2.failures if c == cls]
        seen_classes[key] = (
            (w2[0] if w2 else what) + f" — {extra}minimal history of {len(small)} operations",
            {"part": part, "kind": world.kind, "variant": world.variant,
             "class": cls, "ops": fmt_ops(small)})


def switch_part(ctx, reg, seen_classes, known):
    """the recipe that applies / the availability of a cached feature changes (always run, both
    tiers, independent of the seed and of every budget)"""
    world = World(ctx, "dict2", 1)          # no `temp`, no `fl3_max`: both can be added
    for name, idx, item, lev, ops in switch_triples(world):
        r = run_history(ctx, world, reg, ops, emit=False, record=False, share_fresh=True)
        ctx.case(("switch", name, idx, item, lev), nontrivial=True)
        ctx.stat("switch_triples")
        ctx.stat("switch_item:" + item[0])
        for k, v in r.known.items():
            known.setdefault(k, f"'{v[0]}' in ds is True but reading raises {v[1]}")
        note_failures(ctx, world, reg, ops, r, seen_classes, "switch",
                      f"the applicable recipe / availability of '{name}' changes; ")


BIG_TEMPS = ["tmpa", "ml_score_abc", "ml_score_abd"]
BIG_DEPS = {"tmpa": ["plug_s", "plug_t", "tmpa"], "ml_score_abc": ["ml_class", "ml_score_abc"],
            "ml_score_abd": ["ml_class", "ml_score_abd"]}
BIG_EDITS = (12, 40)


def gen_big_history(rng, nedits):
    """a long measurement (more events than any fixed sample of a feature column could cover):
    cheap recipes only; every change of a temporary feature — replacement through any level or
    in-place edit of the caller's array — touches a FEW randomly placed events, and what
    depends on it is read before and after on some level"""
    ops = [("sett", f, 0, 0) for f in BIG_TEMPS]
    ops += [("read", f, lev) for lev in range(NLEV)
            for f in ("plug_s", "ml_class", "deform", "aspect")]
    ver = 0
    for _ in range(nedits):
        f = rng.choice(BIG_TEMPS)
        ver += 1
        x = rng.random()
        if x < 0.45:
            ops.append(("sett", f, ver, 0))
        elif x < 0.65:
            ops.append(("sett", f, ver, rng.choice([1, 2])))
        elif x < 0.93:
            ops.append(("mutt", f, ver))
        else:
            ops.append(("filt", rng.choice([0, 1]), rng.randrange(2**17)))
        lev = rng.choice([0, 0, 1, 2])
        ops += [("read", r, lev) for r in BIG_DEPS[f][:2]]
        if rng.random() < 0.3:
            ops.append(("read", rng.choice(["plug_t", "deform", "aspect", "area_ratio", "index",
                                            "time"]), rng.choice([0, 1, 2])))
    return ops


def big_part(ctx, reg, seen_classes):
    """one long measurement per run (> 2**17 events, size seeded)"""
    nev = 2**17 + 2**12 + ctx.rng.randrange(2**17)
    world = World(ctx, "big", ctx.rng.randrange(4), nev=nev)
    ops = gen_big_history(ctx.rng, BIG_EDITS[ctx.thorough])
    r = run_history(ctx, world, reg, ops, emit=False, record=False, share_fresh=True)
    ctx.case(("big", nev, world.variant, tuple(ops)), nontrivial=True)
    ctx.stat("big_events", nev)
    for cls in sorted({c for c, _ in r.failures}):
        what = [x for c, x in r.failures if c == cls][0]
        key = (cls, what.split("'")[1] if "'" in what else "")
        if key in seen_classes or len(seen_classes) >= 12:
            continue
        small = shrink(ctx, world, reg, ops, cls)
        r2 = run_history(ctx, world, reg, small, emit=False, record=False)
        w2 = [x for c, x in r2.failures if c == cls]
        seen_classes[key] = (
            (w2[0] if w2 else what) + f" — dataset with {nev} events, minimal history of "
            f"{len(small)} operations",
            {"part": "big", "kind": "big", "variant": world.variant, "nev": nev,
             "class": cls, "ops": fmt_ops(small)})


def run(ctx):
    common.import_dclab()
    bud = budget_of(ctx)
    search = not ctx.lean_ok
    lines, expect = [], []
    seen_classes = {}
    known = {}
    corpus_failed = set()
    with Registered() as reg:
        REC.install()
        try:
            # recorded witnesses of the open findings first
            f07 = [(m, b) for m, b, k in combos_part(ctx, reg, lines, expect) if "F07" in k]
            if f07:
                known["F07"] = (f"{len([1 for m, _ in f07 if m == 'generic'])} of 64 key "
                                "combinations (known medium and 'emodulus viscosity' both set): "
                                "'emodulus' in ds is True but ds['emodulus'] raises ValueError")
            ctx.stat("units_combos", bud.units)
            w3 = World(ctx, "dict3", 0)
            r = run_history(ctx, w3, reg, [
                ("setc", "calculation", "crosstalk fl21", 0.1),
                ("setc", "calculation", "crosstalk fl12", 0.2),
                ("in", "fl1_max_ctc"), ("read", "fl1_max_ctc")])
            lines += r.lines
            expect += r.expect
            if "F63" in r.known:
                known["F63"] = ("fl1/fl2/fl3_max present, only a two-channel crosstalk pair "
                                "configured: 'fl1_max_ctc' in ds is True but reading raises "
                                "MissingCrosstalkMatrixElementsError")
            for cls, what in r.failures:
                ctx.violation("spec", what, {"part": "witness-F63", "class": cls})

            for fid, kind, variant, ops in CORPUS:
                r = run_history(ctx, World(ctx, kind, variant), reg, ops, emit=not search)
                lines += r.lines
                expect += r.expect
                ctx.case(("corpus", fid), nontrivial=True)
                if r.failures:
                    ctx.violation("spec", f"{r.failures[0][1]} — recorded history {fid} "
                                          f"({len(ops)} operations)",
                                  {"part": "corpus", "finding": fid, "kind": kind,
                                   "variant": variant, "class": r.failures[0][0],
                                   "ops": fmt_ops(ops)})
                    corpus_failed.add(r.failures[0][0] if fid != "F62" else "avail")

            # a long measurement: sparse changes of temporary features
            big_part(ctx, reg, seen_classes)
            ctx.stat("units_big", bud.units)

            # systematic cache-edit-read triples on every hierarchy level (a seeded sample in
            # the quick tier, all of them in the thorough tier)
            allt = []
            for kind, variant in (("dict2", 0), ("h5", 1)):
                w = World(ctx, kind, variant)
                allt += [(w,) + t for t in triples(w, full=ctx.thorough)]
            if not ctx.thorough:
                # every replacement of a temporary feature through a child level of one world,
                # plus a seeded sample of the other edits
                wpick = ctx.rng.choice(["dict2", "h5"])
                kpick = ctx.rng.choice([1, 2])
                strat = [t for t in allt if t[0].kind == wpick and (
                    (t[2][0] == "sett" and t[1] > 0 and t[2][1] != "tmpn")
                    or t[2][0] == "first" or (t[2][0] == "mutt" and t[2][2] == kpick))]
                rest = [t for t in allt if t not in strat]
                allt = strat + ctx.rng.sample(rest, min(len(rest), ctx.n(4, 0)))
                must = len(strat)
            else:       # the temporary-feature triples first: they always run
                allt.sort(key=lambda t: not (t[2][0] in ("sett", "first", "mutt")))
                must = sum(1 for t in allt if t[2][0] in ("sett", "first", "mutt"))
            for i, (w, lev, e, ops) in enumerate(allt):
                if i >= must and bud.wall() > WALL_CAP_TRIPLES[ctx.thorough]:
                    ctx.note(f"C06: wall-clock cap reached after {i} of {len(allt)} triples "
                             "(loaded machine)")
                    break
                r = run_history(ctx, w, reg, ops, emit=False, record=False, share_fresh=True)
                ctx.case(("triple", w.kind, lev, e), nontrivial=True)
                ctx.stat("triples")
                for k, v in r.known.items():
                    known.setdefault(k, f"'{v[0]}' in ds is True but reading raises {v[1]}")
                for cls in sorted({c for c, _ in r.failures}):
                    what = [x for c, x in r.failures if c == cls][0]
                    key = (cls, what.split("'")[1] if "'" in what else "")
                    if key in seen_classes or len(seen_classes) >= 12:
                        continue
                    small = shrink(ctx, w, reg, ops, cls)
                    r2 = run_history(ctx, w, reg, small, emit=False,
                                     record=cls.startswith("prec"))
                    w2 = [x for c, x in r2.failures if c == cls]
                    seen_classes[key] = (
                        (w2[0] if w2 else what) + f" — minimal history of {len(small)} operations",
                        {"part": "triples", "kind": w.kind, "variant": w.variant,
                         "class": cls, "ops": fmt_ops(small)})

            # the applicable recipe / the availability changes under cached data (systematic,
            # derived from the registry; never sampled, never budget-dependent)
            u0, t0 = bud.units, time.time()
            switch_part(ctx, reg, seen_classes, known)
            ctx.stat("units_switch", bud.units - u0)
            ctx.stat("wall_switch_s", int(time.time() - t0))

            ctx.stat("units_before_histories", bud.units)
            units0 = bud.units
            nhist = ctx.n(200, 2000)
            worlds = {}
            for h in range(nhist):
                if bud.units - units0 >= HIST_UNITS[ctx.thorough] * (10 if search else 1):
                    break
                if h >= HIST_MIN[ctx.thorough] and bud.wall() > WALL_CAP_HIST[ctx.thorough]:
                    ctx.note(f"C06: wall-clock cap reached after {h} histories, "
                             f"{bud.units - units0} of {HIST_UNITS[ctx.thorough]} work units "
                             "(loaded machine)")
                    break
                if search and h >= 60 and sum(1 for k in seen_classes if k[0] == "stale") >= 3:
                    break
                kind = ctx.rng.choice(["dict2", "dict2", "dict3", "h5"])
                variant = ctx.rng.randrange(4)
                if (kind, variant) not in worlds:
                    worlds[(kind, variant)] = World(ctx, kind, variant)
                world = worlds[(kind, variant)]
                ops = gen_history(ctx.rng, world)
                r = run_history(ctx, world, reg, ops, emit=not search)
                lines += r.lines
                expect += r.expect
                for k, v in r.known.items():
                    known.setdefault(k, f"'{v[0]}' in ds is True but reading raises {v[1]}")
                ctx.stat("histories:" + kind)
                ctx.stat("ops", len(ops))
                ctx.case(("hist", kind, variant, tuple(ops)),
                         nontrivial=r.nhit > 0 and r.nmiss > 0,
                         sample={"kind": kind, "ops": fmt_ops(ops[:12]), "len": len(ops),
                                 "hits_after_edit": r.nhit, "recomputed": r.nmiss}
                         if h < 3 else None)
                for cls in sorted({c for c, _ in r.failures}):
                    what = [w for c, w in r.failures if c == cls][0]
                    key = (cls, what.split("'")[1] if "'" in what else "")
                    if key in seen_classes or len(seen_classes) >= 12:
                        continue
                    small = shrink(ctx, world, reg, ops, cls)
                    r2 = run_history(ctx, world, reg, small, emit=False,
                                     record=cls.startswith("prec"))
                    w2 = [w for c, w in r2.failures if c == cls]
                    seen_classes[key] = (
                        (w2[0] if w2 else what) + f" — minimal history of {len(small)} operations",
                        {"part": "history", "kind": kind, "variant": variant,
                         "class": cls, "ops": fmt_ops(small)})
            # stale values first (one per feature), then one representative per other class
            order = sorted(seen_classes, key=lambda k: (k[0] != "stale", k))
            shown = set()
            for key in order:
                if key[0] != "stale" and key[0] in shown:
                    continue
                shown.add(key[0])
                ctx.violation("spec", *seen_classes[key])
        finally:
            REC.uninstall()
        for k, v in known.items():
            ctx.known(k, v)
        if search:
            return
        diffs, bad_reads = compare_model(ctx, lines, expect, reg.core_n)
        if any(v["kind"] == "spec" for v in ctx.violations):
            return
        if diffs or bad_reads:
            # only the mirror differs: extended failing-input search on the implementation
            stop = time.time() + (120 if ctx.tier == "quick" else 600)
            h = 0
            while time.time() < stop and h < 10 * nhist:
                h += 1
                kind = ctx.rng.choice(["dict2", "dict3", "h5"])
                variant = ctx.rng.randrange(4)
                world = worlds.get((kind, variant)) or World(ctx, kind, variant)
                worlds[(kind, variant)] = world
                ops = gen_history(ctx.rng, world)
                r = run_history(ctx, world, reg, ops, emit=False, record=False)
                ctx.case(("ext", kind, variant, tuple(ops)), nontrivial=False)
                ctx.stat("extended_search_histories")
                if r.failures:
                    cls, what = r.failures[0]
                    small = shrink(ctx, world, reg, ops, cls)
                    ctx.violation("spec", what + f" — minimal history of {len(small)} operations",
                                  {"part": "history", "kind": kind, "variant": variant,
                                   "class": cls, "ops": fmt_ops(small)})
                    return
        if bad_reads:
            ctx.violation("mirror", "a method accessed features/config keys outside the model's "
                                    f"declaredReads (recipe index, feats, keys, outs): "
                                    f"{bad_reads[:3]}",
                          {"correspondence": "declaredReads of Model/Anc.lean vs recorded "
                                             "accesses of AncillaryFeature.compute",
                           "outside": bad_reads})
        if diffs:
            ctx.violation("mirror", f"{len(diffs)} answers differ between dclab and the Lean "
                                    f"model; first: '{diffs[0][0]}' impl {diffs[0][1]} model "
                                    f"'{diffs[0][2]}'",
                          {"correspondence": "Drive/C06.lean vs RTDCBase.__getitem__/"
                                             "__contains__/features, AncillaryFeature.hash/"
                                             "is_available", "first": diffs[:3]})


def compare_model(ctx, lines, expect, ncore):
    """run the Lean model once over all lines; returns (differences, reads outside the
    model's declaredReads)"""
    decl_lines = [f"decl {i}" for i in range(ncore + len(PLUGS))]
    out = ctx.lean("C06", lines + ["reset", "ranks"] + Registered.plugin_lines(None) + decl_lines)
    answers, decl = out[:len(lines)], out[len(lines) + 2 + len(PLUGS):]
    diffs = []
    # the rank table computed inside the model vs. the one translate() derived from the registry
    from .c06_table import rank_table
    try:
        want_ranks = sorted({f"{n}:{p}:{k}" for n, p, k in rank_table(registry_rows()[:ncore])})
    except Exception as e:  # noqa
        want_ranks = None
        ctx.note(f"C06: rank table of the registry not comparable ({type(e).__name__})")
    have_ranks = sorted(set(out[len(lines) + 1].split(",")))
    if want_ranks is not None and want_ranks != have_ranks:
        diffs.append(("ranks", want_ranks[:8], out[len(lines) + 1][:300]))
    ctx.stat("rank_entries", len(have_ranks))
    for ln, ex, got in zip(lines, expect, answers):
        if ex is None:
            if got != "ok":
                diffs.append((ln, "ok", got))
            continue
        if ex[0] == "plugin":
            if got != "ok sound=1":
                diffs.append((ln, "ok sound=1", got))
        elif ex[0] == "in":
            want = "1" if ex[1] == ("ok", True) else "0"
            if got != want:
                diffs.append((ln, want, got))
        elif ex[0] == "feats":
            if ex[1] is not None and sorted(set(got.split(","))) != sorted(set(ex[1])):
                diffs.append((ln, ",".join(ex[1]), got))
        elif ex[0] == "skip":
            continue
        elif ex[0] == "fuel":
            f = dict(p.split("=", 1) for p in got.split())
            k, bound = int(f["fuel"]), int(f["bound"])
            ctx.stat("fuel_checks")
            ctx.stat("fuel_max_needed", 0)
            if f["ranked"] != "1" or f["stable"] != "1":
                diffs.append((ln, "ranked=1 stable=1", got))
            elif ex[1] == "in" and ex[2] > k:
                diffs.append((ln, f"is_available nests {ex[2]} deep in 'in'", got))
            elif ex[1] == "read" and (ex[2] > bound or ex[3] > k + 1):
                diffs.append((ln, f"is_available nests {ex[2]} deep, __getitem__ {ex[3]} deep "
                                  "in a read", got))
            else:
                if ex[1] == "in" and ex[2] == k and k > 0:
                    ctx.stat("fuel_bound_attained")
                ctx.stats["fuel_max_needed"] = max(ctx.stats["fuel_max_needed"], ex[2])
        elif ex[0] == "gap":
            f = dict(p.split("=", 1) for p in got.split())
            mg = f["gap"] == "1" and f["avail"] == "1"
            ctx.stat("gap_checks")
            if mg:
                ctx.stat("gap_inside")
            if mg != ex[1]:
                diffs.append((ln, f"available-but-raises={ex[1]}", got))
        elif ex[0] == "childread":
            if ex[1] and got.split()[0] != "some":
                diffs.append((ln, ex[1], got))
        elif ex[0] == "read":
            _, ok, av, sel, kind, fired, cover = ex
            f = dict(p.split("=", 1) for p in got.split()[1:])
            m_fired = [] if f["fired"] == "-" else sorted(f["fired"].split(","))
            want = ("some" if ok else "none", "1" if av else "0",
                    "-" if sel is None else str(sel), kind, fired)
            have = (got.split()[0], f["avail"], f["sel"], f["kind"], m_fired)
            if want != have:
                diffs.append((ln, want, got))
            elif cover is not None:
                mF = set() if f["coverF"] == "-" else set(f["coverF"].split(","))
                mC = set() if f["coverC"] == "-" else set(
                    k.replace("~", " ") for k in f["coverC"].split(","))
                if mF != cover[0] or mC != cover[1]:
                    diffs.append((ln, ("hash covers", sorted(cover[0]), sorted(cover[1])), got))
    # declaredReads / declared outputs vs. what the methods accessed
    bad_reads = []
    for i, ans in enumerate(decl):
        f = dict(p.split("=", 1) for p in ans.split())
        dF = set() if f["readsF"] == "-" else set(f["readsF"].split(","))
        dC = set() if f["readsC"] == "-" else set(k.replace("~", " ")
                                                   for k in f["readsC"].split(","))
        dO = set(f["outs"].split(","))
        aF, aC = REC.comp_reads.get(i, (set(), set()))
        ctx.stat("recipes_observed_computing", 1 if i in REC.comp_reads else 0)
        ctx.stat("recipes_reads_from_source", 1 if f.get("src") == "ast" else 0)
        if not aF <= dF or not aC <= dC or not REC.comp_outs.get(i, set()) <= dO:
            bad_reads.append((i, sorted(aF - dF), sorted(aC - dC),
                              sorted(REC.comp_outs.get(i, set()) - dO)))
    return diffs, bad_reads


def replay(ctx, data):
    common.import_dclab()
    rp = data.get("replay", data)
    ops = [tuple(o) for o in rp.get("ops", [])]
    if not ops:
        run(ctx)
        return bool(ctx.violations)
    with Registered() as reg:
        world = World(ctx, rp.get("kind", "dict2"), rp.get("variant", 0), nev=rp.get("nev"))
        r = run_history(ctx, world, reg, ops, emit=False, record=False)
        for cls, what in r.failures:
            print(f"  {cls}: {what}")
        return bool(r.failures)
