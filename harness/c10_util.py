"""Operation tracer / fault injector for the command-line tasks (property C10).

Wraps, from outside (no source hooks), the operations through which the dclab CLI tasks touch
the file system:

  h5py.File.__init__ / close, Group / Dataset / AttributeManager mutators, h5py.h5o.copy,
  pathlib.Path.rename / replace / unlink, os.rename / replace / remove / unlink,
  shutil.move / copy / copy2 / copyfile.

Every *outermost* wrapped call on a path below `Tracer.root` is one operation of the trace
alphabet of `DclabModel.Cli.Op`.  `fail_at = k` makes the k-th operation raise `OSError`
(`kind="raise"`; a `close` is performed first and then reported as failed, so no handle leaks)
or kills the process immediately before it (`kind="kill"`, `os._exit(9)`).
"""
import errno
import os
import pathlib
import shutil

import h5py
import h5py.h5o


class Tracer:
    def __init__(self):
        self.root = None
        self.active = False
        self.depth = 0
        self.ops = []          # (kind, path[, path2])
        self.labels = []       # per operation: HDF5 object class written ("events", "attrs:logs", …)
        self._label = ""
        self.fail_at = None
        self.kind = "raise"
        self.fired = False
        self._saved = []

    # ------------------------------------------------------------------------------
    def norm(self, p):
        try:
            if isinstance(p, bytes):
                p = p.decode()
            if not isinstance(p, (str, os.PathLike)):
                return None
            s = os.path.abspath(os.fspath(p))
        except Exception:
            return None
        if self.root is None or not s.startswith(self.root + os.sep):
            return None
        return s

    def hit(self, kind, *paths):
        """called before the operation is performed; returns True if the fault fires *after*
        the real operation (only for close)"""
        k = len(self.ops)
        if self.fail_at is not None and k == self.fail_at and not self.fired:
            self.fired = True
            if self.kind == "kill":
                os._exit(9)
            if kind == "close":
                self.ops.append(("FAULT",) + paths)
                self.labels.append(self._label)
                return True
            self.ops.append(("FAULT",) + paths)
            self.labels.append(self._label)
            raise OSError(errno.EIO, f"verif: injected I/O error at operation {k} ({kind})")
        self.ops.append((kind,) + paths)
        self.labels.append(self._label)
        return False

    # ------------------------------------------------------------------------------
    def _wrap(self, owner, name, kind, pathfn, labelfn=None):
        orig = getattr(owner, name)
        tr = self

        def wrapper(*a, **kw):
            if not tr.active or tr.depth:
                return orig(*a, **kw)
            try:
                k, paths = kind(*a, **kw) if callable(kind) else kind, pathfn(*a, **kw)
            except Exception:
                k, paths = None, None
            if not paths or any(p is None for p in paths):
                return orig(*a, **kw)
            tr._label = ""
            if labelfn is not None:
                try:
                    tr._label = labelfn(*a, **kw)
                except Exception:
                    tr._label = "?"
            late = tr.hit(k, *paths)
            tr.depth += 1
            try:
                res = orig(*a, **kw)
            finally:
                tr.depth -= 1
            if late:
                raise OSError(errno.EIO, "verif: injected I/O error while closing")
            return res

        wrapper.__name__ = getattr(orig, "__name__", name)
        setattr(owner, name, wrapper)
        self._saved.append((owner, name, orig))

    def _objfile(self, oid):
        fid = h5py.h5i.get_file_id(oid)
        return self.norm(h5py.h5f.get_name(fid))

    def install(self):
        if self._saved:
            return
        n = self.norm

        # -- h5py.File ------------------------------------------------------------------
        def file_kind(self_, name=None, mode="r", *a, **kw):
            mode = mode or "r"
            if mode == "r":
                return "openRead"
            if mode in ("w", "w-", "x"):
                return "create"
            return "openAppend"
        self._wrap(h5py.File, "__init__", file_kind,
                   lambda self_, name=None, mode="r", *a, **kw: (n(name),))

        def close_path(self_):
            if not self_.id.valid:
                return None
            return (n(self_.filename),)
        self._wrap(h5py.File, "close", "close", close_path)

        # -- mutators -------------------------------------------------------------------
        def top(path):
            if isinstance(path, bytes):
                path = path.decode()
            parts = [x for x in str(path).split("/") if x]
            return parts[0] if parts else "/"

        def obj_label(self_, *a, **kw):
            name = a[0] if a else kw.get("name", "")
            base = self_.name or "/"
            if isinstance(name, (str, bytes)) and base == "/":
                return top(name if isinstance(name, str) else name.decode())
            return top(base)

        def att_label(self_, *a, **kw):
            return "attrs:" + top(h5py.h5i.get_name(self_._id) or b"/")

        def copy_label(*a, **kw):
            dst = kw.get("dst_loc", a[2] if len(a) > 2 else None)
            dname = kw.get("dst_name", a[3] if len(a) > 3 else b"")
            base = h5py.h5i.get_name(dst) or b"/"
            return top(base if base not in (b"/", "/") else dname)

        obj = lambda self_, *a, **kw: (self._objfile(self_.id),)       # noqa: E731
        for name in ("create_dataset", "create_group", "require_group", "require_dataset",
                     "__setitem__", "__delitem__", "copy", "move", "create_dataset_like",
                     "create_virtual_dataset"):
            if hasattr(h5py.Group, name):
                self._wrap(h5py.Group, name, "write", obj, obj_label)
        for name in ("__setitem__", "resize", "write_direct", "write_direct_chunk"):
            if hasattr(h5py.Dataset, name):
                self._wrap(h5py.Dataset, name, "write", obj, obj_label)
        att = lambda self_, *a, **kw: (self._objfile(self_._id),)       # noqa: E731
        for name in ("__setitem__", "__delitem__", "create", "modify"):
            self._wrap(h5py.AttributeManager, name, "write", att, att_label)

        def h5o_dst(*a, **kw):
            dst = kw.get("dst_loc", a[2] if len(a) > 2 else None)
            return (self._objfile(dst),)
        self._wrap(h5py.h5o, "copy", "write", h5o_dst, copy_label)

        # -- renames / removals ---------------------------------------------------------
        two = lambda a, b, *r, **kw: (n(a), n(b))                        # noqa: E731
        one = lambda a, *r, **kw: (n(a),)                                # noqa: E731
        self._wrap(pathlib.Path, "rename", "rename", two)
        self._wrap(pathlib.Path, "replace", "rename", two)
        self._wrap(pathlib.Path, "unlink", "unlink", one)
        self._wrap(os, "rename", "rename", two)
        self._wrap(os, "replace", "rename", two)
        self._wrap(os, "remove", "unlink", one)
        self._wrap(os, "unlink", "unlink", one)
        self._wrap(shutil, "move", "rename", two)
        for name in ("copy", "copy2", "copyfile"):
            self._wrap(shutil, name, "copyto", two)

    def uninstall(self):
        for owner, name, orig in reversed(self._saved):
            setattr(owner, name, orig)
        self._saved = []

    def start(self, root, fail_at=None, kind="raise"):
        self.root = os.path.abspath(str(root))
        self.ops = []
        self.labels = []
        self.depth = 0
        self.fail_at = fail_at
        self.kind = kind
        self.fired = False
        self.active = True

    def stop(self):
        self.active = False
        return list(self.ops)


TRACER = Tracer()


def encode_trace(ops, roles):
    """ops → protocol tokens of Drive/C10.lean; `roles` maps path → number (extended here)"""
    toks = []
    for op in ops:
        kind = op[0]
        ps = []
        for p in op[1:]:
            if p not in roles:
                roles[p] = len(roles)
            ps.append(roles[p])
        if kind == "rename":
            toks.append(f"m{ps[0]}:{ps[1]}")
        elif kind == "copyto":          # shutil.copy*: the target is (re)created and written
            toks.append(f"c{ps[1]}")
        else:
            toks.append({"unlink": "u", "create": "c", "write": "w", "close": "x",
                         "openRead": "r", "openAppend": "a"}[kind] + str(ps[0]))
    return toks
