"""Operation tracer / fault injector for the command-line tasks (property C10).

Wraps, from outside (no source hooks), the operations through which the dclab CLI tasks touch
the file system:

  h5py.File.__init__ / close, Group / Dataset / AttributeManager mutators, h5py.h5o.copy,
  pathlib.Path.rename / replace / unlink, os.rename / replace / remove / unlink,
  shutil.move / copy / copy2 / copyfile.

Every *outermost* wrapped call on a path below `Tracer.root` is one operation of the trace
alphabet of `DclabModel.Cli.Op`.  `fail_at = k` makes the k-th operation raise `OSError`
(`kind="raise"`; a `close` is performed first, and — for a file open for writing — the file is
truncated to half its size like after a failed flush, then the close is reported as failed)
or kills the process immediately before it (`kind="kill"`, `os._exit(9)`).
"""
import errno
import os
import pathlib
import shutil

import h5py
import h5py.h5o


class Tracer:
    def __init__(self):
        self.root = None
        self.active = False
        self.depth = 0
        self.ops = []          # (kind, path[, path2])
        self.aliases = {}      # (st_dev, st_ino) -> canonical path of a registered file
        self.labels = []       # per operation: HDF5 object class written ("events", "attrs:logs", …)
        self._label = ""
        self.fail_at = None
        self.kind = "raise"
        self.fired = False
        self._saved = []

    # ------------------------------------------------------------------------------
    def _str(self, p):
        if isinstance(p, bytes):
            p = p.decode()
        if not isinstance(p, (str, os.PathLike)):
            return None
        return os.fspath(p)

    def _inroot(self, s):
        if self.root is None or not s.startswith(self.root + os.sep):
            return None
        return s

    def norm_entry(self, p):
        """canonical name of the *directory entry* an unlink/rename acts on: symbolic links in the
        directory part are followed, a final symbolic link is not (it is the link that is removed
        or replaced)"""
        try:
            s = self._str(p)
            if s is None:
                return None
            s = os.path.abspath(s)
            s = os.path.join(os.path.realpath(os.path.dirname(s)), os.path.basename(s))
        except Exception:
            return None
        return self._inroot(s)

    def norm(self, p):
        """canonical name of the *file* an open/write/close acts on: all symbolic links followed
        (realpath) and hard links identified by inode with the registered files (`aliases`), so
        that an operation reaching an input or output through an alias is classified as such"""
        try:
            s = self._str(p)
            if s is None:
                return None
            s = os.path.realpath(os.path.abspath(s))
            try:
                st = os.stat(s)
                s = self.aliases.get((st.st_dev, st.st_ino), s)
            except OSError:
                pass
        except Exception:
            return None
        return self._inroot(s)

    def register(self, paths):
        """remember the inodes of existing files (inputs) for alias detection"""
        for p in paths:
            try:
                st = os.stat(p)
                self.aliases.setdefault((st.st_dev, st.st_ino), os.path.realpath(p))
            except OSError:
                pass

    def hit(self, kind, *paths):
        """called before the operation is performed; returns True if the fault fires *after*
        the real operation (only for close)"""
        k = len(self.ops)
        if self.fail_at is not None and k == self.fail_at and not self.fired:
            self.fired = True
            if self.kind == "kill":
                os._exit(9)
            if kind == "close":
                self.ops.append(("FAULT",) + paths)
                self.labels.append(self._label)
                return True
            self.ops.append(("FAULT",) + paths)
            self.labels.append(self._label)
            raise OSError(errno.EIO, f"verif: injected I/O error at operation {k} ({kind})")
        self.ops.append((kind,) + paths)
        self.labels.append(self._label)
        return False

    # ------------------------------------------------------------------------------
    def _wrap(self, owner, name, kind, pathfn, labelfn=None):
        orig = getattr(owner, name)
        tr = self

        def wrapper(*a, **kw):
            if not tr.active or tr.depth:
                return orig(*a, **kw)
            try:
                k, paths = kind(*a, **kw) if callable(kind) else kind, pathfn(*a, **kw)
            except Exception:
                k, paths = None, None
            if not paths or any(p is None for p in paths):
                return orig(*a, **kw)
            tr._label = ""
            if labelfn is not None:
                try:
                    tr._label = labelfn(*a, **kw)
                except Exception:
                    tr._label = "?"
            writable = False
            if k == "close":
                try:
                    writable = a[0].mode != "r"
                except Exception:
                    writable = False
            late = tr.hit(k, *paths)
            tr.depth += 1
            try:
                res = orig(*a, **kw)
            finally:
                tr.depth -= 1
            if late:
                # a failing close of a file open for writing is a failed flush: the handle is
                # released, but the data on disk are incomplete
                if writable:
                    try:
                        size = os.path.getsize(paths[0])
                        with open(paths[0], "r+b") as fd:
                            fd.truncate(size // 2)
                    except OSError:
                        pass
                raise OSError(errno.EIO, "verif: injected I/O error while closing")
            return res

        wrapper.__name__ = getattr(orig, "__name__", name)
        setattr(owner, name, wrapper)
        self._saved.append((owner, name, orig))

    def _objfile(self, oid):
        fid = h5py.h5i.get_file_id(oid)
        return self.norm(h5py.h5f.get_name(fid))

    def install(self):
        if self._saved:
            return
        n = self.norm

        # -- h5py.File ------------------------------------------------------------------
        def file_kind(self_, name=None, mode="r", *a, **kw):
            mode = mode or "r"
            if mode == "r":
                return "openRead"
            if mode in ("w", "w-", "x"):
                return "create"
            return "openAppend"
        self._wrap(h5py.File, "__init__", file_kind,
                   lambda self_, name=None, mode="r", *a, **kw: (n(name),))

        def close_path(self_):
            if not self_.id.valid:
                return None
            return (n(self_.filename),)
        self._wrap(h5py.File, "close", "close", close_path)

        # -- mutators -------------------------------------------------------------------
        def top(path):
            if isinstance(path, bytes):
                path = path.decode()
            parts = [x for x in str(path).split("/") if x]
            return parts[0] if parts else "/"

        def obj_label(self_, *a, **kw):
            name = a[0] if a else kw.get("name", "")
            base = self_.name or "/"
            if isinstance(name, (str, bytes)) and base == "/":
                return top(name if isinstance(name, str) else name.decode())
            return top(base)

        def att_label(self_, *a, **kw):
            return "attrs:" + top(h5py.h5i.get_name(self_._id) or b"/")

        def copy_label(*a, **kw):
            dst = kw.get("dst_loc", a[2] if len(a) > 2 else None)
            dname = kw.get("dst_name", a[3] if len(a) > 3 else b"")
            base = h5py.h5i.get_name(dst) or b"/"
            return top(base if base not in (b"/", "/") else dname)

        obj = lambda self_, *a, **kw: (self._objfile(self_.id),)       # noqa: E731
        for name in ("create_dataset", "create_group", "require_group", "require_dataset",
                     "__setitem__", "__delitem__", "copy", "move", "create_dataset_like",
                     "create_virtual_dataset"):
            if hasattr(h5py.Group, name):
                self._wrap(h5py.Group, name, "write", obj, obj_label)
        for name in ("__setitem__", "resize", "write_direct", "write_direct_chunk"):
            if hasattr(h5py.Dataset, name):
                self._wrap(h5py.Dataset, name, "write", obj, obj_label)
        att = lambda self_, *a, **kw: (self._objfile(self_._id),)       # noqa: E731
        for name in ("__setitem__", "__delitem__", "create", "modify"):
            self._wrap(h5py.AttributeManager, name, "write", att, att_label)

        def h5o_dst(*a, **kw):
            dst = kw.get("dst_loc", a[2] if len(a) > 2 else None)
            return (self._objfile(dst),)
        self._wrap(h5py.h5o, "copy", "write", h5o_dst, copy_label)

        # -- renames / removals ---------------------------------------------------------
        ne = self.norm_entry
        two = lambda a, b, *r, **kw: (ne(a), ne(b))                      # noqa: E731
        one = lambda a, *r, **kw: (ne(a),)                               # noqa: E731
        self._wrap(pathlib.Path, "rename", "rename", two)
        self._wrap(pathlib.Path, "replace", "rename", two)
        self._wrap(pathlib.Path, "unlink", "unlink", one)
        self._wrap(os, "rename", "rename", two)
        self._wrap(os, "replace", "rename", two)
        self._wrap(os, "remove", "unlink", one)
        self._wrap(os, "unlink", "unlink", one)
        self._wrap(shutil, "move", "rename", two)
        for name in ("copy", "copy2", "copyfile"):
            self._wrap(shutil, name, "copyto", lambda a, b, *r, **kw: (n(a), n(b)))

    def uninstall(self):
        for owner, name, orig in reversed(self._saved):
            setattr(owner, name, orig)
        self._saved = []

    def start(self, root, fail_at=None, kind="raise", inputs=()):
        self.root = os.path.realpath(str(root))
        self.aliases = {}
        self.register(inputs)
        self.ops = []
        self.labels = []
        self.depth = 0
        self.fail_at = fail_at
        self.kind = kind
        self.fired = False
        self.active = True

    def stop(self):
        self.active = False
        return list(self.ops)


TRACER = Tracer()


def encode_trace(ops, roles):
    """ops → protocol tokens of Drive/C10.lean; `roles` maps path → number (extended here)"""
    toks = []
    for op in ops:
        kind = op[0]
        ps = []
        for p in op[1:]:
            if p not in roles:
                roles[p] = len(roles)
            ps.append(roles[p])
        if kind == "rename":
            toks.append(f"m{ps[0]}:{ps[1]}")
        elif kind == "copyto":          # shutil.copy*: the target is (re)created and written
            toks.append(f"c{ps[1]}")
        else:
            toks.append({"unlink": "u", "create": "c", "write": "w", "close": "x",
                         "openRead": "r", "openAppend": "a"}[kind] + str(ps[0]))
    return toks
