"""C13 — the integrity checker accepts dclab's own output and flags real inconsistencies.

(A) closure: files produced through every dclab write path (RTDCWriter, export.hdf5, compress,
    repack, condense, split, join; tdms2rtdc in the thorough tier) from complete metadata must
    have no violation;
(B) detection: single and paired seeded corruptions applied with raw h5py; every corruption
    names the cue it must trigger (property oracle, evaluated directly on `check_dataset`),
    and the whole violation set is compared with the Lean model (`violations (describe file)`);
(C) copies: every file is repacked and compressed and checked again: same violations
    (model: `copyD`, `compressD`); F23 (unknown feature dropped by the copy) is an open finding.
"""
import copy
import json
import pathlib
import shutil

import numpy as np

from . import common, gen, c13_util

ID = "C13"
LEAN_MODULES = ["DclabModel.Properties.C13"]
RULE = ("base files: seeded choice of write path (writer, writer HISTORY = portions + re-open in "
        "append / replace mode re-storing all or some features incl. index, export, export of a "
        "feature SUBSET incl. none (basins only) with all / some / no events selected, compress, "
        "repack, condense, split, join) x feature set (scalars / +image+index / "
        "+fluorescence+trace) x event count; 20% of the files are additionally checked as opened "
        "dataset after every config section was read; then 0, 1 or 2 seeded corruptions out of 20 kinds "
        "(truncate/extend a feature or trace, event count +-k or removed, ROI x/y, unknown "
        "feature, 'def', delete one mandatory key or the whole imaging section, permute / shift "
        "/ shorten index, channel/laser/sample counts, channel name removed, laser power 0, "
        "external link added / an existing feature replaced in place by an external link, shape "
        "of one image-like feature (image, image_bg, mask) changed, set-up value <= 0); the same "
        "path is checked before and after every single corruption; each file is checked, repacked+checked, "
        "compressed+checked. Session 4: 8 (quick) / 40 (thorough) LARGE scalar-only measurements "
        "of 2e5-3e5 events (writer, export), clean and with one array-comparing corruption each in "
        "rotation (event number skipped / duplicated / adjacent entries swapped at a position "
        "biased towards the tail, feature truncated / extended by 1-3 rows, event count +-k or set "
        "to a boundary value 0 / 1 / 2n+1); the boundary values also for the small files (two "
        "recorded cases with event count 0); alert-exercising corruptions (flow rates that do not "
        "add up, non-mandatory key removed, channel name without feature, temp feature without "
        "temperature key); every uncorrupted file is exported again (every second event; all or "
        "every second innate feature) and the output checked. Session 4 (second pass): feature sets "
        "with ml_score_??? features (one partially rated, one fully rated, one that rated no event: "
        "all-nan) and a non-zero temp feature of a ZMD device through every write path; export of an "
        "event RANGE (only the unrated events / a range ending before the last event); either part "
        "of a dclab-split; CHUNK-SPANNING outputs: with writer.CHUNK_SIZE_BYTES shrunk so that "
        "10-13 events fill one HDF5 chunk of the target feature (image / mask / trace; chunk length "
        "measured in a written file), filtered exports of one contiguous block (events before / "
        "after it or not) and of a selection with holes, and dclab-split outputs, of k*c-1, k*c, "
        "k*c+1 events (k = 1..3), per (feature set, target) every size; corruptions mlbad (one "
        "score outside [0, 1]) and mlnan (scores made nan: still valid). A case is non-trivial when it has at "
        "least one corruption; distinct = distinct (write path, feature set, corruption list).")
TRUSTED_BASE = [
    "harness/c13_util.py:describe decides the model's `ml` flag (`ds['ml_class']` raises ValueError): "
    "a rated (non-nan) score outside [0, 1], or a score feature whose length is neither len(ds) nor "
    "1; the two messages check_ml_class passes on are recognised by the score feature's name plus a "
    "range statement, and by NumPy's broadcast refusal",
    "harness/c13_util.py:describe (raw h5py + dclab.definitions.feature_exists + "
    "DEFECTIVE_FEATURES) maps a file to the abstract description D; cue messages are mapped to "
    "canonical identifiers by regular expressions",
    "h5py/HDF5 link and attribute semantics; numpy broadcasting rules (F13)",
    "harness/c13_util.py:ALERT_RULES map alert messages to identifiers (an unrecognised alert "
    "message switches the alert-level comparison off for that file, NOTE); flow rates are compared "
    "as exact fractions of the stored doubles (the float addition sample+sheath is not modelled; "
    "the generator stays far from the tolerance boundary)",
    "the stored index crosses the protocol run-length encoded (`a-b` = a, a+1, ..., b), expanded "
    "by Drive/C13.lean:parseRun"]
ASSUMPTIONS = [
    "sections of ds.config exist when they hold a key or were touched before "
    "check_metadata_missing (experiment, setup, fluorescence) — Model/Check.lean:alwaysTouched",
    "files without `event count` whose first stored feature is `trace` are not generated",
    "the chunk-spanning cases shrink the public constant dclab.rtdc_dataset.writer."
    "CHUNK_SIZE_BYTES; when it does not exist or the measured chunk length stays above 48 events "
    "the cases are not built (NOTE, statistic case_not_built)",
    "truncating corruptions keep at least one row: a zero-length trace member makes "
    "check_fl_samples_per_event raise IndexError (observation, not generated); event counts "
    "are never made negative"]
NOT_PROVED = [
    "check_ml_class is a flag of the model (mlClassError): that all-nan / partially rated scores "
    "raise nothing, and that chunk-wise copying of non-scalar features keeps every selected event, "
    "are correspondence-only (direct oracle: dclab's own output has no violation); the flag of a "
    "COMPRESSED copy is not compared when score features meet a derived-metadata corruption",
    "alert level: modelled and compared are check_metadata_missing (non-mandatory keys, desirable "
    "sections, temp rule), check_fl_metadata_channel_names, check_empty, check_flow_rate and the "
    "uncommon-basin-path branch; NOT modelled (left out of the comparison by class): "
    "check_fmt_hdf5 (image attributes, log line length), check_metadata_hdf5_type, "
    "check_fl_max(_ctc)_positive, check_shapein_issue3_bad_medium, warnings recorded while "
    "opening; info level: only 'Fluorescence: ...' (compression / format cues not modelled)",
    "closure is proved for the writer model, writer histories, rtdc_copy (copy_output_clean, no "
    "guard) and export.hdf5 (export_output_clean: any selection size and feature subset; F30 "
    "guard); compress of a consistent file only via compress_same_violations_partial; "
    "condense/split/join/tdms2rtdc outputs remain correspondence-only (the check asserts no "
    "violation on every such file); exportD models the event-count rectification only (ROI / "
    "samples / channel-count defaults keep their values: row shapes do not change)",
    "the tolerant index comparison (indexOkTol) is a variant model: its only tie to real code is "
    "the NumPy reference evaluation (np.allclose) on every stored index",
    "same_violations_after_copy holds only under the guards NoUnknownFeature (F23, open) and "
    "no external link (the copy resolves links); compress additionally rectifies derived "
    "metadata (O8) — modelled by rectifyD, reported as NOTE"]

translate = c13_util.translate

FL_META = {"bit depth": 16, "channel count": 1, "channels installed": 3, "laser count": 1,
           "lasers installed": 3, "sample rate": 312500, "samples per event": gen.TRACE_LEN,
           "signal max": 1.0, "signal min": -1.0, "trace median": 21,
           "channel 1 name": "FITC", "laser 1 lambda": 488.0, "laser 1 power": 10.0}

FEATSETS = {
    "plain": ["deform", "area_um", "bright_avg"],
    "image": ["deform", "area_um", "image", "index", "pos_x"],
    "fl": ["deform", "area_um", "fl1_max", "trace", "index"],
    "flimg": ["deform", "fl1_max", "fl2_max", "image", "trace"],
    "imgs": ["deform", "image", "image_bg", "mask", "index"],
    # machine-learning scores (see `ml_rows`): partially rated, fully rated, never rated; `temp`
    # of a ZMD device (the base metadata name one) with non-zero values
    "ml": ["deform", "area_um", "ml_score_abc", "ml_score_xyz", "temp"],
    "mlnan": ["deform", "ml_score_abc", "ml_score_nan", "index"],
}
#: events (tokens) below this number are rated by the classifier `ml_score_abc`, later ones are
#: not (nan); `ml_score_nan` rated no event at all, `ml_score_xyz` every event
ML_RATED = 6
PATHS = ["writer", "history", "export", "export-subset", "compress", "repack", "condense", "split",
         "join"]
#: outputs whose non-scalar features span more than one HDF5 chunk (see `gen_chunk_cases`) and
#: exports of an explicit event range
CHUNK_PATHS = ["export-chunk", "split-chunk"]
#: (feature set, non-scalar feature whose chunk length the selection size is relative to)
CHUNK_TARGETS = [("image", "image"), ("fl", "trace"), ("flimg", "image"), ("flimg", "trace"),
                 ("imgs", "mask")]
#: large measurements (scalar features only, >= 2e5 events): the array-comparing cues (index
#: enumerates, feature lengths) must be exact for every size, also far from the first event
LARGE_FEATS = ["deform", "area_um", "index"]
LARGE_PATHS = ["writer-large", "export-large"]
#: corruptions whose cue compares whole arrays / lengths (drawn for the large files)
ARRAY_KINDS = ["skipindex", "permindex", "dupindex", "trunc", "evcount", "evset", "extend",
               "shiftindex"]


def ml_rows(feat, toks):
    """scores in [0, 1] (multiples of 1/1000), nan for events the classifier did not rate"""
    toks = list(toks)
    a = np.array([((gen.hash_str(feat) + 7919 * t) % 1001) / 1000.0 for t in toks], dtype=float)
    if feat == "ml_score_nan":
        a[:] = np.nan
    elif feat == "ml_score_abc":
        a[np.array(toks, dtype=int) >= ML_RATED] = np.nan
    return a


def rows(feat, toks):
    return ml_rows(feat, toks) if feat.startswith("ml_score_") else gen.rows(feat, toks)


def write_base(path, fs, n, rid="rid-c13", t0=0, meta_extra=None):
    meta = {k: v for k, v in base_meta(fs).items() if k == "fluorescence"}
    for sec, kv in (meta_extra or {}).items():
        meta.setdefault(sec, {}).update(kv)
    logs = {"verif": ["line one", "line two"]} if meta_extra is None else None
    if not any(f.startswith("ml_score_") for f in FEATSETS[fs]):
        gen.make_rtdc(path, range(t0, t0 + n), feats=list(FEATSETS[fs]),
                      trace_names=("fl1_raw", "fl1_median"), logs=logs, meta=meta, rid=rid)
        return path
    dclab = common.import_dclab()
    m = copy.deepcopy(gen.BASE_META)
    for sec, kv in meta.items():
        m.setdefault(sec, {}).update(kv)
    m["experiment"]["run identifier"] = rid
    with dclab.RTDCWriter(path, mode="reset") as hw:
        hw.store_metadata(m)
        for f, d in feature_data(fs, range(t0, t0 + n)).items():
            hw.store_feature(f, d)
        for name, lines in (logs or {}).items():
            hw.store_log(name, lines)
    return path


class ExportRaised(Exception):
    """dclab's export refused the request (not the integrity checker's business)"""


def write_large(path, n):
    """scalar-only file with `n` events (deterministic data, enumerated index)"""
    dclab = common.import_dclab()
    with dclab.RTDCWriter(path, mode="reset") as hw:
        hw.store_metadata(base_meta("large"))
        hw.store_feature("deform", np.linspace(0.01, 0.2, n))
        hw.store_feature("area_um", np.linspace(20, 200, n))
        hw.store_feature("index", np.arange(1, n + 1))
    return path


def feature_data(fs, toks):
    """name -> data for every feature of a feature set (index is enumerated by the writer)"""
    out = {}
    for f in FEATSETS[fs]:
        if f == "index":
            out[f] = np.arange(1, len(toks) + 1)
        elif f == "trace":
            out[f] = gen.trace_dict(("fl1_raw", "fl1_median"), toks)
        else:
            out[f] = rows(f, toks)
    return out


def base_meta(fs):
    m = copy.deepcopy(gen.BASE_META)
    m["experiment"]["run identifier"] = "rid-c13"
    if fs in ("fl", "flimg"):
        flm = dict(FL_META)
        if fs == "flimg":
            flm.update({"channel count": 2, "channel 2 name": "PE"})
        m["fluorescence"] = flm
    return m


def write_history(path, fs, ops):
    """writer history: first op writes the file, later ops re-open it in append / replace mode"""
    dclab = common.import_dclab()
    n = 0
    for i, op in enumerate(ops):
        kind, k = op[0], op[1]
        mode = "reset" if i == 0 else ("replace" if kind.startswith("replace") else "append")
        with dclab.RTDCWriter(path, mode=mode) as hw:
            if i == 0:
                hw.store_metadata(base_meta(fs))
            if kind == "append":                      # k more events, optionally in two portions
                cuts = [n, n + k] if len(op) < 3 or not op[2] or k < 2 else [n, n + k // 2, n + k]
                for a, b in zip(cuts[:-1], cuts[1:]):
                    for f, d in feature_data(fs, range(a, b)).items():
                        hw.store_feature(f, d)
                n += k
            elif kind == "replace":                   # every feature stored again with k events
                for f, d in feature_data(fs, range(k)).items():
                    hw.store_feature(f, d)
                n = k
            elif kind == "replace_some":              # some features stored again, same length
                data = feature_data(fs, range(n))
                for f in op[2]:
                    if f in data:
                        hw.store_feature(f, data[f])
    return path


def make_base(ctx, wd, spec):
    """spec = (write path, feature set, n, extra); returns the path of the produced file"""
    dclab = common.import_dclab()
    from dclab import cli
    wpath, fs, n = spec[:3]
    extra = spec[3] if len(spec) > 3 else {}
    src = wd / "src.rtdc"
    out = wd / "base.rtdc"
    if wpath == "writer":
        return write_base(out, fs, n)
    if wpath == "history":
        return write_history(out, fs, extra["ops"])
    if wpath == "writer-large":
        return write_large(out, n)
    if wpath == "export-large":
        write_large(src, n + 3)
        with dclab.new_dataset(src) as ds:
            ds.filter.manual[[0, n // 2, n + 2]] = False
            ds.apply_filter()
            ds.export.hdf5(out, features=list(LARGE_FEATS), filtered=True, override=True)
        return out
    if wpath == "export":
        write_base(src, fs, n + 3)
        with dclab.new_dataset(src) as ds:
            ds.filter.manual[:3] = False
            ds.apply_filter()
            feats = [f for f in ds.features_innate]
            ds.export.hdf5(out, features=feats, filtered=True, override=True)
        return out
    if wpath == "export-subset":
        write_base(src, fs, n)
        with dclab.new_dataset(src) as ds:
            sel = extra.get("select", "all")
            if sel == "none":
                ds.filter.manual[:] = False
            elif sel == "some":
                ds.filter.manual[::2] = False
            ds.apply_filter()
            try:
                import warnings
                with warnings.catch_warnings():
                    warnings.simplefilter("ignore")
                    ds.export.hdf5(out, features=list(extra["subset"]), filtered=sel != "all",
                                   basins=bool(extra.get("basins")), override=True)
            except Exception as e:  # noqa
                raise ExportRaised(f"{type(e).__name__}: {e}")
        return out
    if wpath in ("compress", "repack", "condense"):
        write_base(src, fs, n)
        import io
        import contextlib
        with contextlib.redirect_stdout(io.StringIO()):
            getattr(cli, wpath)(path_in=src, path_out=out)
        return out
    if wpath == "split":
        write_base(src, fs, 2 * n)
        res = cli.split(path_in=pathlib.Path(src), path_out=wd / "splitdir", split_events=n,
                        ret_out_paths=True, verbose=False)
        shutil.copy(sorted(res)[extra.get("part", 0) % len(res)], out)
        return out
    if wpath == "export-range":                  # the events [a, b) of the source only
        write_base(src, fs, n)
        export_selection(src, out, range(*extra["keep"]))
        return out
    if wpath in CHUNK_PATHS:
        return make_chunked(wd, wpath, fs, extra, src, out)
    if wpath == "join":
        a = write_base(wd / "a.rtdc", fs, n // 2 + 1, t0=0)
        b = wd / "b.rtdc"
        write_base(b, fs, n - n // 2 - 1 + 1, t0=50,
                   meta_extra={"experiment": {"time": "10:54:11", "run index": 2}})
        cli.join(path_out=out, paths_in=[a, b])
        return out
    raise ValueError(wpath)


class CaseSkipped(Exception):
    """the generator cannot build this case on the code under test (never a verdict)"""


def small_chunks(nbytes):
    """context: dclab stores HDF5 datasets in chunks of `writer.CHUNK_SIZE_BYTES` bytes and the
    filtered export copies non-scalar features chunk by chunk; shrinking the (public) constant
    makes a few dozen small events span several chunks.  Yields False when it does not exist."""
    import contextlib

    @contextlib.contextmanager
    def cm():
        from dclab.rtdc_dataset import writer
        old = getattr(writer, "CHUNK_SIZE_BYTES", None)
        if not isinstance(old, int) or isinstance(old, bool):
            yield False
            return
        writer.CHUNK_SIZE_BYTES = int(nbytes)
        try:
            yield True
        finally:
            writer.CHUNK_SIZE_BYTES = old
    return cm()


def chunk_rows(path, feat):
    """events per HDF5 chunk of a stored feature, as observable in the file (None: contiguous)"""
    import h5py
    with h5py.File(path, "r") as h:
        obj = h["events"][feat]
        if isinstance(obj, h5py.Group):
            obj = obj[sorted(obj.keys())[0]]
        return int(obj.chunks[0]) if obj.chunks else None


def export_selection(src, out, keep):
    """filtered export.hdf5 of the events `keep` (all innate features)"""
    dclab = common.import_dclab()
    import warnings
    with dclab.new_dataset(src) as ds:
        ds.filter.manual[:] = False
        ds.filter.manual[np.array(sorted(keep), dtype=int)] = True
        ds.apply_filter()
        with warnings.catch_warnings():
            warnings.simplefilter("ignore")
            ds.export.hdf5(out, features=list(ds.features_innate), filtered=True, override=True)
    return out


#: largest chunk length (events) for which the chunk-spanning cases are built
MAX_CHUNK_ROWS = 48


def make_chunked(wd, wpath, fs, extra, src, out):
    """outputs whose non-scalar features span several HDF5 chunks: the selection has
    k*c-1, k*c or k*c+1 events, c = chunk length of the target feature as found in a file
    written with the same settings (measured, not computed)"""
    from dclab import cli
    with small_chunks(extra["csb"]) as shrunk:
        write_base(src, fs, 12)
        c = chunk_rows(src, extra["target"])
        if c is None or c > MAX_CHUNK_ROWS:
            raise CaseSkipped(f"chunk length of '{extra['target']}' is {c} events "
                              f"(chunk size shrunk: {shrunk}): chunk-spanning case not built")
        m = extra["k"] * c + extra["delta"]
        if wpath == "export-chunk":
            if extra["mode"] == "contig":        # one block of m events, off before, pad after
                write_base(src, fs, extra["off"] + m + extra["pad"])
                keep = range(extra["off"], extra["off"] + m)
            else:                                # m events with a hole inside and one at the end
                write_base(src, fs, m + 2)
                hole = 1 + extra["hole"] % (m - 1)
                keep = [i for i in range(m + 1) if i != hole]
            export_selection(src, out, keep)
            return out
        rest = {"one": 1, "c-1": c - 1, "c": c, "c+1": c + 1, "m": m}[extra["rest"]]
        write_base(src, fs, m + min(rest, m))
        res = cli.split(path_in=pathlib.Path(src), path_out=wd / "splitdir", split_events=m,
                        ret_out_paths=True, verbose=False)
        shutil.copy(sorted(res)[extra["part"] % len(res)], out)
        return out


def gen_chunk_cases(rng, thorough):
    """chunk-spanning selections: every (feature set, target feature) x size k*c-1, k*c, k*c+1
    as one contiguous block, one of them with holes, and as dclab-split (either part)"""
    cases = []
    for fs, target in CHUNK_TARGETS:
        row_bytes = 2 * gen.TRACE_LEN if target == "trace" else gen.IMG_SHAPE[0] * gen.IMG_SHAPE[1]

        def ex(**kw):
            d = {"target": target, "csb": row_bytes * rng.randint(10, 13),
                 "k": rng.choice([1, 1, 2, 3] if thorough else [1, 1, 2])}
            d.update(kw)
            return d
        for delta in (-1, 0, 1):
            pad = rng.choice([0, 0, 2])
            off = rng.choice([0, 1, 3]) if pad else rng.choice([1, 3])
            cases.append((("export-chunk", fs, 0, ex(delta=delta, mode="contig", off=off,
                                                     pad=pad)), []))
            cases.append((("split-chunk", fs, 0, ex(delta=delta, part=rng.choice([0, 1]),
                                                    rest=rng.choice(["one", "c-1", "c", "c+1",
                                                                     "m", "m"]))), []))
        cases.append((("export-chunk", fs, 0, ex(delta=rng.choice([-1, 0, 1]), mode="holes",
                                                 hole=rng.randrange(1000))), []))
    return cases


def gen_extra(rng, wpath, fs, n):
    """seeded parameters of the write paths that have some"""
    if wpath == "split":
        return {"part": rng.choice([0, 1])}
    if wpath == "export-subset":
        feats = list(FEATSETS[fs])
        k = rng.choice([0, 1, 1, 2, 3, len(feats)])
        subset = sorted(rng.sample(feats, min(k, len(feats))))
        sel = rng.choice(["all", "all", "some", "none"])
        basins = (not subset) or rng.random() < 0.4
        return {"subset": subset, "select": sel, "basins": basins}
    if wpath == "history":
        ops = [["append", rng.randint(2, n), rng.random() < 0.5]]
        for _ in range(rng.randint(1, 3)):
            r = rng.random()
            if r < 0.45:
                ops.append(["replace", rng.randint(2, n + 3)])
            elif r < 0.75:
                ops.append(["append", rng.randint(1, 5), rng.random() < 0.5])
            else:
                feats = list(FEATSETS[fs])
                ops.append(["replace_some", 0, sorted(rng.sample(feats, rng.randint(1, len(feats))))])
        return {"ops": ops}
    return {}


# ---------------------------------------------------------------------------------------
def replace_ds(h, name, data):
    attrs = dict(h[name].attrs)
    del h[name]
    d = h.create_dataset(name, data=data)
    for k, v in attrs.items():
        d.attrs[k] = v


IMPORTANT = None


#: the mandatory keys at the time the property was written; a key may be added to dclab's
#: tables (the model follows the regenerated table) but none of these may silently stop being
#: reported — the expected cue of a `delkey` corruption is taken from this pinned list
PINNED = {
    "experiment": ["date", "event count", "run index", "sample", "time"],
    "imaging": ["flash device", "flash duration", "frame rate", "pixel size", "roi position x",
                "roi position y", "roi size x", "roi size y"],
    "setup": ["channel width", "chip region", "flow rate", "medium"]}
PINNED_FL = {
    "fluorescence": ["bit depth", "channel count", "channels installed", "laser count",
                     "lasers installed", "sample rate", "samples per event", "signal max",
                     "signal min", "trace median"]}


def important_keys(fl):
    out = [(s, k) for s, ks in PINNED.items() for k in ks]
    if fl:
        out += [(s, k) for s, ks in PINNED_FL.items() for k in ks]
    return sorted(out)


def draw_pos(rng, n):
    """position of an index defect: anywhere, with a bias towards the tail of the measurement"""
    if rng.random() < 0.5:
        return n - 1 - rng.randrange(max(1, n // 3))
    return rng.randrange(n)


def gen_corruption(rng, h_info, only=None):
    """choose one corruption applicable to the file; returns (kind, args…); `only` restricts
    the kinds (as far as they apply to the file)"""
    feats, traces, fl, n = h_info["feats"], h_info["traces"], h_info["fl"], h_info["n"]
    kinds = ["evcount", "evdel", "roi", "unknown", "defname", "delkey", "delkey", "nonpos",
             "extlink", "evcount", "evset", "flowbad", "delopt", "addchan"]
    if "temp" not in feats:
        kinds += ["tempfeat"]
    mls = [f for f in feats if f.startswith("ml_score_")]
    if mls and n > 0:
        kinds += ["mlbad", "mlbad", "mlnan"]
    scal = [f for f in feats if f not in ("trace",) and not f.startswith("basinmap")]
    if scal and n > 3:
        kinds += ["trunc", "extend"]
    imgs = [f for f in ("image", "image_bg", "mask") if f in feats]
    if imgs:
        kinds += ["imgshape", "imgshape"]
    if scal:
        kinds += ["extreplace"]
    if "image" in feats:
        kinds += ["roi", "delimaging"]
    if "index" in feats:
        kinds += ["permindex", "shiftindex", "permindex"]
        if n >= 2:
            kinds += ["skipindex", "dupindex"]
    else:
        kinds += ["addindex"]
    if fl:
        kinds += ["chancount", "lasercount", "delchan", "power0", "delkeyfl"]
    if fl and traces:
        kinds += ["samples"]
    if fl and traces and n > 3:       # truncations keep at least one event (see ASSUMPTIONS)
        kinds += ["trtrunc"]
    if only:
        kinds = [k for k in kinds if k in only] or kinds
    k = rng.choice(kinds)
    if k in ("trunc", "extend"):
        return (k, rng.choice(scal), rng.randint(1, 3))
    if k == "mlbad":                    # one score outside [0, 1]
        return (k, rng.choice(mls), rng.choice([1.5, -0.25, 1.001]), rng.randrange(n))
    if k == "mlnan":                    # a classifier rated fewer / no events: still valid
        return (k, rng.choice(mls), rng.choice(["all", "some"]))
    if k == "delopt":                   # a key that is neither mandatory nor optional: alert
        return (k,) + rng.choice([("setup", "software version"), ("setup", "identifier"),
                                  ("setup", "module composition"), ("setup", "flow rate sample")])
    if k == "addchan":                  # channel name without the fluorescence feature
        return (k, rng.choice([2, 3]))
    if k == "evset":                    # boundary values of the event count
        return (k, rng.choice([0, 0, 1, 2 * n + 1]))
    if k == "skipindex":                # one event number skipped: later entries shifted by +1
        return (k, draw_pos(rng, n))
    if k == "dupindex":                 # one event number stored twice
        return (k, max(1, draw_pos(rng, n)))
    if k == "imgshape":
        return (k, rng.choice(imgs), rng.choice(["x", "y"]), rng.choice([-1, 1, 3]))
    if k == "extreplace":
        return (k, rng.choice([f for f in scal if f != "index"] or scal))
    if k == "evcount":
        return (k, rng.choice([-2, -1, 1, 3]))
    if k == "roi":
        return (k, rng.choice(["x", "y"]), rng.choice([-1, 1, 5]))
    if k == "delkey":
        return (k,) + rng.choice(important_keys(False))
    if k == "delkeyfl":
        return ("delkey",) + rng.choice([x for x in important_keys(True) if x[0] == "fluorescence"])
    if k == "nonpos":
        return (k,) + rng.choice([("imaging", "frame rate"), ("imaging", "pixel size"),
                                  ("setup", "channel width"), ("setup", "flow rate")]) \
            + (rng.choice([0.0, -1.5]),)
    if k == "permindex" and n < 2:
        return ("shiftindex",)
    if k == "permindex":
        i = min(draw_pos(rng, n), n - 2)
        return (k, i, i + 1 if rng.random() < 0.5 else rng.randrange(i + 1, n))
    if k in ("chancount", "lasercount", "samples"):
        return (k, rng.choice([-1, 1, 2]))
    if k == "trtrunc":
        return (k, rng.choice(traces), rng.randint(1, 2))
    return (k,)


def expected_cues(op, info):
    """cues that this corruption alone must trigger (property oracle; None = depends)"""
    k = op[0]
    if k in ("trunc", "extend"):
        return ["featSize:" + op[1]]
    if k == "trtrunc":
        return ["traceSize:" + op[1]]
    if k == "evcount":
        return ["featSize:" + f for f in info["feats"] if f != "trace" and info["known"](f)]
    if k == "evset":
        if info["n"] == op[1]:
            return []
        return ["featSize:" + f for f in info["feats"] if f != "trace" and info["known"](f)]
    if k == "evdel":
        return ["missingKey:experiment:event%20count"]
    if k == "roi":
        return [] if "image" not in info["feats"] else [f"roiMismatch:roi%20size%20{op[1]}:image"]
    if k == "imgshape":
        return [f"roiMismatch:roi%20size%20{op[2]}:{op[1]}"]
    if k == "extreplace":
        return ["externalLink"]
    if k == "unknown":
        return ["unknownFeature:peter"]
    if k == "delkey":
        return [f"missingKey:{op[1]}:{op[2]}".replace(" ", "%20")]
    if k == "delimaging":
        return ["missingSection:imaging"]
    if k in ("permindex", "shiftindex", "addindex", "skipindex", "dupindex"):
        return ["indexNotEnumerated"] if info["n"] else []
    if k == "chancount" or k == "delchan":
        return ["channelCount"]
    if k == "lasercount" or k == "power0":
        return ["laserCount"]
    if k == "samples":
        return ["samplesPerEvent:" + t for t in info["traces"]]
    if k == "extlink":
        return ["externalLink"]
    if k == "nonpos":
        return [f"nonPositive:{op[1]}:{op[2]}".replace(" ", "%20")]
    return []


def apply_corruption(path, op, wd):
    """apply one corruption; returns False (file untouched or still readable) when it does not
    apply to the file as it is now, e.g. its target was turned into an external link before"""
    import gc
    import h5py
    gc.collect()                        # drop handles to linked files left over from checks
    try:
        with h5py.File(path, "r") as h:
            ev = h.get("events", {})
            target = None
            if op[0] in ("trunc", "extend", "imgshape", "extreplace", "mlbad", "mlnan"):
                target = (ev, op[1])
            elif op[0] == "trtrunc":
                target = (ev.get("trace", {}), op[1])
            elif op[0] in ("permindex", "shiftindex", "skipindex", "dupindex"):
                target = (ev, "index")
            if target is not None:
                grp, name = target
                if name not in grp or not isinstance(grp.get(name, getlink=True), h5py.HardLink) \
                        or not isinstance(grp[name], h5py.Dataset):
                    return False
        _apply_corruption(path, op, wd)
        return True
    except Exception:  # noqa
        return False


def _apply_corruption(path, op, wd):
    import h5py
    k = op[0]
    with h5py.File(path, "a") as h:
        ev = h.require_group("events")
        n0 = nrows(h)
        if k == "trunc":
            replace_ds(h, "events/" + op[1], ev[op[1]][:-op[2]])
        elif k == "extend":
            a = ev[op[1]][:]
            replace_ds(h, "events/" + op[1], np.concatenate([a, a[:op[2]]]))
        elif k == "trtrunc":
            replace_ds(h, "events/trace/" + op[1], ev["trace"][op[1]][:-op[2]])
        elif k == "mlbad":
            a = np.array(ev[op[1]][:], dtype=float)
            if not len(a):
                raise ValueError("no events")             # -> not applicable
            a[op[3] % len(a)] = op[2]
            replace_ds(h, "events/" + op[1], a)
        elif k == "mlnan":
            a = np.array(ev[op[1]][:], dtype=float)
            a[slice(None) if op[2] == "all" else slice(0, None, 2)] = np.nan
            replace_ds(h, "events/" + op[1], a)
        elif k == "imgshape":
            a = ev[op[1]][:]
            ax = 2 if op[2] == "x" else 1
            if op[3] < 0:
                a = np.delete(a, 0, axis=ax)
            else:
                a = np.concatenate([a] + [np.take(a, [0], axis=ax)] * op[3], axis=ax)
            replace_ds(h, "events/" + op[1], a)
        elif k == "extreplace":
            if op[1] in ev and isinstance(ev.get(op[1], getlink=True), h5py.HardLink):
                ext = wd / f"ext_{op[1]}.h5"
                with h5py.File(ext, "w") as e:
                    e["x"] = ev[op[1]][:]
                del ev[op[1]]                       # replaced in place by a link to the same data
                ev[op[1]] = h5py.ExternalLink(str(ext), "/x")
        elif k == "evcount":
            if "experiment:event count" in h.attrs:
                old = int(h.attrs["experiment:event count"])
                h.attrs["experiment:event count"] = old + op[1] if old + op[1] >= 0 else old - op[1]
        elif k == "flowbad":
            if "setup:flow rate sheath" in h.attrs:
                h.attrs["setup:flow rate sheath"] = float(h.attrs["setup:flow rate sheath"]) + 0.01
        elif k == "delopt":
            h.attrs.pop(f"{op[1]}:{op[2]}", None)
        elif k == "addchan":
            h.attrs[f"fluorescence:channel {op[1]} name"] = "verif"
        elif k == "tempfeat":
            if n0 == 0:
                raise ValueError("no events")             # -> not applicable
            if "temp" not in ev:
                ev.create_dataset("temp", data=np.linspace(22.0, 23.0, max(n0, 1))[:n0])
        elif k == "evset":
            if "experiment:event count" in h.attrs:
                h.attrs["experiment:event count"] = int(op[1])
        elif k == "evdel":
            h.attrs.pop("experiment:event count", None)
        elif k == "roi":
            key = "imaging:roi size " + op[1]
            if key in h.attrs:
                h.attrs[key] = int(h.attrs[key]) + op[2]
        elif k == "unknown":
            if "peter" not in ev:
                ev.create_dataset("peter", data=np.arange(n0, dtype=float))
        elif k == "defname":
            if "def" not in ev:
                ev.create_dataset("def", data=np.arange(n0, dtype=float))
        elif k == "delkey":
            h.attrs.pop(f"{op[1]}:{op[2]}", None)
        elif k == "delimaging":
            for a in list(h.attrs):
                if a.startswith("imaging:"):
                    del h.attrs[a]
        elif k == "permindex":
            if "index" in ev:
                a = ev["index"][:]
                i, j = op[1] % len(a), op[2] % len(a)
                a[i], a[j] = a[j], a[i]
                replace_ds(h, "events/index", a)
        elif k == "shiftindex":
            if "index" in ev:
                replace_ds(h, "events/index", ev["index"][:] + 1)
        elif k == "skipindex":
            a = ev["index"][:]
            a[op[1] % len(a):] += 1
            replace_ds(h, "events/index", a)
        elif k == "dupindex":
            a = ev["index"][:]
            if len(a) < 2:
                raise ValueError("index too short")       # -> not applicable
            i = max(1, op[1] % len(a))
            a[i] = a[i - 1]
            replace_ds(h, "events/index", a)
        elif k == "addindex":
            if "index" not in ev:
                ev.create_dataset("index", data=np.arange(n0, dtype=np.uint32))
        elif k in ("chancount", "lasercount", "samples"):
            key = {"chancount": "fluorescence:channel count",
                   "lasercount": "fluorescence:laser count",
                   "samples": "fluorescence:samples per event"}[k]
            if key in h.attrs:
                h.attrs[key] = int(h.attrs[key]) + op[1]
        elif k == "delchan":
            h.attrs.pop("fluorescence:channel 1 name", None)
        elif k == "power0":
            if "fluorescence:laser 1 power" in h.attrs:
                h.attrs["fluorescence:laser 1 power"] = 0.0
        elif k == "extlink":
            ext = wd / "ext.h5"
            with h5py.File(ext, "w") as e:
                e["x"] = np.arange(n0, dtype=float) + 1
            if "area_cvx" not in ev:
                ev["area_cvx"] = h5py.ExternalLink(str(ext), "/x")
        elif k == "nonpos":
            h.attrs[f"{op[1]}:{op[2]}"] = op[3]
        else:
            raise ValueError(k)


def nrows(h):
    """rows of the first stored feature dataset, else the event count, else 0"""
    import h5py
    ev = h.get("events", {})
    for f in sorted(ev):
        if not isinstance(ev.get(f, getlink=True), h5py.HardLink):
            continue                                    # do not follow external links
        if isinstance(ev[f], h5py.Dataset):
            return int(ev[f].shape[0])
    return int(h.attrs.get("experiment:event count", 0))


def has_empty_event_dataset(path):
    """raw h5py: is there a dataset with zero rows in /events (input class of F27)?"""
    import gc
    import h5py
    gc.collect()
    try:
        with h5py.File(path, "r") as h:
            ev = h.get("events", {})
            for f in ev:
                try:
                    obj = ev[f]              # external links are followed, as rtdc_copy does
                except Exception:  # noqa
                    continue
                if isinstance(obj, h5py.Dataset) and obj.shape[0] == 0:
                    return True
                if isinstance(obj, h5py.Group) and any(
                        isinstance(obj[m], h5py.Dataset) and obj[m].shape[0] == 0 for m in obj):
                    return True
    except Exception:  # noqa
        pass
    return False


def file_info(path):
    import h5py
    with h5py.File(path, "r") as h:
        ev = h.get("events", {})
        feats = sorted(ev.keys())
        traces = sorted(ev["trace"].keys()) if "trace" in ev else []
        from dclab import definitions as dfn
        nonempty = any(isinstance(ev.get(f, getlink=True), h5py.HardLink) and len(ev[f]) > 0
                       for f in feats)
        return {"feats": feats, "traces": traces, "n": nrows(h), "known": dfn.feature_exists,
                "nonempty": nonempty,
                "fl": any(f in ev for f in ("fl1_max", "fl2_max", "fl3_max"))}


def check_instance(path):
    """check an opened dataset whose configuration sections were all read before"""
    dclab = common.import_dclab()
    from dclab import definitions as dfn
    from dclab.rtdc_dataset.check import check_dataset
    try:
        with dclab.new_dataset(path, enable_basins=False) as ds:   # as the checker opens paths
            for sec in dfn.config_keys:
                _ = ds.config[sec]
            v, a, i = check_dataset(ds)
        return c13_util.cue_ids(v)
    except Exception as e:  # noqa
        return "exc:" + type(e).__name__ + ":" + common.err_class(e)


#: alert and info messages of the most recent `check` (read right after the call)
LAST = {"alerts": [], "info": []}


def check(path):
    common.import_dclab()
    from dclab.rtdc_dataset.check import check_dataset
    LAST["alerts"], LAST["info"] = [], []
    try:
        v, a, i = check_dataset(path)
        LAST["alerts"], LAST["info"] = list(a), list(i)
        return c13_util.cue_ids(v), len(a)
    except Exception as e:  # noqa
        return "exc:" + type(e).__name__ + ":" + common.err_class(e), 0


def export_again(p, out, variant):
    """export.hdf5 of every second event of the file at `p` (all innate features, or every
    second one); returns (m, keep names, violations of the output) or None when dclab refuses"""
    dclab = common.import_dclab()
    import warnings
    try:
        with warnings.catch_warnings():
            warnings.simplefilter("ignore")
            with dclab.new_dataset(p, enable_basins=False) as ds:
                feats = sorted(ds.features_innate)
                keep = feats if variant == 0 else feats[::2]
                if len(ds) < 2 or not keep:
                    return None
                ds.filter.manual[1::2] = False
                ds.apply_filter()
                m = int(np.sum(ds.filter.all))
                ds.export.hdf5(out, features=keep, filtered=True, override=True)
    except Exception:  # noqa  -- a refused export is not the checker's business
        return None
    return m, keep, check(out)[0]


def index_numpy(path):
    """(exact, tolerant) comparison of the stored index with 1..N in NumPy, N = event count
    (reference for the model's `indexOk` / `indexOkTol`; None without index / event count)"""
    import h5py
    try:
        with h5py.File(path, "r") as h:
            if "events" not in h or "index" not in h["events"] or \
                    "experiment:event count" not in h.attrs:
                return None
            if not isinstance(h["events"].get("index", getlink=True), h5py.HardLink):
                return None
            a = h["events/index"][:]
            n = int(h.attrs["experiment:event count"])
            if a.ndim != 1 or a.dtype.kind not in "iu":
                return None
            ref = np.arange(1, n + 1)
            if a.shape != ref.shape:
                return "0 0"
            return f"{int(np.all(a == ref))} {int(np.allclose(a, ref))}"
    except Exception:  # noqa
        return None


def same_modulo_sections(v_path, v_inst):
    """An opened dataset whose config sections were read has every section, so a file-level
    'missing section' cue becomes the 'missing key' cues of that section; nothing else may differ"""
    if not isinstance(v_inst, list):
        return False
    secs = [c.split(":")[1] for c in v_path if c.startswith("missingSection:")]
    a = [c for c in v_path if not c.startswith("missingSection:")]
    b = list(v_inst)
    for sec in secs:
        keys = [c for c in b if c.startswith(f"missingKey:{sec}:")]
        if not keys:
            return False
        b = [c for c in b if c not in keys]
    return sorted(a) == sorted(b)


def partial_fl_subset(spec):
    """F30: the export keeps some but not all of the stored fluorescence channels"""
    if spec[0] != "export-subset":
        return False
    stored = [f for f in FEATSETS[spec[1]] if f in ("fl1_max", "fl2_max", "fl3_max")]
    kept = [f for f in spec[3]["subset"] if f in stored]
    return 0 < len(kept) < len(stored)


def run_case(ctx, idx, spec, corr):
    """returns dict with impl answers and protocol lines; `corr` is a list of corruptions or
    ("draw", k, seed): k corruptions drawn for the file actually produced"""
    import random
    common.import_dclab()
    from dclab import cli
    wd = ctx.workdir / f"case{idx}"
    if wd.exists():
        shutil.rmtree(wd)
    wd.mkdir()
    res = {"spec": spec, "corr": [], "problems": []}
    try:
        p = make_base(ctx, wd, spec)
    except ExportRaised as e:
        ctx.stat("export_refused")
        ctx.note(f"export.hdf5 refused a request of the generator (not a C13 matter): {e}"[:160])
        shutil.rmtree(wd, ignore_errors=True)
        return res
    except CaseSkipped as e:
        ctx.stat("case_not_built")
        ctx.note(str(e)[:200])
        shutil.rmtree(wd, ignore_errors=True)
        return res
    except Exception as e:  # noqa
        res["problems"].append(("spec", f"write path {spec[0]} raised {e!r}"[:300]))
        shutil.rmtree(wd, ignore_errors=True)
        return res
    info = file_info(p)
    res["info"] = {k: v for k, v in info.items() if k != "known"}
    if corr and corr[0] == "draw":
        rng = random.Random(f"c13-{corr[2]}")
        drawn = []
        for _ in range(corr[1]):
            op = gen_corruption(rng, info, only=corr[3] if len(corr) > 3 else None)
            if op[0] not in [o[0] for o in drawn]:
                drawn.append(op)
        corr = drawn
    res["corr"] = corr
    # the SAME path is checked before and after every single corruption (one process)
    v, nal = check(p)
    if corr:
        if not isinstance(v, list):
            res["problems"].append(("spec", f"check_dataset raised {v} on the uncorrupted file "
                                            f"(write path {spec[0]})"))
        elif v and not (partial_fl_subset(spec) and v == ["channelCount"]):
            res["problems"].append(("spec", f"file written through '{spec[0]}' ({spec[1:]}, "
                                            f"complete metadata) has violations {v[:4]}"))
    applied = []
    for i, op in enumerate(corr):
        if not apply_corruption(p, op, wd):
            ctx.stat("corruption_not_applicable")
            continue
        applied.append(op)
        v, nal = check(p)
        if isinstance(v, list) and i + 1 < len(corr):
            for cue in expected_cues(op, info):
                if cue not in v and applicable(op, applied, info):
                    res["problems"].append(
                        ("spec", f"corruption {op} is not reported when the file is checked "
                                 f"again: cue {cue} missing from {v[:6]}"))
    corr = applied
    res["corr"] = corr
    res["v"] = v
    res["alerts"] = nal
    aids, unmod, unrec = c13_util.alert_ids(LAST["alerts"])
    res["alert_ids"], res["alert_unrec"] = aids, unrec
    for cls in unmod:
        ctx.stat("alert_unmodelled:" + cls)
    fl_info = [m for m in LAST["info"] if m.startswith("Fluorescence: ")]
    res["info_fl"] = {"Fluorescence: True": "fl:1", "Fluorescence: False": "fl:0"}.get(
        fl_info[0] if len(fl_info) == 1 else "", None)
    if isinstance(v, list):
        # property oracle: the inconsistencies the property names are violations, never alerts
        for a in c13_util.cue_ids(LAST["alerts"]):
            if a.startswith(c13_util.VIOLATION_CLASSES):
                res["problems"].append(("spec", f"violation-class cue {a} is reported at alert "
                                                f"level only (corruptions {corr})"))
        pinned = {f"missingKey:{s_}:{k_}".replace(" ", "%20")
                  for s_, k_ in important_keys(info["fl"])}
        for a in aids:
            if a in pinned:
                res["problems"].append(("spec", f"mandatory metadata cue {a} is reported at alert "
                                                f"level only (corruptions {corr})"))
    res["index_np"] = index_numpy(p)
    res["empty_event_ds"] = has_empty_event_dataset(p)
    queries = ["viol", "violcopy", "violcompress", "oldindexraises",
               f"exit {nal} {len(v) if isinstance(v, list) else 0}", "alerts", "info",
               f"exitof {len(unmod) + len(unrec)}", "indexok"]
    res["qnames"] = ["viol", "violcopy", "violcompress", "oldindexraises", "exit", "alerts",
                     "info", "exitof", "indexok"]
    if not corr and isinstance(v, list):
        ex = export_again(p, wd / "again.rtdc", idx % 2)
        if ex is not None:
            m, keep, vex = ex
            res["export"] = {"m": m, "keep": keep, "v": vex}
            ctx.stat("export_again")
            queries.append(f"violexport {m} " + ",".join(c13_util.enc(k) for k in keep))
            res["qnames"].append("violexport")
            fls = [f for f in info["feats"] if f in ("fl1_max", "fl2_max", "fl3_max")]
            kept = [f for f in fls if f in keep]
            if v == [] and vex != [] and (not kept or len(kept) == len(fls)):
                res["problems"].append(("spec", f"export.hdf5 of {m} events (features {keep}) of a "
                                                f"violation-free file written through '{spec[0]}' "
                                                f"has violations {str(vex)[:200]}"))
    res["lines"] = c13_util.describe(p) + queries
    if not isinstance(v, list):
        count_removed = any(o[0] == "evdel" or o[:3] == ("delkey", "experiment", "event count")
                            for o in corr)
        if count_removed and v.startswith("exc:ValueError") and not info["nonempty"]:
            res["size_unknown"] = True          # F36, confirmed against the model in `judge`
        else:
            res["problems"].append(("spec", f"check_dataset raised {v} instead of reporting "
                                            f"violations (write path {spec[0]}, corruptions {corr})"))
    else:
        if not corr and v:
            if partial_fl_subset(spec) and v == ["channelCount"]:
                ctx.known("F30", "export of a feature subset that keeps only some of the stored "
                                 "fl?_max features copies 'fluorescence:channel count' unchanged: "
                                 "dclab's own output has the violation 'channel count inconsistent'")
            else:
                res["problems"].append(("spec", f"file written through '{spec[0]}' ({spec[1:]}, "
                                                f"complete metadata) has violations {v[:4]}"))
        for op in corr:
            for cue in expected_cues(op, info):
                if cue not in v and applicable(op, corr, info):
                    res["problems"].append(
                        ("spec", f"corruption {op} is not reported: cue {cue} missing from {v[:6]}"))
        if len(spec) > 3 and spec[3].get("instance"):
            vi = check_instance(p)
            ctx.stat("instance_checks")
            if not same_modulo_sections(v, vi):
                res["problems"].append(("spec", f"checking the opened dataset (config sections "
                                                f"read before) gives {str(vi)[:200]}, checking "
                                                f"the path gives {v[:6]}"))
    # copies
    for task in ("repack", "compress"):
        out = wd / f"{task}.rtdc"
        try:
            getattr(cli, task)(path_in=p, path_out=out)
            res[task] = check(out)[0]
        except Exception as e:  # noqa
            res[task] = "exc:" + type(e).__name__ + ":" + str(e)[:80]
            res[task + "_F27"] = bool(isinstance(e, AttributeError) and "'attrs'" in str(e)
                                      and res["empty_event_ds"])
    shutil.rmtree(wd, ignore_errors=True)
    return res


def applicable(op, corr, info):
    """a corruption's own cue can be masked only by another corruption of the same object"""
    same = [o for o in corr if o is not op and o[0] in (
        "trunc", "extend", "evcount", "evset", "evdel", "roi", "delkey", "delimaging", "permindex",
        "shiftindex", "addindex", "skipindex", "dupindex", "chancount", "lasercount", "samples", "delchan", "power0",
        "nonpos", "trtrunc", "imgshape")]
    return not same


DERIVED = ("evcount", "evset", "evdel", "roi", "samples", "delkey", "delimaging", "trunc", "extend",
           "trtrunc", "chancount", "imgshape")


def judge(ctx, res, answers):
    """compare one case with the model's answers; returns True if a spec problem was found"""
    spec_bad = False
    for kind, what in res["problems"]:
        spec_bad = True
    v = res.get("v")
    corr = res["corr"]
    kinds = [o[0] for o in corr]
    if isinstance(v, list):
        for task in ("repack", "compress"):
            vt = res.get(task)
            if vt == v:
                continue
            if not isinstance(vt, list) and res.get(task + "_F27"):
                ctx.known("F27", "an empty dataset in /events (e.g. the export of an empty "
                                 "selection) makes rtdc_copy raise AttributeError: the file cannot "
                                 "be repacked / compressed")
                continue
            if not isinstance(vt, list):
                res["problems"].append(("spec", f"{task} of the file raised / check raised: {vt}"))
                spec_bad = True
                continue
            if task == "compress" and any(k in DERIVED for k in kinds):
                ctx.note("O8: dclab-compress re-derives event count / ROI / samples per event / "
                         "channel count through the writer's exit hook, so the compressed copy of "
                         "a file with inconsistent derived metadata gets the violations of the "
                         "rectified file (modelled by rectifyD / compressD, compared with the model)")
                ctx.stat("O8_cases")
                continue
            lost = sorted(set(v) - set(vt))
            gained = sorted(set(vt) - set(v))
            if gained:
                res["problems"].append(("spec", f"{task}d copy has new violations {gained[:4]} "
                                                f"(corruptions {corr})"))
                spec_bad = True
                continue
            rest = [c for c in lost]
            if any(c.startswith("unknownFeature:") for c in rest):
                ctx.known("F23", "rtdc_copy drops features unknown to dclab: the copy loses the "
                                 "violation 'Features: Unknown key' (input has events/peter)")
                rest = [c for c in rest if not c.startswith("unknownFeature:")]
            if "externalLink" in rest:
                ctx.note("a copy resolves external links: the 'external link' violation of the "
                         "input does not apply to the repacked/compressed copy (guard of "
                         "same_violations_after_copy_partial)")
                rest = [c for c in rest if c != "externalLink"]
            if rest:
                res["problems"].append(("spec", f"{task}d copy lost violations {rest[:4]} "
                                                f"(corruptions {corr})"))
                spec_bad = True
    mirror = []
    if answers is not None:
        ans = dict(zip(res.get("qnames", []), answers))
        mv, mcopy, mcomp, oldraise, mexit = (ans.get(k) for k in (
            "viol", "violcopy", "violcompress", "oldindexraises", "exit"))
        if isinstance(v, list):
            if " ".join(v) != (mv if mv != "-" else ""):
                mirror.append(("check_dataset", v, mv))
            if isinstance(res.get("repack"), list) and \
                    " ".join(res["repack"]) != (mcopy if mcopy != "-" else ""):
                mirror.append(("repack+check", res["repack"], mcopy))
            if isinstance(res.get("compress"), list):
                ic, mc = list(res["compress"]), (mcomp if mcomp not in ("-", None) else "").split()
                if any(k in DERIVED for k in kinds) and any(
                        f.startswith("ml_score_") for f in res.get("info", {}).get("feats", [])):
                    # the model carries `ds["ml_class"] raises` as a flag of the input; whether
                    # the score lengths fit len(ds) of the RECTIFIED copy is not modelled
                    ic = [c for c in ic if c != "mlClass"]
                    mc = [c for c in mc if c != "mlClass"]
                    ctx.stat("ml_flag_not_compared_after_compress")
                if ic != mc:
                    mirror.append(("compress+check", res["compress"], mcomp))
            want = 3 if res["alerts"] and v else 1 if res["alerts"] else 2 if v else 0
            if str(want) != mexit:
                mirror.append(("exit code", want, mexit))
            # alert / info levels (model: alerts, infoFl, exitOf)
            if res.get("alert_unrec"):
                ctx.stat("alert_comparison_skipped")
                ctx.note("an alert message was not recognised (wording changed?): the alert-level "
                         "comparison with the model is skipped for such files: "
                         + str(res["alert_unrec"][0])[:100])
            else:
                ma = ans.get("alerts")
                if ma is not None and " ".join(res["alert_ids"]) != (ma if ma != "-" else ""):
                    mirror.append(("alerts", res["alert_ids"], ma))
                if ans.get("exitof") is not None and str(want) != ans["exitof"]:
                    mirror.append(("exit code (modelled alerts)", want, ans["exitof"]))
            if res.get("info_fl") is None:
                ctx.stat("info_comparison_skipped")
            elif ans.get("info") is not None and res["info_fl"] != ans["info"]:
                mirror.append(("info Fluorescence", res["info_fl"], ans["info"]))
            if res.get("index_np") is not None and ans.get("indexok") not in (None, "-") \
                    and res["index_np"] != ans["indexok"]:
                mirror.append(("index comparison exact/tolerant (NumPy)", res["index_np"],
                               ans["indexok"]))
            if res.get("index_np") is not None and ans.get("indexok") not in (None, "-"):
                ctx.stat("index_exact_vs_tolerant:" + res["index_np"].replace(" ", ""))
            ex = res.get("export")
            if ex is not None and isinstance(ex["v"], list) and ans.get("violexport") is not None \
                    and " ".join(ex["v"]) != (ans["violexport"] if ans["violexport"] != "-" else ""):
                mirror.append(("export.hdf5 + check", ex["v"], ans["violexport"]))
        elif res.get("size_unknown"):
            if mv == "raises":
                ctx.known("F36", "a file without 'experiment:event count' and without a non-empty "
                                 "feature cannot be sized: check_dataset raises ValueError instead "
                                 "of reporting the missing key")
            else:
                mirror.append(("check_dataset", v, mv))
        elif oldraise == "1":
            ctx.stat("F13_old_behaviour_seen")
    res["mirror"] = mirror
    return spec_bad


def gen_cases(ctx):
    cases = []
    rng = ctx.rng

    def mk(wp, fs, n=None):
        n = n or rng.randint(6, 14)
        extra = gen_extra(rng, wp, fs, n)
        if rng.random() < 0.2:
            extra["instance"] = True
        return (wp, fs, n, extra)
    # (A) every write path x feature set, uncorrupted; parameterised paths several times
    for wp in PATHS:
        for fs in FEATSETS:
            for _ in range(3 if wp in ("export-subset", "history") else 1):
                cases.append((mk(wp, fs), []))
    # (A2) non-scalar features spanning several HDF5 chunks, selection sizes around k*chunk
    cases += gen_chunk_cases(rng, ctx.thorough)
    # (A3) outputs that hold only events a classifier did not rate (score feature all-nan)
    for fs in ("ml", "mlnan"):
        n = rng.randint(ML_RATED + 3, ML_RATED + 8)
        cases.append((("export-range", fs, n, {"keep": [ML_RATED + rng.choice([0, 1]), n]}), []))
        cases.append((("export-range", fs, n, {"keep": [rng.randint(0, 3), n - 1]}), []))
        cases.append((("split", fs, n, {"part": 1}), []))
    # F13 / F23 recorded inputs
    cases.append((("writer", "image", 7, {}), [("evcount", 2)]))
    cases.append((("writer", "image", 7, {}), [("trunc", "index", 2)]))
    cases.append((("writer", "plain", 8, {}), [("unknown",)]))
    # boundary value of the event count: metadata say 0 events, the features hold some
    cases.append((("writer", "fl", 7, {}), [("evset", 0)]))
    cases.append((("export", "image", 6, {}), [("evset", 0)]))
    # (A') large measurements: clean, and with one array-comparing corruption each (kinds in
    #      rotation, so that every quick run has late index defects and off-by-one lengths)
    nl = ctx.n(8, 40)
    for i in range(nl):
        wp = LARGE_PATHS[(i // 4) % len(LARGE_PATHS)] if i % 4 == 0 else "writer-large"
        spec = (wp, "large", rng.randint(200000, 300000), {})
        if i % 4 == 0:
            cases.append((spec, []))
        else:
            kind = ARRAY_KINDS[(i - i // 4 - 1) % len(ARRAY_KINDS)]
            cases.append((spec, ("draw", 1, rng.randrange(10**9), [kind])))
    # (B) seeded corruptions
    nb = ctx.n(120, 1500)
    for i in range(nb):
        wp = rng.choice(PATHS if i % 3 == 0 else ["writer", "history", "export", "export-subset",
                                                   "compress"])
        fs = rng.choice(list(FEATSETS))
        k = rng.choice([0, 1, 1, 1, 2, 2])
        cases.append((mk(wp, fs), ("draw", k, rng.randrange(10**9))))
    return cases


def run(ctx, only=None):
    cases = only if only is not None else gen_cases(ctx)
    results = []
    for i, (spec, corr) in enumerate(cases):
        spec = tuple(spec)
        if not (corr and corr[0] == "draw"):
            corr = [tuple(c) for c in corr]
        try:
            res = run_case(ctx, i, spec, corr)
        except Exception as e:  # noqa  -- generator / bookkeeping trouble is never a verdict
            ctx.stat("cases_skipped_generator_error")
            ctx.note(f"a generated case was skipped after a harness-side error: {e!r}"[:200])
            shutil.rmtree(ctx.workdir / f"case{i}", ignore_errors=True)
            continue
        corr = res["corr"]
        results.append(res)
        ctx.case((spec[:2], json.dumps(spec[3] if len(spec) > 3 else {}, sort_keys=True),
                  tuple(corr)), nontrivial=bool(corr) or spec[0] in ("history", "export-subset"),
                 sample={"write_path": spec[0], "features": spec[1], "corruptions": corr,
                         "violations": res.get("v")} if corr and len(ctx.samples) < 3 else None)
        ctx.stat("path:" + spec[0])
        for op in corr:
            ctx.stat("corr:" + op[0])
        if not corr:
            ctx.stat("clean_files")
    answers = [None] * len(results)
    if ctx.lean_ok:
        lines, spans = [], []
        for res in results:
            if "lines" in res:
                spans.append((len(lines), len(res["lines"])))
                lines += res["lines"]
            else:
                spans.append(None)
        out = ctx.lean("C13", lines) if lines else []
        for j, sp in enumerate(spans):
            if sp:
                nq = len(results[j].get("qnames", []))
                answers[j] = out[sp[0] + sp[1] - nq: sp[0] + sp[1]]
    any_spec = False
    mirrors = []
    for res, ans in zip(results, answers):
        bad = judge(ctx, res, ans)
        if bad:
            any_spec = True
            corr = res["corr"]
            if len(corr) > 1 and only is None:     # shrink: does a single corruption suffice?
                for op in corr:
                    try:
                        r1 = run_case(ctx, 9999, res["spec"], [op])
                    except Exception:  # noqa
                        continue
                    if judge(ctx, r1, None):
                        res = r1
                        break
            for kind, what in res["problems"][:2]:
                ctx.violation("spec", what, {"spec": list(res["spec"]), "corr": res["corr"]})
        elif res.get("mirror"):
            mirrors.append(res)
    if mirrors and not any_spec:
        m = mirrors[0]
        ctx.violation("mirror", f"{len(mirrors)} files: violation set of dclab differs from the "
                                f"Lean model; first ({m['mirror'][0][0]}): impl {m['mirror'][0][1]} "
                                f"model '{m['mirror'][0][2]}' for {m['spec']} {m['corr']}",
                      {"correspondence": "Drive/C13.lean:violations vs check_dataset",
                       "spec": list(m["spec"]), "corr": m["corr"], "first": m["mirror"][0]})
    if ctx.thorough and only is None:
        tdms_closure(ctx)
    return any_spec


def tdms_closure(ctx):
    """tdms2rtdc outputs (thorough tier): no feature-size / index / ROI violations"""
    common.import_dclab()
    from dclab import cli
    import zipfile
    data = common.REPO / "tests" / "data"
    for name in ["fmt-tdms_fl-image-bright_2017.zip", "fmt-tdms_minimal_2016.zip"]:
        z = data / name
        if not z.exists():
            continue
        wd = ctx.workdir / ("tdms_" + name[:-4])
        wd.mkdir(exist_ok=True)
        try:
            zipfile.ZipFile(z).extractall(wd)
            tdms = sorted(wd.rglob("*.tdms"))[0]
            out = wd / "out.rtdc"
            cli.tdms2rtdc(path_tdms=tdms, path_rtdc=out, compute_features=False, verbose=False)
            v, _ = check(out)
            ctx.case(("tdms", name), nontrivial=True)
            ctx.stat("path:tdms2rtdc")
            bad = [c for c in v if not c.startswith("missingKey")] if isinstance(v, list) else [v]
            if bad:
                ctx.violation("spec", f"tdms2rtdc output of {name} has violations {bad[:4]}",
                              {"tdms": name})
        except Exception as e:  # noqa
            ctx.note(f"tdms2rtdc closure on {name} skipped: {e!r}"[:200])


def replay(ctx, data):
    r = data.get("replay", data)
    if "spec" not in r:
        return run(ctx)
    return run(ctx, only=[(tuple(r["spec"]), [tuple(c) for c in r["corr"]])])
