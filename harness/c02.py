"""C02 — HDF5/TSV export contains exactly the selected events and features.

(A) generator level: `yield_filtered_array_stacks` on sliceable and non-sliceable data for many
    chunk sizes / index lists, consumed eagerly (copy at yield time) and lazily (`list(gen)`),
    and `RTDCWriter.write_ndarray`, against the Lean model (stack boundaries included);
(B) `Export.hdf5` over sources (dict, dict with non-sliceable image, hdf5, hdf5 with a shorter
    image feature, hdf5 whose non-scalar features come from a *mapped* file basin with an arbitrary
    basin map, hierarchy children depth 1-2, tdms fixture in the thorough tier) x masks x
    feature subsets x options x chunk sizes: output re-opened with dclab and with raw h5py,
    compared with the property oracle evaluated directly (`out[f] == src[f][mask]`, event count,
    metadata, logs, tables) and, as tokens, with the Lean model;
(C) `Export.tsv` parsed back (|parsed - x| <= 6e-11 |x|, NaN/inf textual), source sizes incl.
    1024 and 2048 events with selections of arbitrary size; scalar features from dclab's whole
    list, their values from value classes (integer-valued, fractional, negative, nan/inf, wide
    range) that do not depend on the feature's name.
The measurement metadata of the sources is drawn from dclab's definition of the metadata sections
(every key of every section in the fixed cases, random subsets otherwise).
Hierarchy sources are histories: the child's features are accessed, the ancestors' filters are
moved (same cardinality) and the hierarchy refreshed before the export; the truth is read from a
freshly built hierarchy. HDF5 sources written with raw h5py trigger every defective-feature marker
of fmt_hdf5/feat_defect.py; the export has to contain what `ds[feat]` shows.
Logs are compared content-exact against the lines the harness stored (independently of the writer
under test); the export must not modify the configuration of the source.
Output-directory histories: the export under test runs in a directory where earlier exports of
other data to the same path completed, raised, or were killed (directory captured at the fault
point); the output must be what an export into a clean directory gives (Lean: `exportAt`,
theorem `export_ignores_directory_history`).
"""
import copy
import hashlib
import zipfile

import numpy as np

from . import common, gen

ID = "C02"
LEAN_MODULES = ["DclabModel.Properties.C02"]
RULE = ("Hierarchy children come with a history (feature access, 1-3 equal-cardinality filter "
        "changes of an ancestor, refresh) in 75 % of the cases; 8 defective-feature variants "
        "(aspect, float32 time, time of old dclab, volume, inert_ratio_* / tilt) x unfiltered / "
        "all-True / partial filter. Logs of the sources are generated (short / > 100 bytes, ASCII and 2-, 3-, 4-byte UTF-8 "
        "characters, empty lines, empty logs) and written with plain h5py or set in memory, and "
        "compared content-exact; source sizes include powers of two and 1024 / 2048 with selections "
        "of arbitrary residue. A: index lists of length 0..4*cs+1 for cs in 1..7 and 10, both generator paths, eager and "
        "lazy consumer, write loop for data lengths around multiples of cs. B: first a fixed list "
        "(every source kind x {empty, full, single} mask x filtered/unfiltered, trace-only, "
        "missing feature), then seeded cases: source kind, 5-36 events, random feature subset "
        "with duplicates in random order, mask kind drawn from {empty, full, single, random, "
        "k*cs-1, k*cs, k*cs+1}, chunk size forced to 1-7 (patched get_best_nd_chunks) or 10 "
        "(CHUNK_SIZE_BYTES=1); a case is non-trivial when at least one non-scalar feature is "
        "exported through a filter that selects neither nothing nor everything. C: scalar "
        "subsets with mixed case and duplicates. distinct = distinct canonical case descriptions. "
        "Output-directory histories (24+6 fixed cases, 12 % of the random ones): before the export under test 1-2 "
        "earlier exports of OTHER data went to the same path and completed, raised (source fails at the "
        "k-th image access) or their process was killed there (all files of the directory captured at "
        "that moment, with or without flushing the open HDF5 files, and restored afterwards); 20 % of "
        "them without override (refusal expected, file byte-identical). features=None in 13 fixed and "
        "6 % of the random cases. Mapped-basin sources (3/15 of the random kinds, 12 fixed cases): basin file "
        "with nb >= n events, basin map increasing / decreasing / arbitrary order / with repeated events; "
        "image, image_bg, mask, contour, non-scalar temporary feature and two scalars live in the basin. "
        "Metadata: 60 % of the random sources and all fixed sources carry generated metadata (keys from "
        "dfn.config_keys of every CFG_METADATA section, values from dfn.config_types). C: 0-4 additional "
        "scalar features of dclab's list per case, value class per feature from "
        "{payload, int, frac, neg, special (nan/inf), wide}.")
TRUSTED_BASE = [
    "modelled, not verified: numpy fancy/boolean indexing, h5py dataset resize and slice "
    "assignment, HDF5 filters (zstd, fletcher32), np.savetxt number formatting, uuid4",
    "rows travel as tokens (index of the source event with identical content); equality of row "
    "content is evaluated by the harness with numpy",
    "a killed exporting process is simulated in-process: the output directory is copied at the "
    "fault point (optionally after H5Fflush of every HDF5 file open for writing) and restored after "
    "the aborted call; the file-system model is a finite map name -> content (unlink, rename)",
    "Python's sorted() on str is code-point order = Lean's String order (compared on every export "
    "via the feature list recorded in the export log); dfn.get_feature_label is a parameter"]
ASSUMPTIONS = ["containers without slicing support (tdms images, the harness' NoArray) are "
               "exported with filtered=True: the unfiltered route `store_feature(feat, ds[feat])` "
               "slices the container and raises for them (observation, not counted)",
               "trace data are not served through mapped basins (BasinProxyFeature cannot wrap the "
               "trace dictionary): traces of basin-backed sources are stored in the file itself",
               "no requested feature is empty or longer than len(ds); with skip_checks the "
               "selection must address existing rows (Lean: structure `Ok`)",
               "metadata keys autocompleted by RTDCWriter.rectify_metadata (roi size, samples per "
               "event, channel count) and the version brand in setup:software version are excluded from "
               "the metadata comparison; the tdms-specific section fmt_tdms is dropped by the writer "
               "by design"]
NOT_PROVED = ["number formatting of np.savetxt (correspondence with tolerance 6e-11 relative; the tsv text "
              "theorems take fmt as a parameter that is injective up to precision by hypothesis)",
              "joining / splitting the cells of a tsv line at tabs (a data line is the list of its cells)",
              "basin export (`basins=True`, property C07); mapped-basin SOURCES are exercised by the "
              "correspondence only (the model sees their rows like any other source's: `src[f][i]` read "
              "event by event)", "avi/fcs export",
              "the metadata universe: that every key is carried over is proved for the model's opaque "
              "key/value pairs (`export_carries_metadata`); which keys exist comes from dclab's definitions",
              "metadata comment lines of the tsv text (only: they are comments and precede the names line)",
              "what a crashed export leaves at the output path is arbitrary in the model (any directory "
              "content); which contents a real crash can produce is explored by fault injection only"]

NONSCALAR = ["image", "image_bg", "mask", "contour", "trace", "c02_nd"]
SCALARS = ["deform", "area_um", "temp", "fl1_max", "time"]
TRACES = ("fl1_raw", "fl1_median")
RECTIFIED = {("imaging", "roi size x"), ("imaging", "roi size y"),
             ("fluorescence", "samples per event"), ("fluorescence", "channel count"),
             ("experiment", "event count"), ("experiment", "run identifier"),
             ("setup", "software version")}      # version_brand appends "| dclab x.y.z"
_registered = False


# ---------------------------------------------------------------------------------------
def pl(feat, t):
    """payload of token t (pure)"""
    if feat == "temp":
        if t % 7 == 3:
            return np.float64(np.nan)
        if t % 11 == 5:
            return np.float64(np.inf)
        if t % 13 == 6:
            return np.float64(-np.inf)
        return np.float64(gen.payload("temp", t)) * -3.25e7
    if feat == "c02_nd":
        return (np.arange(6, dtype=np.float64) * 0.5 + t * 7).reshape(3, 2)
    return gen.payload(feat, t)


def rows_of(feat, toks):
    if feat == "contour":
        return [pl(feat, t) for t in toks]
    return np.array([pl(feat, t) for t in toks])


class NoArray:
    """non-sliceable event container (like tdms image data): int indexing only"""

    def __init__(self, arr):
        self._a = np.asarray(arr)
        self.shape = self._a.shape
        self.dtype = self._a.dtype

    def __len__(self):
        return len(self._a)

    def __getitem__(self, i):
        if not isinstance(i, (int, np.integer)):
            raise TypeError("NoArray supports integer indices only")
        return self._a[int(i)]


def same_row(feat, a, b):
    a, b = np.asarray(a), np.asarray(b)
    if feat == "mask":
        a, b = a != 0, b != 0
    return a.shape == b.shape and np.array_equal(a, b, equal_nan=a.dtype.kind == "f")


def tok(s):
    return hashlib.sha1(repr(s).encode()).hexdigest()[:10]


def name_ok(s):
    return str(s).replace(" ", "_").replace(";", "_").replace("=", "_").replace(",", "_")


def norm_val(v):
    """configuration value as plain python data (the container type a value travels in -- list,
    tuple, ndarray, numpy scalar -- is not part of the measurement metadata)"""
    if isinstance(v, (list, tuple, np.ndarray)):
        return tuple(norm_val(x) for x in v)
    if isinstance(v, (bool, np.bool_)):
        return bool(v)
    if isinstance(v, (int, np.integer)):
        return int(v)
    if isinstance(v, (float, np.floating)):
        return float(v)
    if isinstance(v, bytes):
        return v.decode("utf-8", "replace")
    return v


def make_meta(rng, full=False):
    """measurement metadata drawn from dclab's own definition of the metadata sections
    (`dfn.CFG_METADATA` / `dfn.config_keys` / `dfn.config_types`): for every section a subset of
    the keys (all keys with `full`), values generated from the declared type and passed through
    the declared conversion function.  Keys of gen.BASE_META keep their base value, keys rewritten
    by the writer (RECTIFIED) and the tdms-only section are left out."""
    common.import_dclab()
    from dclab import definitions as dfn
    out = {}
    for sec in dfn.CFG_METADATA:
        if sec == "fmt_tdms":
            continue
        try:
            keys = list(dfn.config_keys[sec])
        except Exception:
            continue
        if not full and rng.random() < 0.35:
            continue
        for k in keys:
            if (sec, k) in RECTIFIED or k in gen.BASE_META.get(sec, {}):
                continue
            if not full and rng.random() < 0.5:
                continue
            try:
                tp = dfn.config_types[sec][k]
                tps = tp if isinstance(tp, tuple) else (tp,)
                if bool in tps and float in tps:
                    v = rng.choice([True, False, 0.5 + rng.randint(0, 8)])
                elif bool in tps:
                    v = rng.random() < 0.5
                elif tuple in tps:
                    v = [rng.randint(1, 40) / 8, rng.randint(1, 40) / 4]
                elif any(t.__name__ == "Integral" for t in tps):
                    v = rng.randint(1, 900)
                elif any(t.__name__ == "Number" for t in tps):
                    v = rng.randint(1, 8000) / 16
                else:
                    v = "".join(rng.choice("abcdefghijklmnop qrstuvwxyz0123456789") for _ in
                                range(rng.randint(1, 12))).strip() or "x"
                dfn.config_funcs[sec][k](tuple(v) if isinstance(v, list) else v)
            except Exception:
                continue            # a key whose declaration this generator does not understand
            out.setdefault(sec, {})[k] = v
    return out


def apply_meta(m, meta):
    """merge generated metadata into a nested dict / a dclab configuration"""
    for sec, kv in (meta or {}).items():
        for k, v in kv.items():
            try:
                if sec not in m:
                    m[sec] = {}
                m[sec][k] = tuple(v) if isinstance(v, list) else v
            except Exception:
                pass


#: value classes of scalar features (the values a feature holds do not depend on its name: an
#: in-memory dataset or a file written by other software may hold any float in any scalar feature)
VCLASSES = ("payload", "int", "frac", "neg", "special", "wide")


def pl_class(feat, t, vc):
    """payload of token t for a scalar feature whose values are of class `vc` (pure)"""
    if vc == "payload":
        return np.float64(pl(feat, t))
    h = (gen.hash_str(feat) * 1000003 + t * 7919) % 2**31
    frac = (h % 50000) + ((h // 7) % 1000 + 1) / 1001.0          # never integer-valued
    if vc == "int":
        return np.float64(h % 50000)
    if vc == "frac":
        return np.float64(frac)
    if vc == "neg":
        return np.float64(-((h % 977) + 0.75))
    if vc == "special":
        return np.float64([frac, np.nan, np.inf, -np.inf, float(h % 13)][t % 5])
    return np.float64((h % 9973 + 1) / 7.0 * 10.0 ** ((h % 41) - 20))        # wide range


class ChunkPatch:
    """force the chunk size: cs=None -> CHUNK_SIZE_BYTES=1 (minimum 10 applies)"""

    def __init__(self, cs):
        self.cs = cs

    def __enter__(self):
        from dclab.rtdc_dataset import writer
        self.w = writer
        self.old_bytes = writer.CHUNK_SIZE_BYTES
        self.old_fn = writer.RTDCWriter.__dict__["get_best_nd_chunks"]
        if self.cs is None:
            writer.CHUNK_SIZE_BYTES = 1
        else:
            cs = self.cs
            writer.RTDCWriter.get_best_nd_chunks = staticmethod(
                lambda item_shape, item_dtype=np.float64: tuple([cs] + list(item_shape)))
        return self

    def __exit__(self, *a):
        self.w.CHUNK_SIZE_BYTES = self.old_bytes
        self.w.RTDCWriter.get_best_nd_chunks = self.old_fn

    @property
    def eff(self):
        return 10 if self.cs is None else self.cs


# ---------------------------------------------------------------------------------------
# part A
def part_a(ctx):
    common.import_dclab()
    import h5py
    from dclab.rtdc_dataset import export, writer
    lines, expect = [], []
    css = [1, 2, 3, 4, 5, 7, None]
    for rep in range(ctx.n(4, 40)):
        for cs in css:
            with ChunkPatch(cs) as cp:
                c = cp.eff
                nsrc = 4 * c + 3
                data = np.arange(nsrc * 2, dtype=np.int32).reshape(nsrc, 2)
                lens = sorted({0, 1, c - 1, c, c + 1, 2 * c - 1, 2 * c, 2 * c + 1, 3 * c + 1,
                               ctx.rng.randint(0, nsrc)})
                for ln in lens:
                    if ln < 0:
                        continue
                    idx = sorted(ctx.rng.sample(range(nsrc), min(ln, nsrc)))
                    if ctx.rng.random() < 0.2:
                        ctx.rng.shuffle(idx)        # the generator does not need sorted indices
                    want = data[idx] if idx else data[:0]
                    for kind, src in (("fast", data), ("slow", NoArray(data))):
                        try:
                            eager = [np.array(st, copy=True) for st in
                                     export.yield_filtered_array_stacks(src, idx)]
                            ans = ";".join(",".join(str(int(r[0]) // 2) for r in st)
                                           for st in eager) or "-"
                            cat = np.concatenate(eager) if eager else data[:0]
                            if not np.array_equal(cat, want):
                                ctx.violation(
                                    "spec", f"yield_filtered_array_stacks ({kind} path, chunk size "
                                    f"{c}): concatenated stacks differ from data[indices]",
                                    {"part": "A", "kind": kind, "cs": cs, "idx": idx})
                        except Exception as e:  # noqa
                            ans = common.err_class(e)
                        lines.append(f"stacks {kind} {c} " + (",".join(map(str, idx)) or "-"))
                        expect.append(ans)
                        ctx.case(("A", kind, c, tuple(idx)), nontrivial=len(idx) > c)
                        ctx.stat(f"A:{kind}")
                    try:     # the documented aliasing of the slow path: list(generator)
                        lazy = list(export.yield_filtered_array_stacks(NoArray(data), idx))
                        ans = ";".join(",".join(str(int(r[0]) // 2) for r in st)
                                       for st in lazy) or "-"
                    except Exception as e:  # noqa
                        ans = common.err_class(e)
                    lines.append(f"stacks lazy {c} " + (",".join(map(str, idx)) or "-"))
                    expect.append(ans)
                # write loop
                p = ctx.workdir / "a_write.h5"
                for n1, n2 in [(c, c + 1), (2 * c + 1, c - 1), (1, 3 * c), (c - 1, 1)]:
                    if n1 <= 0:
                        continue
                    a = np.arange(n1 * 2, dtype=np.int32).reshape(n1, 2)
                    b = np.arange(n1 * 2, (n1 + n2) * 2, dtype=np.int32).reshape(n2, 2)
                    try:
                        with h5py.File(p, "w") as h5:
                            hw = writer.RTDCWriter(h5, mode="append")
                            grp = h5.require_group("events")
                            hw.write_ndarray(grp, "x", a)
                            hw.write_ndarray(grp, "x", b)
                            got = h5["events/x"][:]
                        ans = ",".join(str(int(r[0]) // 2) for r in got)
                        if not np.array_equal(got, np.concatenate([a, b])):
                            ctx.violation("spec", f"write_ndarray (chunk size {c}) did not append "
                                                  f"{n2} rows to {n1} rows correctly",
                                          {"part": "A", "write": [n1, n2], "cs": cs})
                    except Exception as e:  # noqa
                        ans = common.err_class(e)
                    lines.append(f"write {c} " + ",".join(map(str, range(n1))) + " "
                                 + (",".join(map(str, range(n1, n1 + n2))) or "-"))
                    expect.append(ans)
                    ctx.case(("A", "write", c, n1, n2), nontrivial=True)
                    ctx.stat("A:write")
    return lines, expect


# ---------------------------------------------------------------------------------------
# part B: sources
def ensure_registered():
    global _registered
    dclab = common.import_dclab()
    if not _registered:
        try:
            dclab.register_temporary_feature("c02_nd", is_scalar=False)
        except Exception:
            pass
        _registered = True


LOG_ALPHABETS = {
    "ascii": "abcdefghijklmnopqrstuvwxyz0123456789 .:_-/[]()%",
    "2byte": "\u00e4\u00f6\u00fc\u00b5\u00b0\u00df\u00e9",         # ä ö ü µ ° ß é
    "3byte": "\u65e5\u672c\u8a9e\u20ac\u2192\u221e",                # 日 本 語 € → ∞
    "4byte": "\U0001F600\U0001D70B\U00010348",                        # 😀 𝜋 𐍈
}


def make_line(rng):
    """one log line: short or long (> 100 bytes), ASCII or multi-byte UTF-8, so that the length
    in bytes differs from the length in characters in every possible direction"""
    kind = rng.choice(["ascii", "2byte", "3byte", "4byte", "mixed", "mixed"])
    nchar = rng.choice([0, 1, 7, 34, 51, 60, 99, 100, 101, 130, 257])
    if kind == "mixed":
        pools = list(LOG_ALPHABETS.values())
        return "".join(rng.choice(rng.choice(pools)) for _ in range(nchar)).strip()
    return "".join(rng.choice(LOG_ALPHABETS[kind]) for _ in range(nchar)).strip()


def make_logs(rng):
    """name -> lines; includes an empty log from time to time"""
    logs = {}
    for name in rng.sample(["log_a", "log-b", "cfg.ini", "M1_para.ini", "shapein"],
                           rng.randint(1, 3)):
        logs[name] = [make_line(rng) for _ in range(rng.choice([0, 1, 2, 3, 6]))]
    return logs


def write_logs_raw(path, logs):
    """store logs with plain h5py (fixed-length UTF-8 byte strings, the .rtdc layout), so that the
    source file does not depend on the writer under test"""
    import h5py
    with h5py.File(path, "a") as h5:
        grp = h5.require_group("logs")
        for name, lines in logs.items():
            bl = [ln.encode("utf-8") for ln in lines]
            width = max([100] + [len(b) for b in bl])
            if name in grp:
                del grp[name]
            grp.create_dataset(name, data=np.array(bl, dtype=f"S{width}"), shape=(len(bl),))


def make_file(path, toks, feats, short=None, logs=None, tables=None, user=None, meta=None,
              vclass=None):
    """hdf5 source; `short` = {feat: number of missing rows at the end}; `meta` = additional
    metadata; `vclass` = {scalar feature: value class}, stored as float64 with plain h5py (as files
    of other / older software do), because the writer would cast some features to integers"""
    dclab = common.import_dclab()
    short = short or {}
    m = copy.deepcopy(gen.BASE_META)
    m["experiment"]["run identifier"] = "rid-c02"
    if user:
        m["user"] = dict(user)
    apply_meta(m, meta)
    vclass = vclass or {}
    with dclab.RTDCWriter(path, mode="reset") as hw:
        hw.store_metadata(m)
        for f in sorted(feats):        # the first stored feature defines len(ds): a scalar
            tk = toks[:len(toks) - short.get(f, 0)]
            if f in vclass:
                continue
            if f == "trace":
                hw.store_feature("trace", {n: np.array([pl("trace/" + n, t) for t in tk])
                                           for n in TRACES})
            elif f == "c02_nd":
                hw.store_feature(f, rows_of(f, tk), shape=(3, 2))
            else:
                hw.store_feature(f, rows_of(f, tk))
        for name, tab in (tables or {}).items():
            hw.store_table(name, tab)
    if vclass:
        import h5py
        with h5py.File(path, "a") as h5:
            for f in sorted(vclass):
                if f in feats:
                    h5.require_group("events").create_dataset(
                        f, data=np.array([pl_class(f, t, vclass[f]) for t in toks], dtype="f8"))
    if logs:
        write_logs_raw(path, logs)
    if short:   # rectify_metadata took the count of the alphabetically first feature
        import h5py
        with h5py.File(path, "a") as h5:
            h5.attrs["experiment:event count"] = len(toks)
    return path


def build_source(ctx, case, tag):
    """returns (dataset to export from, list of objects to close)"""
    dclab = common.import_dclab()
    ensure_registered()
    kind, toks, avail = case["kind"], case["toks"], case["avail"]
    base = kind.split("-")[-1]
    opened = []
    if base in ("dict", "dictna"):
        dd = {}
        for f in sorted(avail):
            if f == "trace":
                dd[f] = {n: np.array([pl("trace/" + n, t) for t in toks]) for n in TRACES}
            elif f == "c02_nd":
                continue
            elif f in ("image", "image_bg") and base == "dictna":
                dd[f] = NoArray(rows_of(f, toks))
            elif f in (case.get("vclass") or {}):
                dd[f] = np.array([pl_class(f, t, case["vclass"][f]) for t in toks], dtype="f8")
            else:
                dd[f] = rows_of(f, toks)
        ds = dclab.new_dataset(dd)
        ds.config["setup"]["medium"] = "CellCarrierB"
        ds.config["setup"]["channel width"] = 20.0
        ds.config["user"]["note"] = "c02"
        apply_meta(ds.config, case.get("meta"))
        for name, lines in (case.get("logs_content") or {}).items():
            ds.logs[name] = list(lines)
    elif base == "basin":
        # hdf5 file whose non-scalar features (and two scalars) come from a *mapped* file basin:
        # event i of the dataset is event bmap[i] of the basin file
        path = ctx.workdir / f"src_{tag}.rtdc"
        pb = ctx.workdir / f"src_{tag}_basin.rtdc"
        btoks, bmap = case["btoks"], case["bmap"]
        bfeats = [f for f in avail if (f in NONSCALAR and f != "trace") or f in ("temp", "time")]
        make_file(pb, btoks, ["deform"] + bfeats)
        tables = None
        if case.get("with_tables"):
            tables = {"tab_one": {"a": [1.0, 2.0, 3.0], "b": [0.5, float(len(toks)), 7.0]}}
        make_file(path, toks, [f for f in avail if f not in bfeats],
                  logs=case.get("logs_content") or {"log_a": ["line 1", "line 2"]},
                  tables=tables, user={"note": "c02", "number": 3}, meta=case.get("meta"))
        if bfeats:
            with dclab.RTDCWriter(path, mode="append") as hw:
                hw.store_basin(basin_name="c02 mapped basin", basin_type="file",
                               basin_format="hdf5", basin_locs=[str(pb)], basin_feats=bfeats,
                               basin_map=np.array(bmap, dtype=np.uint64))
        ds = dclab.new_dataset(path)
    elif base in ("hdf5", "short"):
        path = ctx.workdir / f"src_{tag}.rtdc"
        tables = None
        if case.get("with_tables"):
            tables = {"tab_one": {"a": [1.0, 2.0, 3.0], "b": [0.5, float(len(toks)), 7.0]}}
        make_file(path, toks, [f for f in avail if f != "c02_nd" or base == "hdf5"],
                  short=case.get("short") if base == "short" else None,
                  logs=case.get("logs_content") or {"log_a": ["line 1", "line 2"], "log-b": ["x"]},
                  tables=tables, user={"note": "c02", "number": 3}, meta=case.get("meta"),
                  vclass=case.get("vclass"))
        ds = dclab.new_dataset(path)
    elif base == "defect":
        path = ctx.workdir / f"src_{tag}.rtdc"
        make_defect_file(path, toks, case["defect"], case.get("logs_content"))
        ds = dclab.new_dataset(path)
    elif base == "tdms":
        zp = common.REPO / "tests" / "data" / case["fixture"]
        tdir = ctx.workdir / ("tdms_" + zp.stem)
        if not tdir.exists():
            with zipfile.ZipFile(zp) as z:
                z.extractall(tdir)
        ds = dclab.new_dataset(sorted(tdir.rglob("*.tdms"))[0])
    else:
        raise ValueError(kind)
    opened.append(ds)
    if "c02_nd" in avail and base in ("dict", "dictna"):
        dclab.set_temporary_feature(ds, "c02_nd", rows_of("c02_nd", toks))
    # hierarchy levels; `history` = earlier filter configurations of the ancestors (same
    # cardinalities): the hierarchy is built with the first one, its features are accessed, then
    # the ancestors' filters are moved step by step to the final `parent_masks`, refreshing the
    # hierarchy after every step
    final = case.get("parent_masks", [])
    configs = [c for c in case.get("history", []) if len(c) == len(final)] + [final]
    chain = [ds]
    for pm in configs[0]:
        chain[-1].filter.manual[:] = np.array(pm, dtype=bool)
        chain[-1].apply_filter()
        chain.append(dclab.new_dataset(chain[-1]))
        opened.append(chain[-1])
    leaf = chain[-1]
    cur = configs[0]
    for nxt in configs[1:]:
        touch(leaf)
        for lv in range(len(final)):
            if list(nxt[lv]) != list(cur[lv]):
                chain[lv].filter.manual[:] = np.array(nxt[lv], dtype=bool)
                chain[lv].apply_filter()
                for j in range(lv + 1, len(final)):       # re-establish the filters below
                    chain[j].rejuvenate()
                    chain[j].filter.manual[:] = np.array(nxt[j], dtype=bool)
                    chain[j].apply_filter()
        leaf.rejuvenate()
        cur = nxt
    return leaf, opened


def touch(ds):
    """access every kind of feature once (fills whatever the dataset caches)"""
    with np.errstate(all="ignore"):
        for f in ds.features_innate:
            try:
                if f == "trace":
                    for ch in ds["trace"].keys():
                        if len(ds["trace"][ch]):
                            np.array(ds["trace"][ch][0])
                elif len(ds[f]):
                    np.array(ds[f][0])
                    np.array(ds[f][len(ds[f]) - 1])
            except Exception:
                pass


#: stored-but-defective scalar features (fmt_hdf5/feat_defect.py): variant -> (software version,
#: roi size x, dtype of "time", features stored with junk values)
DEFECT_VARIANTS = {
    "aspect": ("ShapeIn 2.0.6", 16, "f8", ["aspect"]),
    "aspect207-time32": ("ShapeIn 2.0.7", 16, "f4", ["aspect", "time"]),
    "time32": ("verif 1.0", 16, "f4", ["time"]),
    "time-old-dclab": ("ShapeIn 2.4.1 | dclab 0.47.0", 16, "f8", ["time"]),
    "volume": ("ShapeIn 2.0.4 | dclab 0.36.1", 16, "f8", ["volume"]),
    "inert-old-shapein": ("ShapeIn 2.0.4 | dclab 0.48.1", 600, "f8",
                          ["inert_ratio_prnc", "tilt", "inert_ratio_raw", "inert_ratio_cvx"]),
    "inert-new-shapein": ("ShapeIn 2.4.1 | dclab 0.48.2", 600, "f8",
                          ["inert_ratio_prnc", "tilt", "inert_ratio_raw", "inert_ratio_cvx", "time"]),
    "inert-other-software": ("otherware 1.0 | dclab 0.48.0", 600, "f8",
                             ["inert_ratio_raw", "inert_ratio_cvx", "volume", "aspect"]),
}
DEFECT_BASE = ["deform", "area_um", "size_x", "size_y", "frame", "pos_x", "pos_y"]
DEFECT_FEATS = ["aspect", "time", "volume", "inert_ratio_prnc", "tilt", "inert_ratio_raw",
                "inert_ratio_cvx"]


def make_defect_file(path, toks, variant, logs=None):
    """hdf5 source in which some stored features are marked defective by dclab; their stored
    values are junk, so an export has to contain what `ds[feat]` shows (recomputed / absent)"""
    import h5py
    sv, roix, tdtype, junk = DEFECT_VARIANTS[variant]
    make_file(path, toks, DEFECT_BASE, logs=logs)
    with h5py.File(path, "a") as h5:
        for f in junk:
            vals = np.array([1000.0 + 3 * t for t in toks])
            h5["events"].create_dataset(f, data=vals.astype(tdtype if f == "time" else "f8"))
        h5.attrs["setup:software version"] = sv
        h5.attrs["imaging:roi size x"] = roix
    return path


def feat_len(ds, f):
    if f == "trace":
        return min(len(ds["trace"][n]) for n in ds["trace"].keys())
    return len(ds[f])


def get_rows(ds, f, upto=None):
    """list of row arrays of feature f ('trace/<ch>' for one trace channel)"""
    if f.startswith("trace/"):
        obj = ds["trace"][f[6:]]
    else:
        obj = ds[f]
    n = len(obj) if upto is None else min(upto, len(obj))
    return [np.array(obj[i]) for i in range(n)]


def expand(feats, ds):
    """requested feature names at the granularity of the model (trace -> channels)"""
    out = []
    for f in feats:
        if f == "trace" and "trace" in ds:
            out += ["trace/" + n for n in sorted(ds["trace"].keys())]
        else:
            out.append(f)
    return out


def kind_of(f):
    dclab = common.import_dclab()
    if f.startswith("trace/"):
        return "trace"
    if f == "contour":
        return "contour"
    if f in ("image", "image_bg", "mask"):
        return "image"
    if dclab.dfn.scalar_feature_exists(f):
        return "scalar"
    return "other"


def cfg_tokens(ds, sections):
    out = []
    for sec in sections:
        if sec in ds.config:
            for k, v in dict(ds.config[sec]).items():
                if (sec, k) in RECTIFIED:
                    continue
                out.append(f"{name_ok(sec)}:{name_ok(k)}={tok(norm_val(v))}")
    return sorted(out)


def log_tokens(logs, skip_export=False):
    out = []
    for name in logs:
        if skip_export and name.startswith("dclab-export_"):
            continue
        lines = [ln if isinstance(ln, str) else bytes(ln).decode("utf-8", "replace")
                 for ln in logs[name]]
        if not lines:
            continue            # an empty log is not stored (and hidden by the reader)
        out.append(f"{name_ok(name)}={tok(lines)}")
    return sorted(out)


def table_tokens(tables):
    out = []
    for name in tables:
        arr = np.asarray(tables[name][:])
        out.append(f"{name_ok(name)}={tok((arr.dtype.names, arr.tobytes()))}")
    return sorted(out)


# ---------------------------------------------------------------------------------------
# histories of the output directory: what happened at the output path BEFORE the export under
# test.  The property speaks about the file an export writes; it must not depend on what an
# earlier export (completed, aborted by an exception, or hard-killed at an arbitrary moment)
# left behind in the output directory.
class SimulatedKill(BaseException):
    """the exporting process dies here (the state of the directory is captured before)"""


class FaultyRows(NoArray):
    """integer-indexable event container that triggers `action` at its `at`-th event access"""

    def __init__(self, arr, at, action):
        super().__init__(arr)
        self._at, self._action, self._count = at, action, 0

    def __getitem__(self, i):
        self._count += 1
        if self._count == self._at:
            self._action()
        return super().__getitem__(i)


def flush_all_hdf5():
    """what the operating system has of every HDF5 file this process has open for writing"""
    import h5py
    for fid in h5py.h5f.get_obj_ids(types=h5py.h5f.OBJ_FILE):
        try:
            if fid.get_intent() != h5py.h5f.ACC_RDONLY:
                h5py.h5f.flush(fid, scope=h5py.h5f.SCOPE_LOCAL)
        except Exception:
            pass


def make_prior(rng, forced=None):
    """one earlier event at the output path: an export of OTHER data that completed, raised, or
    whose process was killed (after / without flushing) while the `at`-th image was read"""
    n = rng.randint(4, 14)
    how = forced or rng.choice(["killed", "killed", "killed-noflush", "raised", "complete"])
    return {"how": how, "toks": rng.sample(range(600, 900), n), "at": rng.randint(1, n),
            "feats": ["deform", "area_um", "image"] + (["trace"] if rng.random() < 0.4 else [])}


def play_prior(ctx, prior, out, tag):
    """replay one earlier event in the directory of `out` (never raises); returns the names of
    the files the directory contains afterwards"""
    import shutil
    dclab = common.import_dclab()
    outdir = out.parent
    snap = ctx.workdir / f"snap_{tag}"
    shutil.rmtree(snap, ignore_errors=True)
    toks = prior["toks"]
    state = {"taken": False}

    def die():
        if prior["how"] == "killed":
            flush_all_hdf5()
        if prior["how"].startswith("killed"):
            shutil.copytree(outdir, snap)        # the directory as the dying process leaves it
            state["taken"] = True
            raise SimulatedKill()
        raise RuntimeError("C02 harness: simulated failure of the source while exporting")

    dd = {}
    for f in prior["feats"]:
        if f == "trace":
            dd[f] = {n_: np.array([pl("trace/" + n_, t) for t in toks]) for n_ in TRACES}
        elif f == "image" and prior["how"] != "complete":
            dd[f] = FaultyRows(rows_of(f, toks), prior["at"], die)
        else:
            dd[f] = rows_of(f, toks)
    ds = None
    try:
        ds = dclab.new_dataset(dd)
        ds.logs["stale-log"] = ["left behind by an earlier export"]
        try:
            ds.export.hdf5(out, features=list(prior["feats"]), filtered=True, logs=True,
                           override=True)
        except SimulatedKill:
            pass
        except Exception:  # noqa
            pass
    except SimulatedKill:
        pass
    except Exception as e:  # noqa
        ctx.note(f"C02: earlier export of a directory history could not be played: {e!r}"[:200])
    finally:
        try:
            if ds is not None:
                ds.close()
        except Exception:
            pass
    if state["taken"]:
        shutil.rmtree(outdir, ignore_errors=True)
        shutil.copytree(snap, outdir)
    shutil.rmtree(snap, ignore_errors=True)
    return sorted(p_.name for p_ in outdir.iterdir())


def output_path(ctx, case, tag, res):
    """the path the export under test writes to; cases with `priors` get a directory of their
    own in which the earlier events are replayed first"""
    import shutil
    if not case.get("priors"):
        return ctx.workdir / f"out_{tag}.rtdc"
    outdir = ctx.workdir / f"dir_{tag}"
    shutil.rmtree(outdir, ignore_errors=True)
    outdir.mkdir(parents=True)
    out = outdir / "out.rtdc"
    left = []
    for prior in case["priors"]:
        left = play_prior(ctx, prior, out, tag)
        res["stats"].append("B:prior=" + prior["how"])
    res["stats"].append("B:prior-left=" + ("nothing" if not left else
                                           "output-path" if left == [out.name] else "other-files"))
    return out


def describe_dir(outdir):
    """`stale` lines: the files of the output directory before the export under test (feature
    datasets of readable HDF5 files as lists of foreign tokens, unreadable files without any)"""
    import h5py
    lines = []
    for p_ in sorted(outdir.iterdir()):
        if not p_.is_file() or name_ok(p_.name) != p_.name:
            continue
        lines.append(f"stale {p_.name} - -")
        try:
            with h5py.File(p_, "r") as h5:
                for f in h5.get("events", {}):
                    obj = h5["events"][f]
                    if isinstance(obj, h5py.Group) and f == "trace":
                        for ch in obj:
                            lines.append(f"stale {p_.name} trace/{ch} " + (",".join(
                                str(100000 + j) for j in range(len(obj[ch]))) or "-"))
                    else:
                        lines.append(f"stale {p_.name} {f} " + (",".join(
                            str(100000 + j) for j in range(len(obj))) or "-"))
        except Exception:
            pass
    return lines


def export_log_features(o):
    """the `features` entry of the export log (the list the feature loop of Export.hdf5 ran
    over); None when the log is not there / not in the expected form (wording is not judged)"""
    import json
    try:
        for name in o.logs:
            if name.startswith("dclab-export_"):
                kw = json.loads("\n".join(o.logs[name])).get("kwargs", {})
                fs = kw.get("features")
                if isinstance(fs, list) and all(isinstance(f, str) for f in fs):
                    return fs
    except Exception:
        pass
    return None


def run_export(ctx, case, tag="x"):
    """execute one export case on the implementation (never raises).
    returns dict(lines, impl, oracle: list of failed clauses, nontrivial, stats)"""
    res = {"lines": [], "impl": None, "oracle": [], "nontrivial": False, "stats": [], "extra": []}
    try:
        _run_export(ctx, case, tag, res)
    except Exception as e:  # noqa
        if res["lines"] and res["lines"][-1].startswith(("export ", "exportat ")):
            res["impl"] = "unreadable-" + common.err_class(e)
            res["oracle"].append(f"reading the exported file raised {e!r}"[:300])
        else:
            res["lines"] = []
            res["impl"] = None
            ctx.note(f"C02: case skipped, preparing the source raised {e!r}"[:200])
            ctx.stat("B:skipped")
    return res


def _run_export(ctx, case, tag, res):
    dclab = common.import_dclab()
    import h5py
    from dclab import definitions as dfn
    # RTDCWriter.store_metadata drops the tdms-specific section by design
    sections = [s_ for s_ in dfn.CFG_METADATA if s_ != "fmt_tdms"] + ["user"]
    ds = None
    opened = []
    ds, opened = build_source(ctx, case, tag)     # failures here: case skipped (see wrapper)
    try:
        n = len(ds)
        mask = np.array(case["mask"][:n] + [1] * max(0, n - len(case["mask"])), dtype=bool)
        ds.filter.manual[:] = mask
        ds.apply_filter()
        mask = np.array(ds.filter.all, dtype=bool)
        req = list(case["req"])
        if case.get("req_none"):      # `features=None`: documented default = the innate features
            req = list(ds.features_innate)
            case = dict(case, req=req)
            res["stats"].append("B:features=None")
        if case.get("drop_missing"):
            req = [f for f in req if f in ds]
        filtered = bool(case["filtered"])
        fresh = ds
        if case.get("history"):       # the truth comes from a hierarchy without any history
            fresh, op2 = build_source(ctx, dict(case, history=[]), tag + "f")
            opened += op2
            res["stats"].append("B:hierarchy-history")
        present = [f for f in dict.fromkeys(req) if f in ds]
        missing = [f for f in dict.fromkeys(req) if f not in ds]
        mfeats = expand(sorted(set(req)), ds)
        # ---- describe the source to the model (tokens = source event index) -------------
        L = res["lines"]
        L.append(f"src {n} {1 if ds.format == 'hdf5' else 0}")
        L.append("sections " + ",".join(name_ok(s) for s in sections))
        src_rows = {}
        for f in expand(present, ds):
            rows = get_rows(fresh, f)
            src_rows[f] = rows
            obj = ds["trace"][f[6:]] if f.startswith("trace/") else ds[f]
            sl = 1 if hasattr(obj, "__array__") else 0
            res["stats"].append("B:sliceable" if sl else "B:non-sliceable")
            L.append(f"feat {f} {kind_of(f)} {sl} " + (",".join(map(str, range(len(rows)))) or "-"))
        for c in cfg_tokens(ds, sections):
            sk, v = c.split("=")
            s_, k_ = sk.split(":")
            L.append(f"cfg {s_} {k_} {v}")
        src_logs = log_tokens(ds.logs)
        if case.get("logs_content") is not None:
            truth = log_tokens(case["logs_content"])
            if truth != src_logs:
                res["oracle"].append(f"logs of the source read as {src_logs}, stored {truth}")
            src_logs = truth
        for c in src_logs:
            L.append("log " + " ".join(c.split("=")))
        for c in table_tokens(ds.tables):
            L.append("table " + " ".join(c.split("=")))
        # ---- run the implementation -----------------------------------------------------
        with ChunkPatch(case["cs"]) as cp:
            cs = cp.eff
            out = output_path(ctx, case, tag, res)
            override = bool(case.get("override", 1))
            args = "%d %d %d %d %d %d 1 src_ %s %s" % (
                filtered, case["logs"], case["tables"], case.get("skip", 0), cs, cs,
                "".join("1" if b else "0" for b in mask) or "-",
                "None" if case.get("req_none") else (",".join(mfeats) or "-"))
            if case.get("req_none"):
                L.append("innate " + (",".join(mfeats) or "-"))
            existed, digest = out.exists(), None
            if case.get("priors"):
                L.extend(describe_dir(out.parent))
                L.append(f"exportat {int(override)} {out.name} " + args)
                if existed and not override:
                    digest = hashlib.sha1(out.read_bytes()).hexdigest()
            else:
                L.append("export " + args)
            cfg_before = (cfg_tokens(ds, sections), repr(dict(ds.config["experiment"])))
            try:
                ds.export.hdf5(out, features=None if case.get("req_none") else req,
                               filtered=filtered, logs=bool(case["logs"]),
                               tables=bool(case["tables"]), override=override,
                               skip_checks=bool(case.get("skip", 0)))
                err = None
            except Exception as e:  # noqa
                err = e
        if err is not None:
            res["impl"] = "err"
            res["stats"].append("B:raised-" + common.err_class(err))
            if isinstance(err, OSError) and existed and not override:
                res["impl"] = "err:exists"      # documented refusal; the file must be untouched
                if not out.exists() or hashlib.sha1(out.read_bytes()).hexdigest() != digest:
                    res["oracle"].append("export without override raised, but the existing output "
                                         "file was modified")
            elif not missing:
                res["oracle"].append(f"export raised {err!r}"[:300])
            return res
        if missing:
            res["oracle"].append(f"export of missing feature(s) {missing} did not raise")
        cfg_after = (cfg_tokens(ds, sections), repr(dict(ds.config["experiment"])))
        if cfg_after != cfg_before:
            res["oracle"].append(f"the export modified the configuration of the source dataset: "
                                 f"{cfg_before[1]} -> {cfg_after[1]}")
        # ---- expected selection (the property's oracle) ---------------------------------
        lens = [feat_len(ds, f) for f in present]
        eff = mask.copy() if filtered else np.ones(n, dtype=bool)
        truncated = bool(lens) and min(lens) != max(lens) and not case.get("skip", 0)
        if truncated:
            eff[min(lens):] = False
        idx = np.flatnonzero(eff)
        # ---- read back ------------------------------------------------------------------
        ev_tokens = {}
        with h5py.File(out, "r") as h5:
            count = int(h5.attrs.get("experiment:event count", -1))
            raw_feats = []
            for f in h5.get("events", {}):
                if f == "trace":
                    raw_feats += ["trace/" + n_ for n_ in h5["events/trace"]]
                else:
                    raw_feats.append(f)
            raw = {}
            for f in raw_feats:
                obj = h5["events"][f]
                if isinstance(obj, h5py.Group):
                    raw[f] = [obj[str(i)][:] for i in range(len(obj))]
                else:
                    raw[f] = list(obj[:])
        o = dclab.new_dataset(out)
        opened.append(o)
        if len(o) != len(idx):
            res["oracle"].append(f"len(new_dataset(out)) = {len(o)}, selection has {len(idx)} events")
        if count != len(idx):
            res["oracle"].append(f"experiment:event count = {count}, selection has {len(idx)} events")
        want_feats = set(expand(present, ds)) if len(idx) else set()
        if set(raw_feats) != want_feats:
            res["oracle"].append(f"features in output {sorted(raw_feats)} != requested {sorted(want_feats)}")
        for f in raw_feats:
            try:
                via = get_rows(o, f)
            except Exception as e:  # noqa
                via = None
                res["oracle"].append(f"cannot read {f} from the output with dclab: {e!r}"[:200])
            rows = raw[f]
            base = "mask" if f == "mask" else f
            if via is not None and (len(via) != len(rows) or not all(
                    same_row(base, a, b) for a, b in zip(via, rows))):
                res["oracle"].append(f"{f}: dclab and raw h5py read different data from the output")
            srows = src_rows.get(f)
            toks = []
            good = srows is not None and len(rows) == len(idx)
            for j, r in enumerate(rows):
                t = None
                if srows is not None:
                    if j < len(idx) and idx[j] < len(srows) and same_row(base, r, srows[idx[j]]):
                        t = int(idx[j])
                    else:
                        good = False
                        for i, s in enumerate(srows):
                            if same_row(base, r, s):
                                t = i
                                break
                toks.append("?" if t is None else str(t))
            if not good:
                res["oracle"].append(
                    f"{f}: output rows are source events [{','.join(toks)}], expected "
                    f"{[int(i) for i in idx]}")
            ev_tokens[f] = toks
        # ---- metadata / logs / tables ---------------------------------------------------
        cfg_o = cfg_tokens(o, sections)
        cfg_s = cfg_tokens(ds, sections)
        if cfg_o != cfg_s:
            res["oracle"].append(f"metadata not carried over: {sorted(set(cfg_s) ^ set(cfg_o))[:4]}")
        logs_o = log_tokens(o.logs, skip_export=True)
        logs_w = sorted("src_" + c for c in src_logs) if case["logs"] else []
        if logs_o != logs_w:
            detail = ""
            for name in o.logs:          # content-exact: show the first differing line
                want = (case.get("logs_content") or {}).get(name[4:])
                if want is not None and list(o.logs[name]) != list(want):
                    got = list(o.logs[name])
                    k = next((i for i, (a, b) in enumerate(zip(got, want)) if a != b),
                             min(len(got), len(want)))
                    detail = (f"; log {name[4:]!r} line {k}: read back "
                              f"{got[k][:40] if k < len(got) else None!r}… "
                              f"({len(got[k].encode()) if k < len(got) else 0} bytes), stored "
                              f"{len(want[k].encode()) if k < len(want) else 0} bytes")
                    break
            res["oracle"].append(f"logs not carried over unchanged: output {logs_o} expected "
                                 f"{logs_w}{detail}")
        tabs_o = table_tokens(o.tables)
        tabs_w = sorted("src_" + c for c in table_tokens(ds.tables)) if case["tables"] else []
        if tabs_o != tabs_w:
            res["oracle"].append(f"tables in output {tabs_o} expected {tabs_w}")
        rid_s = ds.get_measurement_identifier()
        rid_o = o.config["experiment"].get("run identifier")
        if filtered:
            rid = 1 if (rid_o is not None and str(rid_o).startswith(f"{rid_s}-")
                        and len(str(rid_o)) == len(str(rid_s)) + 5) else 0
            if not rid:
                res["oracle"].append(f"run identifier {rid_o!r} is not '{rid_s}-xxxx'")
        else:
            rid = 0 if rid_o == ds.config["experiment"].get("run identifier") else 1
            if rid:
                res["oracle"].append(f"unfiltered export changed the run identifier to {rid_o!r}")
        res["impl"] = ("ok count=%d rid=%d ev=%s cfg=%s logs=%s tables=%s" % (
            count, rid,
            ";".join(f"{f}:{','.join(ev_tokens[f]) or '-'}" for f in sorted(ev_tokens)),
            ";".join(cfg_o), ";".join(logs_o), ";".join(tabs_o)))
        if case.get("priors"):
            res["impl"] += " dir=" + ",".join(sorted(p_.name for p_ in out.parent.iterdir()))
        used = export_log_features(o)
        if used is None:
            res["stats"].append("B:export-log-not-parsed")
        elif all(name_ok(f) == f and f for f in req):
            # the list the feature loop ran over, as recorded by the export itself
            res["extra"] = [("normfeats " + (",".join(req) or "-"), ",".join(used) or "-")]
        nonsc = [f for f in raw_feats if kind_of(f) != "scalar"]
        res["nontrivial"] = bool(nonsc) and 0 < len(idx) < n
        res["stats"].append("B:truncated" if truncated else "B:same-length")
        res["stats"].append("B:fast-route" if (not filtered or (mask.all() and ds.format == "hdf5"))
                            and not truncated else "B:filtered-route")
        if len(idx) and nonsc:
            r = len(idx) % cs
            res["stats"].append("B:card=k*cs" if r == 0 else
                                "B:card=k*cs+1" if r == 1 and len(idx) > cs else
                                "B:card=k*cs-1" if r == cs - 1 else "B:card=other")
        return res
    finally:
        for d in reversed(opened):
            try:
                d.close()
            except Exception:
                pass


def make_mask(rng, n, kind, cs):
    if kind == "empty":
        return [0] * n
    if kind == "full":
        return [1] * n
    if kind == "single":
        m = [0] * n
        m[rng.randrange(n)] = 1
        return m
    if kind == "random":
        return [int(rng.random() < 0.6) for _ in range(n)]
    k = max(1, rng.randint(1, max(1, n // cs)))
    card = {"kcs-1": k * cs - 1, "kcs": k * cs, "kcs+1": k * cs + 1}[kind]
    card = max(1, min(n, card))
    on = set(rng.sample(range(n), card))
    return [int(i in on) for i in range(n)]


def random_case(ctx, i, thorough_tdms=False):
    rng = ctx.rng
    kind = rng.choice(["dict", "dictna", "hdf5", "hdf5", "short", "child-dict", "child-hdf5",
                       "child-child-hdf5", "child-child-dict", "defect", "child-hdf5",
                       "child-child-dict", "basin", "basin", "child-basin"])
    cs = rng.choice([1, 2, 3, 4, 5, 7, None])
    ce = 10 if cs is None else cs
    n = rng.randint(5, 36 if cs is None or cs > 3 else 16)
    if rng.random() < 0.2:          # exact powers of two
        n = rng.choice([8, 16, 32, 64] + ([128, 256] if cs is None or cs > 3 else []))
    toks = rng.sample(range(max(500, 4 * n)), n)
    avail = ["deform", "area_um"] + [f for f in SCALARS[2:] + NONSCALAR if rng.random() < 0.7]
    if n > 64:
        avail = [f for f in avail if f not in ("contour", "c02_nd")]
    case = {"kind": kind, "toks": toks, "avail": avail, "cs": cs, "parent_masks": [],
            "logs_content": make_logs(rng)}
    if kind.endswith("basin"):
        make_basin_map(rng, case, n)
    if rng.random() < 0.6 and kind != "defect":
        case["meta"] = make_meta(rng)
    if kind.endswith("short"):
        if not any(f in avail for f in ("image", "mask", "trace")):
            avail.append("image")
        sh = rng.choice([f for f in ("image", "mask", "trace") if f in avail])
        case["short"] = {sh: rng.randint(1, min(4, n - 1))}
    case["with_tables"] = rng.random() < 0.5
    cur = n
    for _ in range(kind.count("child")):
        pm = make_mask(rng, cur, rng.choice(["random", "random", "full", "kcs+1"]), ce)
        if sum(pm) < 2:
            pm = [1] * cur
        case["parent_masks"].append(pm)
        cur = sum(pm)
    if kind.count("child") and rng.random() < 0.75:
        case["history"] = make_history(rng, case["parent_masks"])
    if kind == "defect":
        case["defect"] = rng.choice(sorted(DEFECT_VARIANTS))
        case["avail"] = avail = DEFECT_BASE + DEFECT_FEATS
        case["drop_missing"] = int(rng.random() < 0.85)
    pool = [f for f in avail]
    k = rng.randint(1, len(pool))
    req = rng.sample(pool, k)
    if rng.random() < 0.4:
        req += rng.sample(req, rng.randint(1, len(req)))       # duplicates
    rng.shuffle(req)
    if rng.random() < 0.04:
        req.append("fl2_max")                                   # not available
    if kind.endswith("short") and not (set(req) - set(case["short"])):
        req.append("deform")
    case["req"] = req
    case["filtered"] = int(rng.random() < 0.8)
    case["logs"] = int(rng.random() < 0.5)
    case["tables"] = int(rng.random() < 0.5)
    case["skip"] = int(rng.random() < 0.15 and not kind.endswith("short"))
    case["mask"] = make_mask(rng, cur, rng.choice(["empty", "full", "single", "random", "random",
                                                   "kcs-1", "kcs", "kcs+1"]), ce)
    if kind == "defect" and rng.random() < 0.5:
        case["mask"] = [1] * cur                 # all-True filter on hdf5: the unfiltered route
    # (finding F76, repaired in /repo: BasinProxyFeature.shape used to be the BASIN's shape, so the
    # unfiltered route wrote nb rows for a mapped basin of another length; the unfiltered route now
    # sees basins of every length)
    if rng.random() < 0.12:
        case["priors"] = [make_prior(rng) for _ in range(rng.choice([1, 1, 2]))]
        case["override"] = int(rng.random() < 0.8)
    if rng.random() < 0.06:
        case["req_none"], case["req"] = 1, []
    return no_unfiltered_nonsliceable(case)


def make_basin_map(rng, case, n, same_length=False):
    """a basin file with nb >= n events and the mapping of the n dataset events to them: strictly
    increasing, with repeated events, decreasing, or in arbitrary order without / with
    repetitions (a mapped basin is defined by ANY integer array)"""
    nb = n if same_length else n + rng.randint(0, 8)
    btoks = rng.sample(range(max(500, 4 * nb)), nb)
    how = rng.choice(["increasing", "repeats", "sorted-repeats", "decreasing", "arbitrary",
                      "arbitrary", "arbitrary"])
    if how in ("repeats", "sorted-repeats"):
        bmap = [rng.randrange(nb) for _ in range(n)]
    else:
        bmap = rng.sample(range(nb), n)
    if how in ("increasing", "sorted-repeats"):
        bmap.sort()
    if how == "decreasing":
        bmap.sort(reverse=True)
    case.update(btoks=btoks, bmap=bmap, bmap_kind=how, toks=[btoks[i] for i in bmap])
    if not any(f in case["avail"] for f in ("image", "mask", "image_bg", "c02_nd")):
        case["avail"].append(rng.choice(["image", "mask"]))


def make_history(rng, final):
    """earlier filter configurations of the ancestors: each differs from its successor in ONE
    level, where another selection of the SAME cardinality was active"""
    configs = []
    cur = [list(m) for m in final]
    for _ in range(rng.randint(1, 3)):
        lv = rng.randrange(len(cur))
        prev = [list(m) for m in cur]
        m = list(cur[lv])
        for _try in range(5):
            rng.shuffle(m)
            if m != cur[lv]:
                break
        prev[lv] = m
        configs.insert(0, prev)
        cur = prev
    return configs


def big_cases(ctx):
    """sources whose size is a multiple of 1024, selections of arbitrary residue"""
    rng = ctx.rng
    out = []
    for n, kind, k in ((1024, "hdf5", None), (2048, "dict", None), (2048, "hdf5", 1024),
                       (1024, "child-hdf5", None)):
        toks = rng.sample(range(4 * n + 2048), n + (n if kind.startswith("child") else 0))
        pms = []
        if kind.startswith("child"):       # the child has exactly n events
            on = set(rng.sample(range(2 * n), n))
            pms = [[int(i in on) for i in range(2 * n)]]
        if k is None:
            k = rng.randint(1, n - 1)
        sel_ = set(rng.sample(range(n), k))
        out.append({"kind": kind, "toks": toks, "avail": ["deform", "area_um", "temp", "image", "trace"],
                    "cs": rng.choice([None, 7]), "parent_masks": pms,
                    "req": rng.sample(["deform", "image", "trace", "temp"], 3),
                    "filtered": 1, "logs": 1, "tables": 0, "skip": 0, "with_tables": False,
                    "logs_content": make_logs(rng),
                    "mask": [int(i in sel_) for i in range(n)]})
    return out


def no_unfiltered_nonsliceable(case):
    """the unfiltered route stores `ds[feat]` by slicing; integer-only containers (tdms images,
    `NoArray`) do not support that, so they are always exported through a filter"""
    if case["kind"].endswith("dictna") and ({"image", "image_bg"} & set(case["req"])
                                            or case.get("req_none")):
        case["filtered"] = 1
    return case


def fixed_cases():
    out = []
    toks = list(range(40, 52))
    avail = ["deform", "area_um", "temp", "image", "image_bg", "mask", "contour", "trace", "c02_nd"]
    import random
    full_meta = make_meta(random.Random(2), full=True)    # every key of every metadata section
    for kind in ("hdf5", "dict", "dictna", "child-hdf5", "child-child-dict", "short", "basin",
                 "child-basin"):
        pms = [[1, 1, 0] * 4][:kind.count("child")]
        if kind.count("child") == 2:
            pms.append([1, 0, 1, 1, 1, 0, 1, 1])
        cur = sum(pms[-1]) if pms else 12
        for mk in ("empty", "full", "single"):
            for filt in (1, 0):
                mask = {"empty": [0] * cur, "full": [1] * cur, "single": [0] * (cur - 1) + [1]}[mk]
                c = {"kind": kind, "toks": toks, "avail": avail, "cs": 3, "parent_masks": pms,
                     "req": ["image", "deform", "trace", "contour", "mask", "deform"],
                     "filtered": filt, "logs": 1, "tables": 1, "skip": 0, "mask": mask,
                     "with_tables": True,
                     "logs_content": {"log_a": ["T = 23.5 \u00b0C, \u00f8 = 20 \u00b5m " * 5,
                                                "x" * 130, "", "\u65e5\u672c\u8a9e" * 40],
                                      "log-b": ["\U0001F600" * 30 + "abc"], "none": []}}
                if kind == "short":
                    c["short"] = {"image": 2}
                if kind.endswith("basin"):     # dataset event i = basin event bmap[i]
                    bmap = [7, 2, 11, 4, 9, 0, 5, 10, 1, 8, 3, 6]
                    c.update(btoks=toks, bmap=bmap, toks=[toks[i] for i in bmap])
                if mk != "empty":
                    c["meta"] = full_meta
                if pms:       # the ancestors selected other events (same number) before
                    c["history"] = [[list(reversed(m)) for m in pms],
                                    [list(reversed(pms[0]))] + [list(m) for m in pms[1:]]]
                out.append(no_unfiltered_nonsliceable(c))
    for variant in sorted(DEFECT_VARIANTS):
        for filt, mask in ((0, [1] * 12), (1, [1] * 12), (1, [1, 0, 1] * 4)):
            out.append({"kind": "defect", "defect": variant, "toks": toks,
                        "avail": DEFECT_BASE + DEFECT_FEATS, "cs": 3, "parent_masks": [],
                        "req": DEFECT_FEATS + ["deform", "frame"], "drop_missing": 1,
                        "filtered": filt, "logs": 0, "tables": 0, "skip": 0, "mask": mask,
                        "with_tables": False})
    base = {"kind": "hdf5", "toks": toks, "avail": avail, "cs": 2, "parent_masks": [],
            "filtered": 1, "logs": 0, "tables": 0, "skip": 0, "with_tables": False,
            "mask": [1, 0, 1, 1, 0, 1, 1, 1, 0, 1, 1, 1]}
    out.append(dict(base, req=["trace"]))                        # F41
    out.append(dict(base, req=["trace"], filtered=0))
    out.append(dict(base, req=["contour"]))
    out.append(dict(base, req=["c02_nd", "image_bg"]))
    out.append(dict(base, req=["deform", "fl2_max"]))            # missing feature
    out.append(dict(base, req=[]))                               # empty feature list
    out.append(dict(base, kind="dictna", req=["image", "image_bg", "image"], cs=4))
    # histories of the output directory (earlier exports of other data to the same path)
    stale = {"toks": list(range(700, 709)), "feats": ["deform", "area_um", "image", "trace"]}
    for kind, req, cs in (("hdf5", ["deform", "image", "trace"], 2), ("dictna", ["image", "deform"], 3)):
        for hows in (["killed"], ["killed-noflush"], ["raised"], ["complete"],
                     ["complete", "killed"], ["killed", "killed"]):
            for at in (1, 6):
                out.append(dict(base, kind=kind, req=req, cs=cs, logs=1,
                                priors=[dict(stale, how=h, at=at + j) for j, h in enumerate(hows)]))
        for hows in (["complete"], ["raised"], ["killed"]):       # no override: refusal
            out.append(dict(base, kind=kind, req=req, cs=cs, override=0,
                            priors=[dict(stale, how=h, at=4) for h in hows]))
    # `features=None`
    for kind in ("hdf5", "dict", "dictna", "child-hdf5", "short"):
        for filt in (1, 0):
            c = dict(base, kind=kind, req=[], req_none=1, filtered=filt, cs=3,
                     parent_masks=[[1, 1, 0] * 4][:kind.count("child")])
            if kind == "short":
                c["short"] = {"image": 2}
            c["mask"] = c["mask"][:8] if kind.startswith("child") else c["mask"]
            out.append(no_unfiltered_nonsliceable(c))
    for variant in ("aspect", "time32", "inert-old-shapein"):
        out.append({"kind": "defect", "defect": variant, "toks": toks, "req_none": 1,
                    "avail": DEFECT_BASE + DEFECT_FEATS, "cs": 3, "parent_masks": [], "req": [],
                    "filtered": 1, "logs": 0, "tables": 0, "skip": 0, "mask": [1, 0, 1] * 4,
                    "with_tables": False})
    return out


def fail_key(msg):
    import re
    return re.sub(r"[0-9]+", "#", msg)[:28]


def case_key(case, res):
    """failure class: first failed clause, empty / non-empty selection"""
    return fail_key(res["oracle"][0]) + ("/empty" if not any(case["mask"]) else "/nonempty")


def valid_case(case):
    """inside the assumptions: a source with a shortened feature is exported together with a
    full-length one, so that the length check of Export.hdf5 applies"""
    if case["kind"].endswith("short"):
        sh = set(case.get("short", {}))
        return bool(set(case["req"]) - sh - {"fl2_max"}) and not case.get("skip", 0)
    return True


def shrink_case(ctx, case, still_fails):
    """shrink feature list and selection while the oracle keeps failing"""
    c = copy.deepcopy(case)
    if c.get("priors"):         # first try without / with fewer earlier events at the output path
        for sub in [[]] + [[p_] for p_ in c["priors"]]:
            if len(sub) < len(c["priors"]) and still_fails(dict(c, priors=sub)):
                c["priors"] = sub
                break
    if len(c["req"]) > 1:
        c["req"] = common.ddmin(c["req"], lambda r: still_fails(dict(c, req=r)), max_tests=40)
    on = [i for i, b in enumerate(c["mask"]) if b]
    if len(on) > 1:
        def f(sub):
            m = [0] * len(c["mask"])
            for i in sub:
                m[i] = 1
            return still_fails(dict(c, mask=m))
        keep = common.ddmin(on, f, max_tests=40)
        m = [0] * len(c["mask"])
        for i in keep:
            m[i] = 1
        if still_fails(dict(c, mask=m)):
            c["mask"] = m
    return c


def part_b(ctx):
    lines, expect, metas = [], [], []
    cases = fixed_cases() + big_cases(ctx) + [random_case(ctx, i) for i in range(ctx.n(150, 2500))]
    if ctx.thorough:
        for fx in ("fmt-tdms_fl-image_2016.zip", "fmt-tdms_minimal_2016.zip"):
            for mk in ("empty", "random", "full", "kcs+1"):
                for filt in (1, 0):
                    cases.append({"kind": "tdms", "fixture": fx, "toks": [], "avail": [], "cs": 3,
                                  "parent_masks": [], "req": None, "filtered": filt, "logs": 1,
                                  "tables": 0, "skip": 0, "mask_kind": mk})
    reported = set()
    for ci, case in enumerate(cases):
        if case["kind"] == "tdms":
            case = prepare_tdms(ctx, case)
            if case is None:
                continue
        res = run_export(ctx, case, tag="b")
        for s in res["stats"]:
            ctx.stat(s)
        ctx.stat("B:kind=" + case["kind"])
        canon = (case["kind"], tuple(case["toks"]), tuple(case["req"]), tuple(case["mask"]),
                 case["filtered"], case["cs"], case["logs"], case["tables"],
                 tuple(map(tuple, case["parent_masks"])), case.get("defect"),
                 repr(case.get("history")), repr(case.get("priors")), case.get("override", 1),
                 case.get("req_none", 0), repr(case.get("meta")), repr(case.get("bmap")))
        if case.get("meta"):
            ctx.stat("B:generated-metadata")
        if case.get("bmap_kind"):
            ctx.stat("B:basin-map=" + case["bmap_kind"])
        if case.get("defect"):
            ctx.stat("B:defect=" + case["defect"])
        ctx.case(canon, nontrivial=res["nontrivial"],
                 sample={"part": "B", "case": {k: case[k] for k in ("kind", "req", "mask", "cs",
                                                                    "filtered")},
                         "impl": (res["impl"] or "")[:300]} if res["nontrivial"] else None)
        if res["oracle"] and case_key(case, res) not in reported and len(reported) < 4:
            key0 = case_key(case, res)
            reported.add(key0)

            def still(c2):
                if not valid_case(c2):
                    return False
                r2_ = run_export(ctx, c2, tag="s")
                return bool(r2_["oracle"]) and case_key(c2, r2_) == key0
            small = shrink_case(ctx, case, still)
            r2 = run_export(ctx, small, tag="s")
            what = (r2["oracle"] or res["oracle"])[0]
            hist = ""
            if small.get("priors"):
                hist = (", output path used before by " + " + ".join(
                    f"an export that {'completed' if p_['how'] == 'complete' else 'raised' if p_['how'] == 'raised' else 'was killed'}"
                    for p_ in small["priors"]))
            ctx.violation("spec", f"hdf5 export ({small['kind']}, filtered={small['filtered']}, "
                                  f"features={small['req']}, selection={sum(small['mask'])}/"
                                  f"{len(small['mask'])}{hist}): {what}",
                          {"part": "B", "case": small, "failed": r2["oracle"] or res["oracle"]})
        lines += res["lines"]
        expect += [None] * (len(res["lines"]) - 1) + [res["impl"]] if res["lines"] else []
        metas += [ci] * len(res["lines"])
        for ln, ans in (res["extra"] if res["lines"] else []):
            lines.append(ln)
            expect.append(ans)
            metas.append(ci)
    return lines, expect, metas, cases


def prepare_tdms(ctx, case):
    dclab = common.import_dclab()
    try:
        ds, opened = build_source(ctx, case, "t")
    except Exception as e:  # noqa
        ctx.note(f"tdms fixture {case['fixture']} not usable: {e!r}"[:200])
        return None
    try:
        n = len(ds)
        feats = [f for f in ds.features_innate if f in ("image", "mask", "contour", "trace")
                 or dclab.dfn.scalar_feature_exists(f)]
        keep = [f for f in feats if f in ("image", "contour", "trace", "mask")] + \
               [f for f in feats if dclab.dfn.scalar_feature_exists(f)][:3]
        c = dict(case)
        c["req"] = keep
        c["mask"] = make_mask(ctx.rng, n, c.pop("mask_kind"), 3)
        return c
    finally:
        for d in opened:
            try:
                d.close()
            except Exception:
                pass


# ---------------------------------------------------------------------------------------
# part C: tsv
def scalar_universe():
    """dclab's scalar features that a source can simply hold as data (not the ones dclab
    enumerates or derives itself: index*, basinmap*, ml_*), minus the standard five"""
    dclab = common.import_dclab()
    try:
        names = list(dclab.dfn.scalar_feature_names)
    except Exception:
        return []
    return sorted(f for f in names if f not in SCALARS and f == name_ok(f)
                  and not f.startswith(("index", "basinmap", "ml_", "userdef")))


def parse_tsv(path, full=False):
    """column names (last but one comment line) and data rows; with `full` also the labels (last
    comment line) and whether every comment line precedes the first data line"""
    hdr = None
    rows = []
    prev = None
    ordered = True
    with open(path, "r", encoding="utf-8-sig") as fd:
        for ln in fd:
            ln = ln.rstrip("\n")
            if ln.startswith("#"):
                hdr, prev = prev, ln
                ordered = ordered and not rows
                continue
            if ln.strip() == "":
                continue
            rows.append(ln.split("\t"))
    names = hdr[2:].split("\t") if hdr is not None and len(hdr) > 2 else []
    if full:
        labels = prev[2:].split("\t") if prev is not None and len(prev) > 2 else []
        return names, rows, labels, ordered
    return names, rows


def close_enough(txt, x):
    x = float(x)
    v = float(txt)
    if np.isnan(x):
        return txt.strip().lower() == "nan"
    if np.isinf(x):
        return txt.strip().lower() in (("inf", "+inf") if x > 0 else ("-inf",))
    return abs(v - x) <= 6e-11 * abs(x)


def part_c(ctx):
    dclab = common.import_dclab()
    lines, expect = [], []
    rng = ctx.rng
    specs = [("hdf5", 1024, None), ("dict", 2048, None), ("dict", 2048, 1024), ("hdf5", 2048, 2047),
             ("child-dict", 1024, None)]
    specs += [(rng.choice(["dict", "hdf5", "child-hdf5", "child-child-dict"]),
               rng.choice([rng.randint(3, 30), rng.randint(3, 30), rng.choice([4, 16, 64, 256])]),
               None) for _ in range(ctx.n(40, 400))]
    reported_c = set()          # one report per failure class
    for ci, (kind, n, ksel) in enumerate(specs):
        big = n >= 1024
        toks = rng.sample(range(max(500, 8 * n)), n * (2 if big and kind.startswith("child") else 1))
        # scalar features of the source: the five standard ones plus a few of ANY of dclab's scalar
        # features; the values they hold are drawn per feature from the value classes (integer-
        # valued, fractional, negative, nan/inf, wide range) independently of the feature's name
        pool = list(SCALARS)
        if not big:
            extra = scalar_universe()
            pool += rng.sample(extra, min(len(extra), rng.randint(0, 4)))
        vclass = {}
        for f in pool:
            if f not in ("deform", "area_um") and rng.random() < (0.25 if big else 0.6):
                vclass[f] = rng.choice(VCLASSES)
        avail = list(pool) + ["image"]
        case = {"kind": kind, "toks": toks, "avail": avail, "cs": None, "parent_masks": [],
                "vclass": vclass}
        cur = len(toks)
        for _ in range(kind.count("child")):
            if big:
                on = set(rng.sample(range(cur), n))
                pm = [int(i in on) for i in range(cur)]
            else:
                pm = make_mask(rng, cur, "random", 10)
            if sum(pm) < 2:
                pm = [1] * cur
            case["parent_masks"].append(pm)
            cur = sum(pm)
        req = rng.sample(pool, rng.randint(1 if rng.random() < 0.95 else 0, len(pool)))
        req = [f.upper() if rng.random() < 0.3 else f.capitalize() if rng.random() < 0.2 else f
               for f in req]
        if req and rng.random() < 0.4:
            req += [rng.choice(req).lower()]
        if rng.random() < 0.05 and not big:
            req.append("image")                                 # not scalar -> ValueError
        filtered = int(rng.random() < 0.8 or big)
        if big:
            on = set(rng.sample(range(cur), ksel if ksel is not None else rng.randint(1, cur - 1)))
            mask = [int(i in on) for i in range(cur)]
        else:
            mask = make_mask(rng, cur, rng.choice(["empty", "full", "single", "random", "random"]), 10)
        try:
            ds, opened = build_source(ctx, case, "c")
        except Exception as e:  # noqa
            ctx.note(f"C02 part C: source failed {e!r}"[:200])
            continue
        try:
            ds.filter.manual[:] = np.array(mask, dtype=bool)
            ds.apply_filter()
            m = np.array(ds.filter.all, dtype=bool)
            low = sorted(set(f.lower() for f in req))
            L = [f"src {len(ds)} 0"]
            for f in pool:
                L.append(f"feat {f} scalar 1 " + (",".join(map(str, range(len(ds)))) or "-"))
            L.append(f"feat image image 1 " + (",".join(map(str, range(len(ds)))) or "-"))
            targs = "%d %s %s" % (filtered, "".join("1" if b else "0" for b in m) or "-",
                                  ",".join(req) or "-")
            L.append("tsv " + targs)
            try:        # labels as dclab defines them (placement and order are what is compared)
                labs = {f: tok(dclab.dfn.get_feature_label(f, rtdc_ds=ds)) for f in pool}
            except Exception:
                labs = None
            out = ctx.workdir / "out_c.tsv"
            bad = []
            try:
                ds.export.tsv(out, features=list(req), filtered=bool(filtered), override=True)
                names, rows, labels, ordered = parse_tsv(out, full=True)
                idx = np.flatnonzero(m) if filtered else np.arange(len(ds))
                if names != low:
                    bad.append(f"header {names} expected {low}")
                if not ordered:
                    bad.append("a comment line follows a data line")
                if len(rows) != (len(idx) if low else 0):
                    bad.append(f"{len(rows)} rows, selection has {len(idx)} events")
                tokrows = []
                cols = {f: np.asarray(ds[f]) for f in low}
                for j, r in enumerate(rows):
                    tr = []
                    for k, f in enumerate(low):
                        col = cols[f]
                        t = None
                        if j < len(idx) and k < len(r) and close_enough(r[k], col[idx[j]]):
                            t = int(idx[j])
                        else:
                            bad.append(f"row {j} column {f}: '{r[k] if k < len(r) else None}' is not "
                                       f"the value of event {int(idx[j]) if j < len(idx) else None}")
                            for i in range(len(col) if len(bad) < 6 else 0):
                                if k < len(r) and close_enough(r[k], col[i]):
                                    t = i
                                    break
                        tr.append("?" if t is None else str(t))
                    tokrows.append(",".join(tr))
                ans = "ok hdr=%s rows=%s" % (",".join(names), ";".join(tokrows))
                ans2 = "ok hdr=%s lab=%s rows=%s" % (",".join(names), ",".join(map(tok, labels)),
                                                     ";".join(tokrows))
            except Exception as e:  # noqa
                ans = ans2 = "err"
                if all(f.lower() in pool for f in req):
                    bad.append(f"tsv export raised {e!r}"[:200])
            ctx.case(("C", kind, tuple(toks), tuple(req), tuple(mask), filtered),
                     nontrivial=0 < int(m.sum()) < len(m) and bool(req))
            ctx.stat("C:tsv")
            for f in low:
                ctx.stat("C:values=" + vclass.get(f, "payload"))
            if bad and fail_key(bad[0]) not in reported_c and len(reported_c) < 4:
                reported_c.add(fail_key(bad[0]))
                ctx.violation("spec", f"tsv export ({kind}, features={req}, filtered={filtered}): "
                                      + bad[0],
                              {"part": "C", "case": dict(case, req=req, mask=mask,
                                                         filtered=filtered), "failed": bad[:5]})
            lines += L
            expect += [None] * (len(L) - 1) + [ans]
            if labs is not None:
                ctx.stat("C:tsv-text")
                lines += [f"label {f} {t}" for f, t in labs.items()] + ["tsvtext " + targs]
                expect += [None] * len(labs) + [ans2]
        finally:
            for d in reversed(opened):
                try:
                    d.close()
                except Exception:
                    pass
    return lines, expect


# ---------------------------------------------------------------------------------------
def compare(ctx, lines, expect, label):
    out = ctx.lean("C02", lines)
    diffs = []
    for ln, ex, got in zip(lines, expect, out):
        if ex is None:
            if got.strip() != "ok":
                diffs.append((ln[:160], "ok", got[:200]))
            continue
        if got.strip() != ex.strip():
            diffs.append((ln[:160], ex[:400], got[:400]))
    return diffs


def run(ctx):
    la, ea = part_a(ctx)
    lb, eb, _, cases = part_b(ctx)
    lc, ec = part_c(ctx)
    # F02 must stay fixed: an open entry would be reported through ctx.known (none is open)
    if not ctx.lean_ok:
        return
    diffs = compare(ctx, la + lb + lc, ea + eb + ec, "all")
    if diffs and not any(v["kind"] == "spec" for v in ctx.violations):
        # impl and impl-mirror differ but the oracle held everywhere: extended search
        found = False
        for i in range(ctx.n(150, 2500) * 10 // 10 * 3):
            case = random_case(ctx, i)
            r = run_export(ctx, case, tag="x")
            if r["oracle"]:
                ctx.violation("spec", f"hdf5 export: {r['oracle'][0]}",
                              {"part": "B", "case": case, "failed": r["oracle"]})
                found = True
                break
        if not found:
            for dd in diffs[:6]:
                ctx.note("C02 mirror diff: " + " | ".join(dd)[:600])
            ctx.violation("mirror", f"{len(diffs)} answers differ between dclab's export and the "
                                    f"Lean model; first: '{diffs[0][0]}' impl '{diffs[0][1]}' "
                                    f"model '{diffs[0][2]}'",
                          {"correspondence": "Drive/C02.lean vs dclab.rtdc_dataset.export / writer",
                           "first": diffs[0]})


def replay(ctx, data):
    rp = data.get("replay", data)
    if rp.get("part") == "B" and "case" in rp:
        res = run_export(ctx, rp["case"], tag="r")
        for c in res["oracle"]:
            print("  still failing:", c[:300])
        return bool(res["oracle"])
    run(ctx)
    return bool(ctx.violations)
