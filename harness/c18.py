"""C18 — contour-, image- and fluorescence-derived features obey their definitions.

(A) contours:   random connected hole-free masks (blobs, thin structures, ellipses, border-touching)
                -> get_contour; oracles: cyclic point sequence == independent crack trace,
                fill(get_contour(mask)) == mask (dclab's own MaskColumn routine and a reference),
                remove_duplicates vs the Lean model;
(B) moments:    mask contours (int64), polygons and ellipses (float64) -> cont_moments_cv,
                inert_ratio_raw/prnc vs the Lean model (exact rationals); translation, axis swap,
                rotation (90 degrees, arbitrary angles), prnc >= 1, area == |shoelace|;
(C) volume:     get_volume (fix_orientation off/on, both traversal directions, asymmetric shapes;
                F35) / vol_revolve vs the Lean model; cubic scaling, sign flip, convergence of
                discretised spheres and spheroids;
(D) brightness: get_bright / get_bright_bc / get_bright_perc and the ancillary features of
                in-memory datasets, images/backgrounds of every integer and float dtype over the
                full value range vs an exact-rational reference and the Lean model, offsets as None / float / numpy scalar / int / list /
                tuple / array / per-event feature; offsets shift one-to-one (F19);
(E) crosstalk:  correct_crosstalk(spill(x)) == x, vs the adjugate inverse of the Lean model;
(F) histories:  random / repeated / still-cached / negative / numpy-integer / sliced / index-list
                accesses through LazyContourList (max_events 1..5, n-1, n, n+3, None) and through
                ds["contour"] of mask-only in-memory datasets (also > 1000 events, the default
                cache): every returned contour equals get_contour(mask[i]) and refills to ITS mask.
                In about half of the histories 1-3 events have no contour (empty mask, isolated
                single pixels, the whole image): an access that covers such an event must raise,
                every other access - in particular re-accesses of events computed after a failure -
                still returns the contour of its own event; the history is also run through the
                Lean model of the two deques (`lclGet`): outcomes and cached events (mirror); the
                number of masks read (route "indexable": a counting container) is only reported.
Model functions added in session 4 and their correspondence: `correctChannel` / `twoChannel`
(part E: fl_channel = 1, 2, 3 and invalid channels; two-channel pairs 12/13/23, receiver-only
channels, triangular and one-way matrices), `brightBcBatch` / `brightPercBatch` (part D: whole
batch calls with every offset container, ret_data variants, offsets of the wrong length),
`rotatedSecond` / `prncSq` (part B: get_inert_ratio_prnc on every region-like contour),
`lclGet` / `lclRun` (part F, flattened integer accesses) and `lclGetMany` / `lclOp` / `lclOps`
(part F, the history with its slices and index arrays).
Session 4, second pass (generators/oracles only, no new model function): B - integer contours
stored in every integer / float dtype (int8 .. uint64, float16 .. float64), both traversal
directions and both axis orders, vs the same polygon as int64; D - integer-typed offset containers
(python int lists / tuples, int64 / int16 / uint8 / float32 arrays, numpy integer scalars) and
backgrounds within a few levels of the saturation of their dtype; E - every non-empty subset of
{fl1_max, fl2_max, fl3_max} with the matching crosstalk keys, by direct calls (scalar 0 for a
channel that was not measured) and through ds['fl{i}_max_ctc'] of in-memory datasets, the
two-channel subsets also vs `twoChannel`.
"""
import math
from fractions import Fraction

import numpy as np

from . import common
from . import c18_util as U

ID = "C18"
LEAN_MODULES = ["DclabModel.Properties.C18"]
RULE = ("A: masks = blobs grown from a seed pixel (8-neighbourhood, holes filled), thin 1-pixel "
        "random walks, discretised (rotated) ellipses, rectangles, the same touching the image "
        "border; a case is non-trivial when the mask has >= 2 pixels (distinct = distinct mask bit "
        "patterns). B/C: every mask contour plus star-shaped polygons and sampled ellipses at "
        "random positions/sizes (float64), pixel sizes 0.1..2; distinct = distinct point lists. "
        "D: 1-4 events of 6x6..14x18 images/backgrounds in 16 dtype pairs (uint8, uint16 over the full "
        "range incl. >= 32768 and 65535, int16, int32, float32, float64; full/upper/lower/top/"
        "bottom/const/near value styles, backgrounds above the image) with shape masks, offsets in "
        "9 container kinds incl. 1e6, -2^31, 1e-12; exact-rational reference. E: non-negative spill matrices with |det| >= 0.05, signals up to 1e4, "
        "plus negative / singular / two-channel (pairs 12, 13, 23) / receiver-only (one channel "
        "receives spill but emits none) / triangular / one-way matrices; every case is evaluated for "
        "fl_channel 1, 2, 3 (and 0, 4 now and then). D also: whole batch calls vs the batch model, "
        "ret_data in {avg, sd, 'sd,avg', none} on every third case, offset arrays of a wrong length on "
        "every third case. F: access histories of 10-60 operations "
        "over 3-14 pairwise different masks, of which in ~55 % of the histories 1-3 are replaced by "
        "masks without contour (empty, single pixel inside / on the border, isolated pixels, full "
        "image), op alphabet incl. accesses to the failing events and re-accesses of events computed "
        "after a failure, max_events in {1..5, n-1, n, n+3, None, 0}, routes "
        "list / 3-D array / counting indexable container / ds['contour'] (deques shrunk), and "
        "datasets of 1020-1120 events with the "
        "default cache of 1000; non-trivial when max_events < number of events. "
        "B also: 60 (600) integer contours shifted into the non-negative quadrant (largest coordinate "
        "0..40 above the extent, or 127 / 255 / 1000 / 2000) and stored in each of the 11 integer / "
        "float dtypes that hold them exactly, as-is / reversed / axes swapped / both, compared with "
        "the int64 polygon. D also: 17 offset container kinds (8 integer typed / float32), each "
        "forced twice on random cases and twice on backgrounds within 10 levels of the maximum of "
        "uint8 / uint16 / int16 with |offset| <= 12. E also: 70 (700) cases cycling through the 7 "
        "non-empty channel subsets x {dataset, direct} with 1-6 events. "
        "Implementation vs Lean model to 1e-9 "
        "relative (relative to the magnitude of the cancelling terms for central moments).")
TRUSTED_BASE = [
    "modelled, not verified: numpy elementwise arithmetic/roll/sum/mean/std/percentile/linalg.inv "
    "in float64 (rounding bounded by the 1e-9 comparison), scipy.ndimage.binary_fill_holes",
    "marching squares (_find_contours_cy, compiled) is exercised through the .so only and compared "
    "with an independent crack-following tracer in harness/c18_util.py (DESIGN 6.1)",
    "pi, sqrt, atan2, cos, sin are parameters of / outside the model (the inertia ratio is "
    "modelled by its square; the rotation of get_inert_ratio_prnc enters the model as the pair "
    "(cos, sin) which the harness computes from the code's own moments)",
    "LazyContourList: the harness reads the public attribute `indices` (and replaces the deques "
    "`contours`/`indices` of ds['contour'] to get a small cache); when they are not exposed the "
    "comparisons that need them are skipped with a NOTE. get_contour of the model is an arbitrary "
    "function Nat -> Except E C (which events fail is an input)",
    "NumPy in-place broadcasting of `avg -= bg_off` (equal length or length one, otherwise "
    "ValueError) is modelled by `subOff`, not verified"]
ASSUMPTIONS = [
    "masks are connected in the 8-neighbourhood, hole-free in the sense of binary_fill_holes, "
    "and have at least two pixels (a single pixel has no contour: NoValidContourFoundError)",
    "events without contour (empty mask, isolated single pixels, full image) are outside the domain "
    "of the contour statements; for them the only demands are: an access through LazyContourList / "
    "ds['contour'] raises (the exception class is reported in a NOTE, not judged) and it does not "
    "disturb what is returned for the other events",
    "border-touching masks: the refill identity is demanded when every mask pixel on the image "
    "border still has a background 4-neighbour inside the image and marching squares returns a "
    "single contour; otherwise the contour is an open curve (observation O11, NOTE line) and only "
    "'contour points are boundary pixels of the mask, refill is a subset of the mask' is demanded",
    "float32 result of get_inert_ratio_prnc: rotation invariance / >= 1 are checked to 1e-6 (plus "
    "the conditioning term 4*eps*L^4/lambda_min; cases with a tolerance above 10 % are skipped) "
    "and only for contours whose second central moments are positive definite (the contour of "
    "a thin structure runs back on itself and can have negative mu20/mu02)",
    "central moments are compared with the model to 1e-9 relative to area * extent^order (the "
    "magnitude of the terms that cancel), volumes relative to the sum of the absolute cone terms",
    "off-centre discretised spheres/spheroids: |err| <= 2.0/r and rate in [0.33, 0.70] from "
    "r >= 20 (calibrated on 3000 shapes); the centred sphere obeys the bounds of DESIGN section 8 "
    "(1.6/r, [0.4, 0.6])"]
NOT_PROVED = [
    "fill(get_contour(mask)) == mask over ALL connected hole-free masks (marching squares is "
    "compiled; digital-topology theorem) - correspondence with an independent tracer only",
    "inert_ratio_prnc: rotation invariance and >= 1 are theorems for the squared ratio and rational "
    "rotations (rotate_invariants, prnc_sq_ge_one, prnc_rotation_invariant); that arctan2/cos/sin "
    "deliver the principal angle, the polar-coordinate rotation in float64, the final sqrt and the "
    "float32 result are correspondence/metamorphic only (1e-6)",
    "convergence of the discretised sphere/spheroid volume to the analytic value "
    "(|err| <= 1.6/r, halving with doubling r) - measured only",
    "inert_ratio_cvx (scipy.spatial.ConvexHull/qhull) and tilt (atan2) - not modelled",
    "the orientation test of get_volume(fix_orientation=True) (np.unwrap/atan2) is a parameter of "
    "the model; that it recognises clockwise contours is checked on star-shaped contours only",
    "LazyContourList: the index arithmetic of slices / index arrays (np.arange(len)[idx]) is done "
    "by the harness (the model's `lclGetMany` receives the selected events), the `Event idx, ...` "
    "decoration of the exception text is not in the model; the cache policy (which events stay "
    "cached) is compared with the model as impl-mirror only",
    "the `ret_data` parsing of get_bright_bc by substring tests ('avg' in ret_data) is represented "
    "by two booleans; min(len(mask), len(image), len(image_bg)) truncation is not modelled"]

MOM_KEYS = ["m00", "m10", "m01", "m20", "m11", "m02", "m30", "m21", "m12", "m03",
            "mu20", "mu11", "mu02", "mu30", "mu21", "mu12", "mu03"]
MOM_ORDER = {"m00": 0, "m10": 1, "m01": 1, "m20": 2, "m11": 2, "m02": 2, "m30": 3, "m21": 3,
             "m12": 3, "m03": 3, "mu20": 2, "mu11": 2, "mu02": 2, "mu30": 3, "mu21": 3, "mu12": 3,
             "mu03": 3}


class Jobs:
    """lines for the single Lean run + the callbacks that judge the answers"""

    def __init__(self):
        self.lines = []
        self.cbs = []

    def add(self, line, cb):
        self.lines.append(line)
        self.cbs.append(cb)


def guarded(fn, *a, **k):
    """call into dclab; exceptions become canonical answers"""
    try:
        return ("ok", fn(*a, **k))
    except AssertionError:
        return ("exc", "err:assert")
    except np.linalg.LinAlgError:
        return ("exc", "err:singular")
    except BaseException as e:  # noqa  (NoValidContourFoundError derives from BaseException)
        if isinstance(e, (KeyboardInterrupt, SystemExit)):
            raise
        return ("exc", common.err_class(e) if isinstance(e, Exception) else "err:other")


def mods():
    common.import_dclab()
    from dclab.features import (contour, inert_ratio, volume, bright, bright_bc, bright_perc,
                                fl_crosstalk)
    from dclab.rtdc_dataset.fmt_tdms import event_mask
    from dclab.external.skimage.measure import find_contours
    return dict(contour=contour, inert=inert_ratio, volume=volume, bright=bright,
                bright_bc=bright_bc, bright_perc=bright_perc, ct=fl_crosstalk,
                event_mask=event_mask, find_contours=find_contours)


# =============================================================================================
# A. contours
def repo_fill(M, cont, shape):
    """mask from contour with the repository's own routine (fmt_tdms.event_mask.MaskColumn)"""
    # through the public constructor, with a stand-in dataset (contour column, image column, config)
    class _Contours(list):
        identifier = "verif"

    class _Images:
        def __init__(self, shp):
            self.shape = (1,) + tuple(shp)

        def __len__(self):
            return 1

    class _DS(dict):
        config = {"imaging": {}}

    mc = M["event_mask"].MaskColumn(_DS(contour=_Contours([np.asarray(cont)]),
                                        image=_Images(shape)))
    return mc[0]


def gen_mask(rng, thorough=False):
    kind = rng.choice(["blob", "blob", "blob4", "thin", "thin", "ellipse", "rect", "diag",
                       "border-blob", "border-thin", "border-wide"])
    big = 40 if thorough else 22
    h, w = rng.randint(5, big), rng.randint(5, big)
    if kind == "blob":
        m = U.grow_blob(rng, h, w, rng.randint(1, h * w))
    elif kind == "blob4":
        m = U.grow_blob(rng, h, w, rng.randint(1, h * w), steps=U.N4)
    elif kind == "thin":
        m = U.thin_path(rng, h, w, rng.randint(1, 3 * (h + w)))
    elif kind == "ellipse":
        a, b = rng.uniform(0.8, big / 2.5), rng.uniform(0.8, big / 2.5)
        m, _, _ = U.ellipse_mask(a, b, rng.uniform(-.5, .5), rng.uniform(-.5, .5),
                                 rng.uniform(0, math.pi))
        if m.sum() >= 1:
            m = U.place(rng, m, h, w)
    elif kind == "rect":
        m = np.zeros((h, w), dtype=bool)
        r0, c0 = rng.randrange(1, h - 1), rng.randrange(1, w - 1)
        m[r0:rng.randint(r0 + 1, h - 1), c0:rng.randint(c0 + 1, w - 1)] = True
    elif kind == "diag":
        m = np.zeros((h, w), dtype=bool)
        n = rng.randint(2, min(h, w) - 2)
        r0, c0 = rng.randint(1, h - 1 - n), rng.randint(1, w - 1 - n)
        for i in range(n):
            m[r0 + i, (c0 + i) if rng.random() < 0.8 else (c0 + i + rng.choice([0, 0, 1]))] = True
        if not U.is_connected8(m):
            m = U.grow_blob(rng, h, w, 10)
    elif kind == "border-blob":
        m = U.grow_blob(rng, h, w, rng.randint(1, h * w // 2), border=True)
    elif kind == "border-thin":
        m = U.thin_path(rng, h, w, rng.randint(1, 2 * (h + w)), border=True)
    else:
        m = np.zeros((h, w), dtype=bool)
        side = rng.randrange(4)
        d = rng.randint(1, min(h, w) // 2)
        a, b = sorted(rng.sample(range(1, (w if side < 2 else h) - 1), 2))
        if side == 0:
            m[:d, a:b + 1] = True
        elif side == 1:
            m[h - d:, a:b + 1] = True
        elif side == 2:
            m[a:b + 1, :d] = True
        else:
            m[a:b + 1, w - d:] = True
    return kind, np.ascontiguousarray(m)


def contour_oracle(M, mask):
    """property oracle evaluated on the implementation; returns (failures, info, contour)"""
    fails, info = [], {}
    res = guarded(M["contour"].get_contour, mask)
    if res[0] != "ok":
        return [f"get_contour raised {res[1]}"], info, None
    c = res[1]
    h, w = mask.shape
    pts = [(int(p[0]), int(p[1])) for p in c]
    if len(pts) == 0 or any(not (0 <= x < w and 0 <= y < h) for x, y in pts):
        return ["contour leaves the image"], info, c
    if any(not mask[y, x] for x, y in pts):
        fails.append("contour point outside the mask")
    if U.dedup_cyclic(pts) != pts:
        fails.append("contour has cyclically adjacent duplicate points")
    fill1 = repo_fill(M, c, mask.shape)
    fill2 = U.fill_reference(c, mask.shape)
    if not np.array_equal(fill1, fill2):
        fails.append("MaskColumn fill differs from the reference fill")
    touching = U.touches_border(mask)
    info["touching"] = touching
    bd = U.boundary_pixels(mask)
    if not touching:
        ref = U.dedup_cyclic(U.crack_trace(mask))
        if U.canon_rot(ref) != U.canon_rot(pts):
            fails.append("cyclic point sequence differs from the boundary trace")
        if set(pts) != bd:
            fails.append("contour point set is not the set of boundary pixels")
        for i in range(len(pts)):
            a, b = pts[i], pts[(i + 1) % len(pts)]
            if max(abs(a[0] - b[0]), abs(a[1] - b[1])) != 1:
                fails.append("consecutive contour points are not 8-neighbours")
                break
        if not np.array_equal(fill1, mask):
            fails.append("fill(get_contour(mask)) != mask")
    else:
        nconts = len(M["find_contours"](mask.transpose(), level=.9999,
                                        positive_orientation="low", fully_connected="high"))
        closed_like = U.border_pixels_have_outside_neighbour(mask) and nconts == 1
        info["closed_like"] = closed_like
        if closed_like:
            padded = np.pad(mask, 1)
            ref = [(x - 1, y - 1) for x, y in U.dedup_cyclic(U.crack_trace(padded))]
            if set(ref) != set(pts):
                fails.append("border-touching: point set differs from the boundary trace")
            if not np.array_equal(fill1, mask):
                fails.append("border-touching (thin contact): fill(get_contour(mask)) != mask")
        else:
            onb = {(x, y) for x, y in pts if x in (0, w - 1) or y in (0, h - 1)}
            if not set(pts) <= (bd | onb):
                fails.append("border-touching: contour point that is no boundary pixel")
            if (fill1 & ~mask).any():
                fails.append("border-touching: refilled contour paints outside the mask")
    return fails, info, c


def part_a(ctx, M, jobs):
    conts = []
    n = ctx.n(400, 4000)
    for i in range(n):
        kind, mask = gen_mask(ctx.rng, ctx.thorough)
        if mask.sum() < 2 or not U.is_connected8(mask) or not U.is_hole_free(mask):
            ctx.stat("A:rejected")
            continue
        fails, info, c = contour_oracle(M, mask)
        ctx.stat(f"A:{kind}")
        if info.get("touching"):
            ctx.stat("A:touching-closed-like" if info.get("closed_like") else "A:touching-open")
            if not info.get("closed_like"):
                ctx.note("O11 (C18): for masks in wide contact with the image border get_contour "
                         "returns an open curve (marching squares does not pad the mask); refilling "
                         "it does not reproduce the mask. Such masks are checked with the weaker "
                         "oracle (see ASSUMPTIONS).")
        ctx.case(("A", mask.shape, mask.tobytes()), nontrivial=True,
                 sample={"part": "A", "kind": kind, "shape": list(mask.shape),
                         "pixels": int(mask.sum()), "contour_len": None if c is None else len(c)})
        if fails:
            small = shrink_mask(M, mask)
            ctx.violation("spec", f"contour of a {kind} mask: {fails[0]}",
                          {"part": "A", "mask": small.astype(int).tolist(), "failures": fails})
            continue
        if c is not None:
            conts.append((kind, mask, c))
            # the model's duplicate removal on the raw rounded marching-squares output
            raw = M["find_contours"](mask.transpose(), level=.9999, positive_orientation="low",
                                     fully_connected="high")
            c0 = sorted(raw, key=lambda x: len(x))[-1]
            c1 = np.asarray(np.round(c0), int)
            want = U.pts_line(c) if len(c) else "-"

            def cb(ans, want=want, mask=mask):
                if ans != want:
                    return ("remove_duplicates (get_contour) vs model", want[:80], ans[:80],
                            {"part": "A", "mask": mask.astype(int).tolist()})
            jobs.add("dedup " + U.pts_line(c1), cb)
    # remove_duplicates on random point lists with runs
    for i in range(ctx.n(60, 600)):
        k = ctx.rng.randint(1, 12)
        base = [(ctx.rng.randint(0, 3), ctx.rng.randint(0, 3)) for _ in range(k)]
        pts = []
        for p in base:
            pts += [p] * ctx.rng.choice([1, 1, 2, 3])
        if ctx.rng.random() < 0.3:
            pts = pts + [pts[0]] * ctx.rng.randint(1, 2)
        arr = np.array(pts, dtype=int)
        res = guarded(M["contour"].remove_duplicates, arr)
        got = "-" if res[0] == "ok" and len(res[1]) == 0 else (
            U.pts_line(res[1]) if res[0] == "ok" else res[1])
        ref = U.dedup_cyclic(pts)
        ctx.case(("A-dedup", tuple(pts)), nontrivial=len(ref) != len(pts))
        ctx.stat("A:dedup")
        if got != (U.pts_line(ref) if ref else "-"):
            ctx.violation("spec", "remove_duplicates leaves cyclically adjacent duplicates / "
                                  "drops a point", {"part": "A-dedup", "points": pts, "got": got})

        def cb(ans, got=got, pts=pts):
            if ans != got:
                return ("remove_duplicates vs model", got[:80], ans[:80],
                        {"part": "A-dedup", "points": pts})
        jobs.add("dedup " + U.pts_line(pts), cb)
    return conts


def shrink_mask(M, mask):
    """crop to the bounding box (+1) when the failure persists"""
    try:
        ys, xs = np.nonzero(mask)
        if U.touches_border(mask):
            return mask
        sub = np.pad(mask[ys.min():ys.max() + 1, xs.min():xs.max() + 1], 1)
        if contour_oracle(M, sub)[0]:
            return sub
    except Exception:
        pass
    return mask


# =============================================================================================
# B. moments
def mom_scale(cont, key):
    """magnitude of the terms that cancel in moment `key`: area x extent^order"""
    c = np.asarray(cont, dtype=np.float64)
    L = max(1.0, float(np.abs(c).max()))
    A = abs(float(U.shoelace(cont))) + 1e-6 * L * L      # dxy itself cancels at magnitude L^2
    return A * L ** MOM_ORDER[key]


def moments_oracles(M, cont, rng):
    """metamorphic laws on the implementation; returns list of failure strings"""
    fi = M["inert"]
    fails = []
    cont = np.asarray(cont)
    integer = np.issubdtype(cont.dtype, np.integer)
    m = fi.cont_moments_cv(cont)
    if m is None:
        return fails
    # area == |shoelace|
    if not U.close_to(m["m00"], abs(U.shoelace(cont)), 1e-9, scale=mom_scale(cont, "m00")):
        fails.append("m00 != |shoelace area|")
    # translation
    if integer:
        t = np.array([rng.randint(-200, 200), rng.randint(-200, 200)], dtype=cont.dtype)
    else:
        t = np.array([rng.uniform(-100, 100), rng.uniform(-100, 100)])
    mt = fi.cont_moments_cv(cont + t)
    if mt is None:
        fails.append("translated contour has no moments")
    else:
        L = max(1.0, float(np.abs(cont).max()), float(np.abs(cont + t).max()))
        for k in ["m00", "mu20", "mu11", "mu02", "mu30", "mu21", "mu12", "mu03"]:
            if not U.close_to(mt[k], m[k], 1e-9, scale=abs(m["m00"]) * L ** MOM_ORDER[k]):
                fails.append(f"{k} not translation invariant ({m[k]!r} vs {mt[k]!r}, t={t.tolist()})")
                break
    # axis swap
    ms = fi.cont_moments_cv(cont[:, ::-1])
    if ms is None:
        fails.append("axis-swapped contour has no moments")
    else:
        for a, b in [("mu20", "mu02"), ("mu02", "mu20"), ("mu11", "mu11"), ("m00", "m00"),
                     ("m10", "m01"), ("mu30", "mu03"), ("mu21", "mu12")]:
            if not U.close_to(ms[a], m[b], 1e-9, scale=mom_scale(cont, a)):
                fails.append(f"axis swap: {a} of the swapped contour != {b}")
                break
        r1 = fi.get_inert_ratio_raw(cont)
        r2 = fi.get_inert_ratio_raw(cont[:, ::-1])
        if np.isfinite(r1) and np.isfinite(r2) and r1 > 0:
            if not U.close_to(r1 * r2, 1.0, 1e-12):
                fails.append(f"inert_ratio_raw not reciprocal under axis swap: {r1!r}*{r2!r}")
    # rotation by 90 degrees: (x, y) -> (-y, x)
    r90 = np.stack([-cont[:, 1], cont[:, 0]], axis=1)
    m90 = fi.cont_moments_cv(r90)
    if m90 is None or m90["mu20"] != m["mu02"] or m90["mu02"] != m["mu20"] or m90["m00"] != m["m00"]:
        fails.append("rotation by 90 degrees does not exchange mu20 and mu02 exactly")
    p0 = float(fi.get_inert_ratio_prnc(cont))
    p90 = float(fi.get_inert_ratio_prnc(r90))
    # the contour of a thin structure runs back on itself: such degenerate polygons can have an
    # indefinite 'covariance' (negative mu20/mu02), for which a principal ratio is meaningless
    region_like = m["mu20"] > 0 and m["mu02"] > 0 and m["mu20"] * m["mu02"] > m["mu11"] ** 2
    if np.isfinite(p0) and region_like:
        # conditioning: the ratio is sqrt(l_max/l_min); the moments carry an absolute rounding
        # error of about eps * L^4 (L = largest coordinate), which is amplified by 1/l_min for very
        # thin shapes far from the origin. Ill-conditioned cases (tolerance > 10 %) are skipped.
        tr = (m["mu20"] + m["mu02"]) / 2
        lmin = tr - math.sqrt(((m["mu20"] - m["mu02"]) / 2) ** 2 + m["mu11"] ** 2)
        L = max(1.0, float(np.abs(cont).max())) + (30.0 if not integer else 0.0)
        ptol = 1e-6 + 4 * 2.2e-16 * L ** 4 / max(lmin, 1e-300)
        if ptol > 0.1:
            return fails
        if not (p0 >= 1 - ptol):
            fails.append(f"inert_ratio_prnc < 1: {p0!r}")
        if not U.close_to(p90, p0, ptol):
            fails.append(f"inert_ratio_prnc changes under rotation by 90 degrees: {p0!r} vs {p90!r}")
        if not integer:
            th = rng.uniform(0, 2 * math.pi)
            cr = U.rotate(cont, th, rng.uniform(-20, 20), rng.uniform(-20, 20))
            pr = float(fi.get_inert_ratio_prnc(cr))
            mr = fi.cont_moments_cv(cr)
            if not U.close_to(pr, p0, ptol):
                fails.append(f"inert_ratio_prnc not rotation invariant: {p0!r} vs {pr!r} "
                             f"(theta={th!r})")
            if mr is None or not U.close_to(mr["m00"], m["m00"], 1e-9):
                fails.append("area not rotation invariant")
    return fails


def purity_fails(fi, c):
    """features are functions of the contour: computing one must not change the caller's array
    (every later feature would be computed from different data); returns (failures, intact c)"""
    snapshot = c.copy()
    for fname in ("cont_moments_cv", "get_inert_ratio_raw", "get_inert_ratio_cvx", "get_tilt",
                  "get_inert_ratio_prnc"):
        guarded(getattr(fi, fname), c)
        if not np.array_equal(c, snapshot):
            return [f"{fname} modified the contour array it was given (dtype {c.dtype}); "
                    f"features computed afterwards are wrong"], snapshot
    return [], c


# every integer / float storage type of numpy; a polygon is its coordinates, not their container
CONT_DTYPES = ["int8", "uint8", "int16", "uint16", "int32", "uint32", "int64", "uint64",
               "float16", "float32", "float64"]


def dtype_holds(name, c):
    """every coordinate of the integer-valued contour `c` is exactly representable in dtype `name`"""
    lo, hi = int(c.min()), int(c.max())
    dt = np.dtype(name)
    if dt.kind in "iu":
        ii = np.iinfo(dt)
        return int(ii.min) <= lo and hi <= int(ii.max)
    return max(abs(lo), abs(hi)) <= 2 ** (np.finfo(dt).nmant + 1)


def dtype_variants(base):
    """both traversal directions x both axis orders of an integer contour (int64)"""
    base = np.ascontiguousarray(base, dtype=np.int64)
    return [("as-is", base), ("reversed", np.ascontiguousarray(base[::-1])),
            ("swapped", np.ascontiguousarray(base[:, ::-1])),
            ("swapped-reversed", np.ascontiguousarray(base[::-1, ::-1]))]


def dtype_fails(M, base, names=CONT_DTYPES):
    """area and inertia features are functions of the polygon: the same integer coordinates stored
    in any integer / float dtype (signed, unsigned, every width), traversed in either direction,
    with either axis order, give the same moments, area, inertia ratios and tilt as the int64
    contour; on the typed contour itself area == |shoelace| and raw(c) * raw(swapped c) == 1.
    Returns (failures, dtypes exercised)."""
    fi = M["inert"]
    fails, used = [], []
    variants = dtype_variants(base)
    refs = []
    for vname, v in variants:
        r = guarded(fi.cont_moments_cv, v)
        if r[0] != "ok":
            return [f"cont_moments_cv raised {r[1]} on an int64 contour ({vname})"], used
        refs.append((r[1], [guarded(getattr(fi, f), v) for f in
                            ("get_inert_ratio_raw", "get_inert_ratio_cvx", "get_tilt",
                             "get_inert_ratio_prnc")]))
    area = abs(U.shoelace(base))
    for name in names:
        if not dtype_holds(name, base):
            continue
        used.append(name)
        raws = {}
        for (vname, v), (mref, fref) in zip(variants, refs):
            t = v.astype(name)
            snap = t.copy()
            r = guarded(fi.cont_moments_cv, t)
            if r[0] != "ok":
                fails.append(f"cont_moments_cv raised {r[1]} on a {name} contour ({vname})")
                break
            m = r[1]
            if (m is None) != (mref is None):
                fails.append(f"cont_moments_cv of a {name} contour ({vname}) is "
                             f"{'None' if m is None else 'a dict'}, of the same int64 contour not")
                break
            if m is not None:
                if not U.close_to(m["m00"], area, 1e-9, scale=mom_scale(v, "m00")):
                    fails.append(f"area m00 = {m['m00']!r} of a {name} contour ({vname}) is not the "
                                 f"|shoelace area| {float(area)!r}")
                    break
                bad = [k for k in MOM_KEYS
                       if not U.close_to(m[k], mref[k], 1e-9, scale=mom_scale(v, k))]
                if bad:
                    k = bad[0]
                    fails.append(f"moment {k} of a {name} contour ({vname}) = {m[k]!r} differs from "
                                 f"the same polygon stored as int64 ({mref[k]!r})")
                    break
            stop = False
            for fname, ref, tol in zip(("get_inert_ratio_raw", "get_inert_ratio_cvx", "get_tilt",
                                        "get_inert_ratio_prnc"), fref, (1e-9, 1e-9, 1e-9, 1e-6)):
                g = guarded(getattr(fi, fname), t)
                if g[0] != ref[0]:
                    fails.append(f"{fname} on a {name} contour ({vname}): "
                                 f"{g[1] if g[0] == 'exc' else 'ok'} vs int64 "
                                 f"{ref[1] if ref[0] == 'exc' else 'ok'}")
                    stop = True
                    break
                if g[0] != "ok":
                    continue
                a, b = float(g[1]), float(ref[1])
                if fname == "get_inert_ratio_raw":
                    raws[vname] = a
                # the same numbers in exact integer range: float64 sums differ by rounding only;
                # thin shapes (tiny mu20/mu02) amplify that, hence the conditioning factor
                # (ill-conditioned cases, tolerance > 10 %, are skipped)
                cond = 1.0
                if m is not None:
                    cond += sum(mom_scale(v, k) / max(abs(mref[k]), 1e-300)
                                for k in ("mu20", "mu02"))
                if tol * cond > 0.1 or (math.isnan(a) and math.isnan(b)):
                    continue
                if not U.close_to(a, b, tol * cond, scale=1e-12):
                    fails.append(f"{fname} of a {name} contour ({vname}) = {a!r} differs from the "
                                 f"same polygon stored as int64 ({b!r})")
                    stop = True
                    break
            if not np.array_equal(t, snap):
                fails.append(f"a feature function modified the {name} contour it was given")
                stop = True
            if stop:
                break
        else:
            for p_, q_ in (("as-is", "swapped"), ("reversed", "swapped-reversed")):
                r1, r2 = raws.get(p_), raws.get(q_)
                if r1 is not None and r2 is not None and np.isfinite(r1) and np.isfinite(r2) \
                        and r1 > 0 and not U.close_to(r1 * r2, 1.0, 1e-9):
                    fails.append(f"inert_ratio_raw of a {name} contour is not reciprocal under "
                                 f"axis swap: {r1!r} * {r2!r}")
                    break
    return fails, used


def part_b_dtypes(ctx, M, cases):
    """storage types: integer contours (mask contours, integer polygons) moved into the
    non-negative quadrant (near the origin, or so that the largest coordinate is the maximum of a
    narrow dtype / a few thousand) and stored in every dtype that holds them"""
    pool = [(k, c) for k, c in cases if np.issubdtype(c.dtype, np.integer) and len(c) >= 3]
    if not pool:
        return
    budget = ctx.n(60, 600)
    step = max(1, len(pool) // budget)
    for kind, c in pool[::step][:budget]:
        c = np.asarray(c, dtype=np.int64)
        ext = int((c.max(axis=0) - c.min(axis=0)).max())
        top = ctx.rng.choice([0, 0, 127, 255, 1000, 2000])      # largest coordinate after the shift
        shift = -c.min(axis=0)
        if top > ext:
            shift = shift + (top - int((c + shift).max()))
        elif ctx.rng.random() < 0.5:
            shift = shift + np.array([ctx.rng.randint(0, 40), ctx.rng.randint(0, 40)])
        base = c + shift
        r = guarded(dtype_fails, M, base)
        fails, used = r[1] if r[0] == "ok" else ([f"dtype oracle evaluation raised {r[1]}"], [])
        for name in used:
            ctx.stat("B:dtype=" + name)
        ctx.case(("B-dtype", base.tobytes()), nontrivial=True,
                 sample={"part": "B-dtype", "kind": kind, "npoints": len(base),
                         "max_coordinate": int(base.max())})
        if fails:
            ctx.violation("spec", f"moments of a {kind.split(':')[0]} contour: {fails[0]}",
                          {"part": "B-dtype", "cont": base.tolist(), "failures": fails})


def gen_polygon(rng):
    kind = rng.choice(["star", "star", "star-int", "ellipse", "ellipse-rot", "tri", "cw"])
    cx, cy = rng.uniform(-300, 300), rng.uniform(-300, 300)
    if kind == "star":
        c = U.star_polygon(rng, cx=cx, cy=cy, rmin=rng.uniform(0.5, 5), rmax=rng.uniform(6, 60))
    elif kind == "star-int":
        c = U.star_polygon(rng, cx=round(cx), cy=round(cy), rmin=3, rmax=rng.uniform(8, 60),
                           integer=True)
    elif kind == "ellipse":
        c = U.ellipse_polygon(rng.randint(8, 60), rng.uniform(1, 40), rng.uniform(1, 40), cx, cy)
    elif kind == "ellipse-rot":
        c = U.ellipse_polygon(rng.randint(8, 60), rng.uniform(1, 40), rng.uniform(1, 40), cx, cy,
                              rng.uniform(0, math.pi))
    elif kind == "tri":
        c = U.star_polygon(rng, n=3, cx=cx, cy=cy, rmin=1, rmax=20)
    else:
        c = U.star_polygon(rng, cx=cx, cy=cy)[::-1].copy()
    return kind, c


def prnc_job(ctx, M, jobs, c, m):
    """`get_inert_ratio_prnc` vs the model (`rotatedSecond` / `prncSq`): the model rotates the
    contour exactly by (cos, sin) of the angle orient + pi/2 that the code derives from its own
    moments (atan2/cos/sin are evaluated here, they are parameters of the model) and returns the
    second central moments of the rotated contour; sqrt(mu20/mu02) must be the code's result"""
    fi = M["inert"]
    if m is None or len(c) < 3:
        return
    region_like = m["mu20"] > 0 and m["mu02"] > 0 and m["mu20"] * m["mu02"] > m["mu11"] ** 2
    r = guarded(fi.get_inert_ratio_prnc, c)
    if not region_like or r[0] != "ok" or not np.isfinite(r[1]):
        return
    p0 = float(r[1])
    tr = (m["mu20"] + m["mu02"]) / 2
    lmin = tr - math.sqrt(((m["mu20"] - m["mu02"]) / 2) ** 2 + m["mu11"] ** 2)
    L = max(1.0, float(np.abs(c).max()))
    ptol = 1e-6 + 4 * 2.2e-16 * L ** 4 / max(lmin, 1e-300)
    if ptol > 0.1:
        return
    alpha = 0.5 * math.atan2(2 * m["mu11"], m["mu02"] - m["mu20"]) + math.pi / 2
    co, si = math.cos(alpha), math.sin(alpha)
    ctx.stat("B:prnc-vs-model")

    def cbp(ans, p0=p0, ptol=ptol, c=c, m=m):
        rp = {"part": "B", "cont": c.tolist(), "dtype": c.dtype.str}
        if ans == "none":
            return ("get_inert_ratio_prnc vs model", repr(p0), "none", rp)
        m00, mu20, mu11, mu02 = [float(U.unrat(v)) for v in ans.split()]
        if not U.close_to(m00, m["m00"], 1e-9, scale=mom_scale(c, "m00")):
            return ("area of the rotated contour (model) vs cont_moments_cv", repr(m["m00"]),
                    repr(m00), rp)
        if mu02 <= 0 or mu20 <= 0:
            return None                       # ill-conditioned: no principal ratio to compare
        if not U.close_to(p0, math.sqrt(mu20 / mu02), ptol):
            return ("get_inert_ratio_prnc vs model", repr(p0), repr(math.sqrt(mu20 / mu02)), rp)
    jobs.add(f"prnc {U.rat(co)} {U.rat(si)} {U.rat(U.FLT_EPS)} {U.rat(U.DBL_EPS)} "
             + U.pts_line(c), cbp)


def part_b(ctx, M, jobs, conts):
    fi = M["inert"]
    cases = [("mask:" + k, np.asarray(c)) for k, _, c in conts]
    for _ in range(ctx.n(400, 4000)):
        cases.append(gen_polygon(ctx.rng))
    # degenerate: collinear / tiny area
    for _ in range(ctx.n(10, 60)):
        n = ctx.rng.randint(2, 6)
        x = np.array(sorted(ctx.rng.randint(0, 30) for _ in range(n)), dtype=np.int64)
        cases.append(("collinear", np.stack([x, 2 * x + 1], axis=1)))
    for kind, c in cases:
        ctx.stat("B:" + kind.split(":")[0])
        res = guarded(fi.cont_moments_cv, c)
        ctx.case(("B", c.dtype.str, c.tobytes()), nontrivial=len(c) >= 3,
                 sample={"part": "B", "kind": kind, "npoints": len(c)})
        if res[0] != "ok":
            ctx.violation("spec", f"cont_moments_cv raised {res[1]} on a {kind} contour",
                          {"part": "B", "cont": c.tolist(), "dtype": c.dtype.str})
            continue
        m = res[1]
        ofails = []
        ofails, c = purity_fails(fi, c)
        if not ofails:
            o = guarded(moments_oracles, M, c, ctx.rng)
            ofails = o[1] if o[0] == "ok" else [f"oracle evaluation raised {o[1]}"]
        if ofails:
            ctx.violation("spec", f"moments of a {kind} contour: {ofails[0]}",
                          {"part": "B", "cont": c.tolist(), "dtype": c.dtype.str,
                           "failures": ofails})
            continue
        raw = guarded(fi.get_inert_ratio_raw, c)

        def cb(ans, m=m, c=c, raw=raw, kind=kind):
            rp = {"part": "B", "cont": c.tolist(), "dtype": c.dtype.str}
            if ans == "none":
                if m is not None:
                    return ("cont_moments_cv vs model", "dict", "none", rp)
                return None
            if m is None:
                return ("cont_moments_cv vs model", "None", ans[:60], rp)
            vals = [U.unrat(v) for v in ans.split()]
            for k, v in zip(MOM_KEYS, vals):
                if not U.close_to(m[k], v, 1e-9, scale=mom_scale(c, k)):
                    return (f"cont_moments_cv[{k}] vs model", repr(m[k]), repr(float(v)), rp)
            irsq = vals[17]
            if raw[0] == "ok" and np.isfinite(raw[1]) and irsq > 0:
                # conditioning of sqrt(mu20/mu02) given the tolerance of the two moments
                tol = 1e-9 * (1 + 0.5 * (mom_scale(c, "mu20") / abs(float(vals[10]))
                                         + mom_scale(c, "mu02") / abs(float(vals[12]))))
                if not U.close_to(raw[1], math.sqrt(irsq), tol):
                    return ("get_inert_ratio_raw vs model", repr(raw[1]), repr(math.sqrt(irsq)), rp)
            return None
        jobs.add(f"mom {U.rat(U.FLT_EPS)} {U.rat(U.DBL_EPS)} " + U.pts_line(c), cb)
        prnc_job(ctx, M, jobs, c, m)
    part_b_dtypes(ctx, M, cases)


# =============================================================================================
# C. volume
def volume_oracles(M, cont, px, py, pix, rng):
    fv = M["volume"]
    fails = []
    v = fv.get_volume(cont, px, py, pix)
    if not np.isfinite(v):
        return fails
    sc = abs(v) + 1e-300
    for k in (2.0, rng.uniform(0.2, 5)):
        vk = fv.get_volume(cont, k * px, k * py, k * pix)
        if not U.close_to(vk, k ** 3 * v, 1e-9, scale=k ** 3 * volume_scale(cont, px, py, pix)):
            fails.append(f"volume does not scale with the cube of the pixel size (k={k!r}: "
                         f"{vk!r} vs {k ** 3 * v!r})")
            break
    vr = fv.get_volume(cont[::-1].copy(), px, py, pix)
    S = volume_scale(cont, px, py, pix)
    if not U.close_to(vr, -v, 1e-9, scale=S):
        fails.append(f"volume of the reversed contour is not the negative ({vr!r} vs {-v!r})")
    # fix_orientation=True: the volume of the contour traversed in the direction the orientation
    # test asks for, i.e. +-get_volume(cont), the same for both traversal directions
    cw = orientation_cw(cont, px, py, pix)
    vf = fv.get_volume(cont, px, py, pix, fix_orientation=True)
    if not U.close_to(vf, -v if cw else v, 1e-9, scale=S):
        fails.append(f"get_volume(fix_orientation=True) = {vf!r} of a "
                     f"{'clockwise' if cw else 'counter-clockwise'} contour is not the volume of "
                     f"the counter-clockwise contour ({(-v if cw else v)!r})")
    cwr = orientation_cw(cont[::-1], px, py, pix)
    vfr = fv.get_volume(cont[::-1].copy(), px, py, pix, fix_orientation=True)
    if cwr != cw and not U.close_to(vfr, vf, 1e-9, scale=S):
        fails.append(f"get_volume(fix_orientation=True) depends on the traversal direction "
                     f"({vf!r} vs {vfr!r})")
    return fails


def orientation_cw(cont, px, py, pix):
    """the orientation test of volume.counter_clockwise (a parameter of the model: unwrap/atan2)"""
    c = np.asarray(cont)
    z = c[:, 0] - px / pix
    r = c[:, 1] - py / pix
    return bool(np.average(np.diff(np.unwrap(np.arctan2(z, r)))) < 0)


def volume_scale(cont, px, py, pix):
    """magnitude of the summed cone terms: pi/3 * sum |dz| * (r^2+rR+R^2) * pix^3"""
    c = np.asarray(cont, dtype=np.float64)
    z = c[:, 0] - px / pix
    r = c[:, 1] - py / pix
    rr = np.abs(np.append(r, r[0]))
    dz = np.abs(np.diff(np.append(z, z[0])))
    ext = float(np.abs(z).max() + np.abs(r).max()) + 1.0          # floor for degenerate contours
    return float(np.sum(dz * (rr[:-1] ** 2 + rr[:-1] * rr[1:] + rr[1:] ** 2)) + 1e-6 * ext ** 3) \
        * pix ** 3


def part_c(ctx, M, jobs, conts):
    fv = M["volume"]
    fi = M["inert"]
    cases = []
    for kind, mask, c in conts:
        c = np.asarray(c)
        pix = ctx.rng.choice([0.34, 0.5, 1.0, ctx.rng.uniform(0.1, 2.0)])
        m = fi.cont_moments_cv(c)
        if m is not None and ctx.rng.random() < 0.8:
            px, py = m["m10"] / m["m00"] * pix, m["m01"] / m["m00"] * pix
        else:
            px, py = float(c[:, 0].mean()) * pix, float(c[:, 1].mean()) * pix
        cases.append(("mask:" + kind, c, px, py, pix))
        if ctx.rng.random() < 0.5:              # the same contour traversed clockwise
            cases.append(("maskrev:" + kind, c[::-1].copy(), px, py, pix))
    for _ in range(ctx.n(60, 600)):             # asymmetric star shapes about pos, both directions
        pix = ctx.rng.uniform(0.1, 2.0)
        cx, cy = ctx.rng.uniform(20, 300), ctx.rng.uniform(20, 300)
        c = U.star_polygon(ctx.rng, n=ctx.rng.randint(4, 14), cx=cx, cy=cy,
                           rmin=ctx.rng.uniform(2, 5),
                           rmax=ctx.rng.uniform(8, 40), integer=ctx.rng.random() < 0.3)
        if ctx.rng.random() < 0.5:
            c = c[::-1].copy()
        cases.append(("orient", c, cx * pix, cy * pix, pix))
    for _ in range(ctx.n(200, 2000)):
        kind, c = gen_polygon(ctx.rng)
        pix = ctx.rng.uniform(0.1, 2.0)
        px = float(c[:, 0].mean()) * pix + ctx.rng.uniform(-1, 1)
        py = float(c[:, 1].mean()) * pix + ctx.rng.uniform(-1, 1)
        cases.append((kind, c, px, py, pix))
    for _ in range(ctx.n(6, 40)):          # fewer than four points -> nan
        c = U.star_polygon(ctx.rng, n=3)
        cases.append(("short", c, 0.0, 0.0, 1.0))
    for kind, c, px, py, pix in cases:
        ctx.stat("C:" + kind.split(":")[0])
        snapshot = c.copy()
        res = guarded(fv.get_volume, c, px, py, pix)
        guarded(fv.get_volume, c, px, py, pix, fix_orientation=True)
        if not np.array_equal(c, snapshot):
            ctx.violation("spec", "get_volume modified the contour array it was given",
                          {"part": "C", "cont": snapshot.tolist(), "dtype": c.dtype.str,
                           "pos_x": px, "pos_y": py, "pix": pix})
            c = snapshot
            continue
        ctx.case(("C", c.tobytes(), px, py, pix), nontrivial=len(c) >= 4)
        rp = {"part": "C", "cont": c.tolist(), "dtype": c.dtype.str, "pos_x": px, "pos_y": py,
              "pix": pix}
        if res[0] != "ok":
            ctx.violation("spec", f"get_volume raised {res[1]} on a {kind} contour", rp)
            continue
        v = res[1]
        o = guarded(volume_oracles, M, c, px, py, pix, ctx.rng)
        ofails = o[1] if o[0] == "ok" else [f"oracle evaluation raised {o[1]}"]
        if kind == "orient" and not ofails and np.isfinite(v):      # star-shaped about pos: the fixed volume is > 0
            vf = fv.get_volume(c, px, py, pix, fix_orientation=True)
            if not (vf > 0 and U.close_to(vf, abs(v), 1e-9, scale=volume_scale(c, px, py, pix))):
                ofails = [f"get_volume(fix_orientation=True) of a star-shaped contour is {vf!r}, "
                          f"not |volume| = {abs(v)!r}"]
        if ofails:
            ctx.violation("spec", f"volume of a {kind} contour: {ofails[0]}",
                          dict(rp, failures=ofails))
            continue
        if len(c) >= 4:
            cw = orientation_cw(c, px, py, pix)
            ctx.stat("C:fix-orientation-cw" if cw else "C:fix-orientation-ccw")
            vfx = guarded(fv.get_volume, c, px, py, pix, fix_orientation=True)

            def cbf(ans, vfx=vfx, rp=rp, c=c, px=px, py=py, pix=pix):
                if vfx[0] != "ok" or ans == "nan":
                    return ("get_volume(fix_orientation) vs model", str(vfx[1]), ans[:40], rp)
                if not U.close_to(vfx[1], U.unrat(ans), 1e-9, scale=volume_scale(c, px, py, pix)):
                    return ("get_volume(fix_orientation) vs model", repr(vfx[1]),
                            repr(float(U.unrat(ans))), rp)
            jobs.add(f"volfix {U.rat(U.PI)} {U.rat(pix)} {U.rat(px)} {U.rat(py)} {int(cw)} "
                     + U.pts_line(c), cbf)

        def cb(ans, v=v, rp=rp, c=c, px=px, py=py, pix=pix):
            if ans == "nan":
                return None if np.isnan(v) else ("get_volume vs model", repr(v), "nan", rp)
            if np.isnan(v):
                return ("get_volume vs model", "nan", ans[:40], rp)
            mv = U.unrat(ans)
            if not U.close_to(v, mv, 1e-9, scale=volume_scale(c, px, py, pix)):
                return ("get_volume vs model", repr(v), repr(float(mv)), rp)
        jobs.add(f"vol {U.rat(U.PI)} {U.rat(pix)} {U.rat(px)} {U.rat(py)} " + U.pts_line(c), cb)
    # vol_revolve directly (closed / open inputs, assertion paths)
    for _ in range(ctx.n(150, 1500)):
        n = ctx.rng.randint(2, 12)
        r = np.array([ctx.rng.choice([0.0, ctx.rng.uniform(0, 20)]) for _ in range(n)])
        z = np.array([ctx.rng.uniform(-20, 20) for _ in range(n)])
        mode = ctx.rng.choice(["open", "closed", "neg", "int"])
        if mode == "closed":
            r = np.append(r, r[0])
            z = np.append(z, z[0])
        elif mode == "neg" and ctx.rng.random() < 0.5:
            r[ctx.rng.randrange(n)] = -1.5
        elif mode == "int":
            r = np.round(r)
            z = np.round(z)
        sc = ctx.rng.choice([1.0, 0.34, ctx.rng.uniform(0.1, 3)])
        res = guarded(fv.vol_revolve, r, z, sc)
        ctx.stat("C:volrev-" + mode)
        ctx.case(("C-rev", r.tobytes(), z.tobytes(), sc), nontrivial=res[0] == "ok")
        rp = {"part": "C-rev", "r": r.tolist(), "z": z.tolist(), "scale": sc}
        if res[0] == "ok":
            v = res[1]
            k = ctx.rng.uniform(0.2, 4)
            S = float(np.sum(np.abs(np.diff(np.append(z, z[0]))) * 3 * (np.abs(r).max() + 1e-9) ** 2)
                      ) * sc ** 3 + 1e-300
            vk = guarded(fv.vol_revolve, k * r, k * z, sc)
            vr = guarded(fv.vol_revolve, r[::-1], z[::-1], sc)
            if vk[0] != "ok" or not U.close_to(vk[1], k ** 3 * v, 1e-9, scale=k ** 3 * S):
                ctx.violation("spec", "vol_revolve does not scale with the cube of the coordinates",
                              dict(rp, k=k))
            if vr[0] != "ok" or not U.close_to(vr[1], -v, 1e-9, scale=S):
                ctx.violation("spec", "vol_revolve of the reversed contour is not the negative", rp)

        def cb(ans, res=res, rp=rp, r=r, z=z, sc=sc):
            if res[0] != "ok":
                return None if ans == res[1] else ("vol_revolve vs model", res[1], ans[:40], rp)
            if ans.startswith("err"):
                return ("vol_revolve vs model", repr(res[1]), ans, rp)
            S = float(np.sum(np.abs(np.diff(np.append(z, z[0]))) * 3 * (np.abs(r).max() + 1e-9) ** 2)
                      ) * sc ** 3 + 1e-300
            if not U.close_to(res[1], U.unrat(ans), 1e-9, scale=S):
                return ("vol_revolve vs model", repr(res[1]), repr(float(U.unrat(ans))), rp)
        jobs.add(f"volrev {U.rat(U.PI)} {U.rat(sc)} "
                 + " ".join(f"{U.rat(a)},{U.rat(b)}" for a, b in zip(r, z)), cb)
    # convergence to the analytic volume
    radii = [5, 10, 20, 40] + ([80, 160] if ctx.thorough else [80])
    for rep in range(ctx.n(3, 12)):
        ox, oy = (0.0, 0.0) if rep == 0 else (ctx.rng.uniform(-.5, .5), ctx.rng.uniform(-.5, .5))
        ratio = 1.0 if rep < 2 else ctx.rng.uniform(0.5, 2.0)       # a / b
        errs = []
        for r in radii:
            a, b = (r * ratio, r) if ratio >= 1 else (r, r / ratio)    # min(a, b) == r
            mask, cx, cy = U.ellipse_mask(a, b, ox, oy)
            res = guarded(lambda: fv.get_volume(M["contour"].get_contour(mask), cx, cy, 1.0))
            ctx.stat("C:convergence")
            ctx.case(("C-conv", r, ratio, ox, oy), nontrivial=True)
            if res[0] != "ok":
                ctx.violation("spec", f"volume of a discretised spheroid raised {res[1]}",
                              {"part": "C-conv", "a": a, "b": b, "ox": ox, "oy": oy})
                break
            err = res[1] / (4 / 3 * math.pi * a * b * b) - 1
            errs.append(err)
            # centred sphere: the bounds measured in DESIGN section 8; off-centre spheres and
            # spheroids scatter a little more (calibrated on 3000 random shapes: <= 1.8/r)
            bound = 1.6 if rep == 0 else 2.0
            if not (res[1] > 0 and abs(err) <= bound / r):
                ctx.violation("spec", f"discretised spheroid a={a:.3f} b={b:.3f}: relative volume "
                                      f"error {err:.4f} exceeds {bound}/r (or volume not positive)",
                              {"part": "C-conv", "a": a, "b": b, "ox": ox, "oy": oy, "err": err})
        for e1, e2, r in zip(errs, errs[1:], radii):
            # calibrated on 3000 random off-centre spheroids: the rate between r and 2r scatters in
            # [0.34, 0.73] for r <= 10 and in [0.41, 0.64] for r >= 20
            lo, hi = (0.4, 0.6) if rep == 0 else (0.33, 0.70)
            if rep > 0 and r < 20:
                continue
            if not (lo <= e2 / e1 <= hi):
                ctx.violation("spec", f"volume error does not halve when the radius doubles "
                                      f"(r={r}: {e1:.5f} -> {e2:.5f})",
                              {"part": "C-conv", "ratio": ratio, "ox": ox, "oy": oy,
                               "errs": errs})
                break


# =============================================================================================
# D. brightness
OFF_KINDS = ["none", "float", "npfloat", "int", "zero", "list", "tuple", "array", "feature",
             "intlist", "inttuple", "i64array", "i16array", "u8array", "f32array", "npint", "npuint8"]
# integer-typed containers: python ints (scalar, list, tuple), integer arrays, numpy integer scalars
INT_SCALAR_KINDS = ("int", "npint", "npuint8")
INT_EVENT_KINDS = ("intlist", "inttuple", "i64array", "i16array", "u8array")


def make_offset(kind, values):
    """container of the per-event offsets `values` (list of floats) as handed to dclab"""
    if kind == "none":
        return None
    if kind == "float":
        return float(values[0])
    if kind == "npfloat":
        return np.float64(values[0])
    if kind == "int":
        return int(values[0])
    if kind == "zero":
        return 0.0
    if kind == "list":
        return [float(v) for v in values]
    if kind == "tuple":
        return tuple(float(v) for v in values)
    if kind in ("array", "feature"):
        return np.array(values, dtype=np.float64)
    if kind == "intlist":
        return [int(v) for v in values]
    if kind == "inttuple":
        return tuple(int(v) for v in values)
    if kind in ("i64array", "i16array", "u8array"):
        return np.array([int(v) for v in values],
                        dtype={"i64array": np.int64, "i16array": np.int16, "u8array": np.uint8}[kind])
    if kind == "f32array":
        return np.array(values, dtype=np.float32)
    if kind == "npint":
        return np.int64(int(values[0]))
    if kind == "npuint8":
        return np.uint8(int(values[0]))
    raise ValueError(kind)


def effective_offsets(kind, values, n):
    if kind == "none":
        return [None] * n
    if kind in ("float", "npfloat"):
        return [float(values[0])] * n
    if kind in INT_SCALAR_KINDS:
        return [int(values[0])] * n
    if kind == "zero":
        return [0.0] * n
    if kind in INT_EVENT_KINDS:
        return [int(v) for v in values]
    return [float(v) for v in values]


DTYPE_PAIRS = [("uint8", "uint8"), ("uint8", "uint8"), ("uint16", "uint16"), ("uint16", "uint16"),
               ("uint16", "uint16"), ("int16", "int16"), ("int32", "int32"), ("uint8", "uint16"),
               ("uint16", "uint8"), ("uint16", "float32"), ("uint16", "int32"), ("int16", "float64"),
               ("float32", "float32"), ("float64", "float64"), ("float32", "uint16"),
               ("uint8", "float64")]


def dtype_range(name):
    if name.startswith("float"):
        return (-70000, 70000)
    ii = np.iinfo(name)
    return (int(ii.min), int(ii.max))


def gen_values(rs, rng, name, shape, style, mm, other=None):
    """pixel values of dtype `name` (as int64/float64 before the cast) covering the full range"""
    lo, hi = dtype_range(name)
    span = hi - lo
    if style == "full":
        v = rs.randint(lo, hi + 1, shape, dtype=np.int64)
    elif style == "upper":                      # upper half of the range (>= 32768 for uint16)
        v = rs.randint(lo + span // 2 + 1, hi + 1, shape, dtype=np.int64)
    elif style == "lower":
        v = rs.randint(lo, lo + span // 2 + 1, shape, dtype=np.int64)
    elif style == "top":                        # a few levels below the maximum, maximum included
        v = rs.randint(max(lo, hi - 40), hi + 1, shape, dtype=np.int64)
    elif style == "bottom":
        v = rs.randint(lo, min(hi, lo + 40) + 1, shape, dtype=np.int64)
    elif style == "const":
        v = np.full(shape, rng.choice([lo, hi, lo + span // 2, lo + span // 2 + 1,
                                       rng.randint(lo, hi)]), dtype=np.int64)
    else:                                       # "near": other image +- a little, clipped
        v = np.clip(np.asarray(other, dtype=np.float64).astype(np.int64)
                    + rs.randint(-40, 41, shape) - 30 * mm, lo, hi)
    # force the extremes onto masked pixels now and then
    ys, xs = np.nonzero(mm)
    if len(ys) and rng.random() < 0.5:
        k = rng.randrange(len(ys))
        v[ys[k], xs[k]] = hi
        k = rng.randrange(len(ys))
        v[ys[k], xs[k]] = rng.choice([lo, lo + span // 2 + 1])
    return v


def offset_values(rng, kind, n, values):
    """per-event offsets for the integer-typed / float32 containers (within the container's range,
    negative values included where the type has them); other kinds keep `values`"""
    if kind in ("intlist", "inttuple", "i64array"):
        return [float(rng.choice([rng.randint(-9, 9), rng.randint(-9, 9), rng.randint(1, 60), -1,
                                  65535, -40000, 300])) for _ in range(n)]
    if kind == "i16array":
        return [float(rng.choice([rng.randint(-9, 9), rng.randint(-300, 300), -32768, 32767]))
                for _ in range(n)]
    if kind == "u8array":
        return [float(rng.choice([rng.randint(0, 12), rng.randint(0, 255), 255, 1]))
                for _ in range(n)]
    if kind == "f32array":
        return [float(np.float32(rng.choice([rng.randint(-40, 40) / 4.0, rng.randint(-9, 9),
                                             1024.5, -0.125]))) for _ in range(n)]
    if kind == "npint":
        return [float(rng.choice([rng.randint(-9, 9), rng.randint(1, 60), 65535, -40000]))] * n
    if kind == "npuint8":
        return [float(rng.choice([rng.randint(0, 12), rng.randint(0, 255), 255]))] * n
    return values


def gen_bright_case(rng, thorough=False):
    n = rng.randint(1, 4)
    h, w = rng.randint(6, 14), rng.randint(6, 18)
    rs = np.random.RandomState(rng.randrange(2 ** 31))
    idt, bdt = rng.choice(DTYPE_PAIRS)
    istyle = rng.choice(["full", "upper", "lower", "top", "bottom", "const"])
    bstyle = rng.choice(["full", "upper", "lower", "top", "bottom", "const", "near", "near"])
    frac_img = idt.startswith("float") and rng.random() < 0.3
    frac_bg = bdt.startswith("float") and rng.random() < 0.6
    masks, imgs, bgs = [], [], []
    for _ in range(n):
        for _try in range(20):
            kind, m = gen_mask(rng)
            if m.sum() >= 1 and U.is_connected8(m):
                break
        mm = np.zeros((h, w), dtype=bool)
        sub = m[:h, :w]
        mm[:sub.shape[0], :sub.shape[1]] = sub
        if mm.sum() == 0:
            mm[h // 2, w // 2] = True
        img = gen_values(rs, rng, idt, (h, w), istyle, mm).astype(np.float64)
        if frac_img:
            img = img + rs.randint(-3, 4, (h, w)) / 4.0
        img = img.astype(idt)
        bg = gen_values(rs, rng, bdt, (h, w), bstyle, mm, other=img).astype(np.float64)
        if frac_bg:
            bg = bg + rs.randint(-7, 8, (h, w)) / 8.0
        masks.append(mm)
        imgs.append(img)
        bgs.append(bg.astype(bdt))
    kind = rng.choice(OFF_KINDS)
    values = [rng.choice([round(rng.uniform(-20, 20), 2), float(rng.randint(-5, 5)),
                          rng.uniform(-3, 3), 1e6, -65535.0, 32768.0, 1e-3, 123456.789,
                          -2.0 ** 31, 1e-12]) for _ in range(n)]
    if kind in ("int",):
        values = [float(rng.choice([rng.randint(-9, 9), 65535, -40000, 2 ** 31]))] * n
    if kind in ("float", "npfloat"):
        values = [values[0]] * n
    values = offset_values(rng, kind, n, values)
    stack = rng.choice(["array3d", "list"])
    return {"masks": masks, "imgs": imgs, "bgs": bgs, "off_kind": kind, "off_values": values,
            "stack": stack, "frac_img": frac_img}


def saturated_case(rng, kind, dt):
    """1-4 events whose background lies within 10 levels of the maximum of its integer dtype and
    whose image is darker under the mask; offsets small (|v| <= 12), in the container `kind`"""
    n = rng.randint(1, 4)
    h, w = rng.randint(4, 8), rng.randint(4, 9)
    rs = np.random.RandomState(rng.randrange(2 ** 31))
    hi = int(np.iinfo(dt).max)
    masks, imgs, bgs = [], [], []
    for _ in range(n):
        mm = np.zeros((h, w), dtype=bool)
        y0, x0 = rng.randint(0, h - 2), rng.randint(0, w - 2)
        mm[y0:rng.randint(y0 + 1, h), x0:rng.randint(x0 + 1, w)] = True
        bg = rs.randint(hi - 9, hi + 1, (h, w)).astype(np.int64)
        img = bg - rs.randint(0, 60, (h, w)) * mm
        masks.append(mm)
        imgs.append(img.astype(dt))
        bgs.append(bg.astype(dt))
    small = [float(rng.choice([rng.randint(1, 12), rng.randint(-12, 12), 7])) for _ in range(n)]
    if kind in ("u8array", "npuint8"):
        small = [abs(v) for v in small]
    if kind == "f32array":
        small = [v + 0.25 for v in small]
    if kind in ("float", "npfloat") + INT_SCALAR_KINDS:
        small = [small[0]] * n
    return {"masks": masks, "imgs": imgs, "bgs": bgs, "off_kind": kind, "off_values": small,
            "stack": rng.choice(["array3d", "list"]), "frac_img": False}


def bright_payload(case):
    return {"part": "D", "masks": [m.astype(int).tolist() for m in case["masks"]],
            "imgs": [a.tolist() for a in case["imgs"]], "bgs": [a.tolist() for a in case["bgs"]],
            "off_kind": case["off_kind"], "off_values": list(case["off_values"]),
            "stack": case["stack"], "img_dtype": str(case["imgs"][0].dtype),
            "bg_dtype": str(case["bgs"][0].dtype)}


def bright_unpayload(p):
    return {"masks": [np.array(m, dtype=bool) for m in p["masks"]],
            "imgs": [np.array(a, dtype=p.get("img_dtype", "uint8")) for a in p["imgs"]],
            "bgs": [np.array(a, dtype=p.get("bg_dtype", "uint8")) for a in p["bgs"]],
            "off_kind": p["off_kind"], "off_values": p["off_values"], "stack": p.get("stack", "list")}


def bright_eval(M, case):
    """run every brightness entry point on the case; returns (failures, results-with-offset)

    Oracle (evaluated on the implementation): results with an offset == results without - offset,
    for every container kind; standard deviation unchanged; single-image and batch calls agree;
    the ancillary features of an in-memory dataset agree with the function calls."""
    dclab = common.import_dclab()
    fb, fbc, fbp = M["bright"], M["bright_bc"], M["bright_perc"]
    masks, imgs, bgs = case["masks"], case["imgs"], case["bgs"]
    n = len(masks)
    kind, values = case["off_kind"], case["off_values"]
    if case["stack"] == "array3d":
        am, ai, ab = np.array(masks), np.array(imgs), np.array(bgs)
    else:
        am, ai, ab = list(masks), list(imgs), list(bgs)
    eff = effective_offsets(kind, values, n)
    fails = []
    out = {}

    def call(name, fn):
        r = guarded(fn)
        if r[0] != "ok":
            fails.append(f"{name} raised {r[1]} for bg_off given as {kind} "
                         f"({n} event{'s' if n > 1 else ''})")
            return None
        return r[1]

    base_bc = call("get_bright_bc(bg_off=None)", lambda: fbc.get_bright_bc(am, ai, ab))
    base_pc = call("get_bright_perc(bg_off=None)", lambda: fbp.get_bright_perc(am, ai, ab))
    base_b = call("get_bright", lambda: fb.get_bright(am, ai))
    if fails:
        return fails, out
    out["bright"] = [np.asarray(base_b[0], dtype=float), np.asarray(base_b[1], dtype=float)]
    if kind == "feature":
        def via_ds():
            ds = dclab.new_dataset({"image": np.array(imgs), "image_bg": np.array(bgs),
                                    "mask": np.array(masks),
                                    "bg_off": np.array(values, dtype=np.float64),
                                    "deform": np.linspace(0.01, 0.02, n)})
            return ([np.array(ds["bright_bc_avg"][:]), np.array(ds["bright_bc_sd"][:])],
                    [np.array(ds["bright_perc_10"][:]), np.array(ds["bright_perc_90"][:])],
                    [np.array(ds["bright_avg"][:]), np.array(ds["bright_sd"][:])])
        r = guarded(via_ds)
        if r[0] != "ok":
            fails.append(f"ds['bright_perc_10'] / ds['bright_bc_avg'] raised {r[1]} on an in-memory "
                         f"dataset with a bg_off feature ({n} events)")
            return fails, out
        got_bc, got_pc, got_b = r[1]
        for a, b in zip(got_b, base_b):
            if not np.allclose(a, b, rtol=1e-12, atol=1e-12):
                fails.append("ds['bright_avg'/'bright_sd'] differ from get_bright")
    else:
        off = make_offset(kind, values)
        got_bc = call("get_bright_bc", lambda: fbc.get_bright_bc(am, ai, ab, bg_off=off))
        got_pc = call("get_bright_perc", lambda: fbp.get_bright_perc(am, ai, ab, bg_off=off))
        if fails:
            return fails, out
    e = np.array([0.0 if v is None else v for v in eff])
    checks = [("bright_bc_avg", got_bc[0], base_bc[0] - e), ("bright_bc_sd", got_bc[1], base_bc[1]),
              ("bright_perc_10", got_pc[0], base_pc[0] - e),
              ("bright_perc_90", got_pc[1], base_pc[1] - e)]
    for name, got, want in checks:
        got = np.asarray(got, dtype=float)
        if got.shape != np.asarray(want).shape or not np.allclose(got, want, rtol=1e-12, atol=1e-9):
            fails.append(f"{name} with bg_off as {kind} is not the value without offset shifted "
                         f"one-to-one (got {got.tolist()}, expected {np.asarray(want).tolist()})")
    out["bc"] = [np.asarray(x, dtype=float) for x in got_bc]
    out["pc"] = [np.asarray(x, dtype=float) for x in got_pc]
    # the definitions themselves (exact reference)
    for i in range(n):
        ref = exact_stats(masks[i], imgs[i], bgs[i])
        ref0 = exact_stats(masks[i], imgs[i], None, trunc=False)
        sc = bright_scale(imgs[i], bgs[i])
        tol0 = 1e-6 if imgs[i].dtype == np.float32 else 1e-9     # np.mean accumulates in float32
        got = [base_bc[0][i], base_bc[1][i], base_pc[0][i], base_pc[1][i]]
        for name, a, b in zip(["bright_bc_avg", "bright_bc_sd", "bright_perc_10", "bright_perc_90"],
                              got, ref):
            if not U.close_to(a, b, 1e-9, scale=sc):
                fails.append(f"{name} = {a!r} is not the mean/sd/percentile of image - background "
                             f"under the mask ({b!r}; image {imgs[i].dtype}, background "
                             f"{bgs[i].dtype})")
        sc0 = sc if imgs[i].dtype != np.float32 else sc * 1e6       # float32: relative to max|pixel|
        for name, a, b in zip(["bright_avg", "bright_sd"], [base_b[0][i], base_b[1][i]], ref0):
            if not U.close_to(a, b, tol0, scale=sc0):
                fails.append(f"{name} = {a!r} is not the mean/sd of the image under the mask "
                             f"({b!r}; image {imgs[i].dtype})")
    # single-image calls agree with the batch call
    for i in range(n):
        o_i = eff[i]
        variants = [o_i] if o_i is None else [o_i, np.array([o_i]), [o_i]]
        if kind in ("u8array", "npuint8"):
            variants += [np.uint8(o_i), np.array([o_i], dtype=np.uint8)]
        elif kind == "i16array":
            variants += [np.int16(o_i), np.array([o_i], dtype=np.int16)]
        elif kind == "f32array":
            variants += [np.float32(o_i), np.array([o_i], dtype=np.float32)]
        for o in variants:
            s_bc = guarded(fbc.get_bright_bc, masks[i], imgs[i], bgs[i], bg_off=o)
            s_pc = guarded(fbp.get_bright_perc, masks[i], imgs[i], bgs[i], bg_off=o)
            if s_bc[0] != "ok" or s_pc[0] != "ok":
                fails.append(f"single-image get_bright_bc/get_bright_perc raised for bg_off="
                             f"{type(o).__name__}")
                break
            sv = [float(np.ravel(s_bc[1][0])[0]), float(np.ravel(s_bc[1][1])[0]),
                  float(np.ravel(s_pc[1][0])[0]), float(np.ravel(s_pc[1][1])[0])]
            bv = [out["bc"][0][i], out["bc"][1][i], out["pc"][0][i], out["pc"][1][i]]
            if not np.allclose(sv, bv, rtol=1e-12, atol=1e-9):
                fails.append(f"single-image call (bg_off={type(o).__name__}) differs from the "
                             f"batch call: {sv} vs {bv}")
                break
    return fails, out


def px_value(x, trunc):
    """exact value of a pixel; `trunc`: the cast `np.array(image, dtype=int)` of the code
    (truncation towards zero, only relevant for non-integral float images: observation O12)"""
    if isinstance(x, (np.integer, int)):
        return Fraction(int(x))
    f = Fraction(float(x))
    return Fraction(math.trunc(f)) if trunc else f


def exact_stats(mask, img, bg, trunc=True):
    """the definition: mean, population sd and linearly interpolated 10th/90th percentile of
    img - bg under the mask, in exact arithmetic (bg=None: the image itself)"""
    mi = np.nonzero(mask.ravel())[0]
    ir = img.ravel()
    br = None if bg is None else bg.ravel()
    v = sorted(px_value(ir[k], trunc) - (0 if br is None else px_value(br[k], False)) for k in mi)
    n = len(v)
    mean = sum(v) / n
    var = sum((x - mean) ** 2 for x in v) / n

    def perc(q):
        pos = Fraction(q, 100) * (n - 1)
        lo = int(pos)
        hi = min(lo + 1, n - 1)
        return v[lo] + (v[hi] - v[lo]) * (pos - lo)
    return float(mean), math.sqrt(var), float(perc(10)), float(perc(90))


def bright_scale(*arrs):
    """absolute comparison floor: float64 sums of values of magnitude M carry about 1e-16*M"""
    return 1.0 + 1e-6 * max(float(np.abs(np.asarray(a, dtype=np.float64)).max()) for a in arrs)


def shrink_bright(M, case):
    def fails(evts):
        c = dict(case, masks=[case["masks"][i] for i in evts], imgs=[case["imgs"][i] for i in evts],
                 bgs=[case["bgs"][i] for i in evts],
                 off_values=[case["off_values"][i] for i in evts])
        try:
            return bool(bright_eval(M, c)[0])
        except Exception:
            return False
    idx = common.ddmin(list(range(len(case["masks"]))), fails)
    c = dict(case, masks=[case["masks"][i] for i in idx], imgs=[case["imgs"][i] for i in idx],
             bgs=[case["bgs"][i] for i in idx], off_values=[case["off_values"][i] for i in idx])
    # crop every event to a 2x2 window around one of its own mask pixels
    try:
        def crop(i, arr):
            ys, xs = np.nonzero(c["masks"][i])
            h, w = c["masks"][i].shape
            y0, x0 = min(int(ys[0]), h - 2), min(int(xs[0]), w - 2)
            return np.ascontiguousarray(arr[y0:y0 + 2, x0:x0 + 2])
        k = range(len(c["masks"]))
        c2 = dict(c, masks=[crop(i, c["masks"][i]) for i in k],
                  imgs=[crop(i, c["imgs"][i]) for i in k], bgs=[crop(i, c["bgs"][i]) for i in k])
        if bright_eval(M, c2)[0]:
            return c2
    except Exception:
        pass
    return c


def off_token(kind, values):
    """the `bg_off` argument as the batch model sees it: none / scalar / 1-D array"""
    if kind == "none":
        return "-"
    if kind in ("float", "npfloat"):
        return "s:" + U.rat(float(values[0]))
    if kind in INT_SCALAR_KINDS:
        return "s:" + U.rat(int(values[0]))
    if kind == "zero":
        return "s:0"
    return "a:" + ",".join(U.rat(float(v)) for v in values)


def batch_jobs(ctx, M, jobs, case, out, cno):
    """batch model (`brightBcBatch` / `brightPercBatch`): the whole call with its offset container,
    the `ret_data` variants (oracle: the combined call is the pair of the single calls, the sd call
    ignores the offset) and offset arrays of the wrong length"""
    fbc, fbp = M["bright_bc"], M["bright_perc"]
    masks, imgs, bgs = case["masks"], case["imgs"], case["bgs"]
    n = len(masks)
    kind, values = case["off_kind"], case["off_values"]
    am, ai, ab = (np.array(masks), np.array(imgs), np.array(bgs)) if case["stack"] == "array3d" \
        else (list(masks), list(imgs), list(bgs))
    off = None if kind == "none" else make_offset("array" if kind == "feature" else kind, values)
    rp = bright_payload(case)
    sc = max(bright_scale(im, bg) for im, bg in zip(imgs, bgs))
    evs = " | ".join(" ".join(f"{int(a)}:{U.rat(px_value(b, True))}:{U.rat(px_value(c, False))}"
                              for a, b, c in zip(mk.ravel(), im.ravel(), bg.ravel()))
                     for mk, im, bg in zip(masks, imgs, bgs))
    tok = off_token(kind, values)

    def parse(ans):
        """'A a1 .. S v1 .. P10 .. P90 ..' -> dict tag -> floats (S: sqrt of the variance)"""
        res, tag = {}, None
        for t in ans.split():
            if t in ("A", "S", "P10", "P90"):
                tag = t
                res[tag] = []
            else:
                v = U.unrat(t)
                res[tag].append(math.sqrt(v) if tag == "S" else float(v))
        return res

    def compare(what, impl, tags):
        """impl: list of arrays in the order of `tags` or an error class"""
        def cb(ans, impl=impl, tags=tags, what=what):
            if isinstance(impl, str) or ans.startswith("err"):
                if isinstance(impl, str) and ans.startswith("err"):
                    return None                  # both reject (the exception class is not compared)
                return (what + " vs batch model", repr(impl)[:80], ans[:80], rp)
            res = parse(ans)
            if sorted(res) != sorted(tags):
                return (what + " vs batch model (selected metrics)", str(tags), str(sorted(res)), rp)
            for t, got in zip(tags, impl):
                got = np.atleast_1d(np.asarray(got, dtype=float))
                if len(got) != len(res[t]) or not all(
                        U.close_to(a, b, 1e-9, scale=sc) for a, b in zip(got, res[t])):
                    return (f"{what} [{t}] vs batch model", repr(got.tolist()), repr(res[t]), rp)
        return cb
    jobs.add(f"brightb 1 1 {tok} | {evs}", compare("get_bright_bc(batch)", out["bc"], ["A", "S"]))
    jobs.add(f"percb {tok} | {evs}", compare("get_bright_perc(batch)", out["pc"], ["P10", "P90"]))
    if cno % 3 == 0:
        # ret_data variants on the implementation
        ctx.stat("D:ret_data-variants")
        both = out["bc"]
        for rd, sel in (("avg", [0]), ("sd", [1]), ("sd,avg", [0, 1])):
            r = guarded(fbc.get_bright_bc, am, ai, ab, bg_off=off, ret_data=rd)
            if r[0] != "ok":
                ctx.violation("spec", f"get_bright_bc(ret_data={rd!r}) raised {r[1]} although the "
                                      f"combined call works", rp)
                return
            got = [r[1]] if len(sel) == 1 else list(r[1])
            for g, k in zip(got, sel):
                g = np.atleast_1d(np.asarray(g, dtype=float))
                if g.shape != both[k].shape or not np.allclose(g, both[k], rtol=1e-12, atol=1e-9,
                                                               equal_nan=True):
                    ctx.violation("spec", f"get_bright_bc(ret_data={rd!r}) = {g.tolist()} differs from "
                                          f"the {'avg' if k == 0 else 'sd'} of the combined call "
                                          f"({both[k].tolist()})", rp)
                    return
        jobs.add(f"brightb 1 0 {tok} | {evs}", compare("get_bright_bc(ret_data='avg')",
                                                         [out["bc"][0]], ["A"]))
        jobs.add(f"brightb 0 1 {tok} | {evs}", compare("get_bright_bc(ret_data='sd')",
                                                         [out["bc"][1]], ["S"]))
        r = guarded(fbc.get_bright_bc, am, ai, ab, bg_off=off, ret_data="none")
        jobs.add(f"brightb 0 0 {tok} | {evs}",
                 compare("get_bright_bc(ret_data without avg/sd)",
                         r[1] if r[0] == "exc" else [np.atleast_1d(r[1])], []))
    if cno % 3 == 1:
        # offset arrays whose length is neither the number of events nor one
        ctx.stat("D:offset-length-mismatch")
        k = n + 1 if n < 3 or ctx.rng.random() < 0.5 else n - 1
        if k == 1:
            k = n + 1
        wrong = [float(ctx.rng.randint(-9, 9)) for _ in range(k)]
        wtok = "a:" + ",".join(U.rat(v) for v in wrong)
        r = guarded(fbc.get_bright_bc, am, ai, ab, bg_off=np.array(wrong))
        jobs.add(f"brightb 1 1 {wtok} | {evs}",
                 compare("get_bright_bc(bg_off of wrong length)",
                         r[1] if r[0] == "exc" else [np.asarray(x) for x in r[1]], ["A", "S"]))
        r = guarded(fbp.get_bright_perc, am, ai, ab, bg_off=np.array(wrong))
        jobs.add(f"percb {wtok} | {evs}",
                 compare("get_bright_perc(bg_off of wrong length)",
                         r[1] if r[0] == "exc" else [np.asarray(x) for x in r[1]], ["P10", "P90"]))
        r = guarded(fbc.get_bright_bc, am, ai, ab, bg_off=np.array(wrong), ret_data="sd")
        jobs.add(f"brightb 0 1 {wtok} | {evs}",
                 compare("get_bright_bc(ret_data='sd', bg_off of wrong length)",
                         r[1] if r[0] == "exc" else [np.atleast_1d(r[1])], ["S"]))


def part_d(ctx, M, jobs):
    for i in range(ctx.n(250, 2500)):
        case = gen_bright_case(ctx.rng, ctx.thorough)
        if i < len(OFF_KINDS) * 2:                 # every container kind, single and multi event
            case["off_kind"] = OFF_KINDS[i % len(OFF_KINDS)]
            if case["off_kind"] in ("float", "npfloat", "int"):
                case["off_values"] = [float(int(case["off_values"][0]))
                                      if case["off_kind"] == "int" else case["off_values"][0]
                                      ] * len(case["masks"])
            case["off_values"] = offset_values(ctx.rng, case["off_kind"], len(case["masks"]),
                                               case["off_values"])
        elif i < len(OFF_KINDS) * 4:
            # every container kind on a background within a few levels of the saturation of its
            # integer type (bright-field like: bright background, darker object), small offsets
            k_ = OFF_KINDS[i % len(OFF_KINDS)]
            case = saturated_case(ctx.rng, k_, "uint8" if i < len(OFF_KINDS) * 3 else
                                  ctx.rng.choice(["uint8", "uint16", "int16"]))
            ctx.stat("D:near-saturation-background")
        n = len(case["masks"])
        ctx.stat("D:off=" + case["off_kind"])
        ctx.stat(f"D:events={n}")
        ctx.stat(f"D:dtype={case['imgs'][0].dtype}/{case['bgs'][0].dtype}")
        mx = max(float(np.asarray(a, dtype=np.float64)[m_].max())
                 for a, m_ in zip(case["imgs"], case["masks"]))
        if mx >= 32768:
            ctx.stat("D:masked-pixel>=32768")
        if any((np.asarray(b, dtype=np.float64)[m_] > np.asarray(a, dtype=np.float64)[m_]).any()
               for a, b, m_ in zip(case["imgs"], case["bgs"], case["masks"])):
            ctx.stat("D:background>image")
        if case.get("frac_img"):
            ctx.stat("D:fractional-float-image")
            ctx.note("O12 (C18): get_bright_bc/get_bright_perc cast the image to int before the "
                     "background subtraction ('cast to integer before subtraction'), so float "
                     "images with fractional values are truncated towards zero; the model and the "
                     "reference apply the same cast (dclab images are integer typed).")
        r = guarded(bright_eval, M, case)
        ctx.case(("D", case["off_kind"], tuple(case["off_values"]), case["stack"],
                  tuple(m.tobytes() for m in case["masks"]),
                  tuple(a.dtype.str.encode() + a.tobytes() for a in case["imgs"])),
                 nontrivial=case["off_kind"] != "none",
                 sample={"part": "D", "off_kind": case["off_kind"], "events": n,
                         "shape": list(case["masks"][0].shape),
                         "dtypes": [str(case["imgs"][0].dtype), str(case["bgs"][0].dtype)]})
        if r[0] != "ok":
            ctx.violation("spec", f"brightness evaluation crashed: {r[1]}", bright_payload(case))
            continue
        fails, out = r[1]
        if fails:
            small = shrink_bright(M, case)
            fails = bright_eval(M, small)[0] or fails
            ctx.violation("spec", fails[0], dict(bright_payload(small), failures=fails))
            continue
        eff = effective_offsets(case["off_kind"], case["off_values"], n)
        for j in range(n):
            mk, im, bg = case["masks"][j], case["imgs"][j], case["bgs"][j]
            px = " ".join(f"{int(a)}:{U.rat(px_value(b, True))}:{U.rat(px_value(c, False))}"
                          for a, b, c in zip(mk.ravel(), im.ravel(), bg.ravel()))
            px0 = " ".join(f"{int(a)}:{U.rat(px_value(b, False))}:0"
                           for a, b in zip(mk.ravel(), im.ravel()))
            sc = bright_scale(im, bg)
            tol0 = 1e-6 if im.dtype == np.float32 else 1e-9
            sc0 = sc if im.dtype != np.float32 else sc * 1e6
            impl = [out["bc"][0][j], out["bc"][1][j], out["pc"][0][j], out["pc"][1][j]]
            impl0 = [out["bright"][0][j], out["bright"][1][j]]
            rp = dict(bright_payload(case), event=j)

            def cb(ans, impl=impl, rp=rp, sc=sc):
                avg, var, p10, p90 = [U.unrat(v) for v in ans.split()]
                model = [float(avg), math.sqrt(var), float(p10), float(p90)]
                for name, a, b in zip(["bright_bc_avg", "bright_bc_sd", "bright_perc_10",
                                       "bright_perc_90"], impl, model):
                    if not U.close_to(a, b, 1e-9, scale=sc):
                        return (f"{name} vs model", repr(a), repr(b), rp)

            def cb0(ans, impl0=impl0, rp=rp, sc=sc0, tol0=tol0):
                avg, var, _, _ = [U.unrat(v) for v in ans.split()]
                for name, a, b in zip(["bright_avg", "bright_sd"], impl0,
                                      [float(avg), math.sqrt(var)]):
                    if not U.close_to(a, b, tol0, scale=sc):
                        return (f"{name} vs model", repr(a), repr(b), rp)
            jobs.add(f"bright {'-' if eff[j] is None else U.rat(eff[j])} " + px, cb)
            jobs.add("bright - " + px0, cb0)
        batch_jobs(ctx, M, jobs, case, out, i)
    # np.percentile's linear rule at other q (model of `percentile`)
    for _ in range(ctx.n(40, 400)):
        k = ctx.rng.randint(1, 30)
        v = [ctx.rng.randint(-255, 255) for _ in range(k)]
        q = ctx.rng.choice([0, 10, 25, 50, 90, 100, round(ctx.rng.uniform(0, 100), 1)])
        want = float(np.percentile(np.array(v), q))

        def cb(ans, want=want, v=v, q=q):
            if not U.close_to(want, U.unrat(ans), 1e-9, scale=1.0):
                return ("np.percentile vs model", repr(want), ans, {"part": "D-perc", "v": v, "q": q})
        ctx.stat("D:percentile")
        jobs.add(f"perc {U.rat(q)} " + " ".join(str(x) for x in v), cb)


# =============================================================================================
# E. crosstalk
def part_e(ctx, M, jobs):
    ct = M["ct"]
    names = ["ct21", "ct31", "ct12", "ct32", "ct13", "ct23"]
    for i in range(ctx.n(400, 4000)):
        mode = ctx.rng.choice(["full", "full", "full", "two", "two", "sparse", "negative", "singular",
                               "zero", "receiver", "receiver", "triangular", "one-way"])
        pair = None                      # (a, b, other): the two channels that exchange spill
        if mode == "full":
            c = {k: ctx.rng.choice([ctx.rng.uniform(0, 0.9), round(ctx.rng.uniform(0, 1), 2)])
                 for k in names}
        elif mode in ("two", "receiver"):
            # two channels a, b exchange spill; "receiver": the third channel additionally RECEIVES
            # spill from a and/or b but emits none (its row of the spill matrix is the unit row)
            c = dict.fromkeys(names, 0.0)
            pair = ctx.rng.choice([(1, 2, 3), (1, 3, 2), (2, 3, 1)])
            a, b, o = pair
            c[f"ct{a}{b}"], c[f"ct{b}{a}"] = ctx.rng.uniform(0, 0.9), ctx.rng.uniform(0, 0.9)
            if ctx.rng.random() < 0.2:
                c[ctx.rng.choice([f"ct{a}{b}", f"ct{b}{a}"])] = 0.0
            if mode == "receiver":
                c[f"ct{a}{o}"] = ctx.rng.choice([0.0, ctx.rng.uniform(0.05, 0.9), 0.5])
                c[f"ct{b}{o}"] = ctx.rng.uniform(0.05, 0.9)
        elif mode == "triangular":
            # spill in one direction only (upper or lower triangular matrix): det = 1
            up = ctx.rng.random() < 0.5
            c = {k: ((ctx.rng.uniform(0, 1.5) if ctx.rng.random() < 0.8 else 0.0)
                     if (int(k[2]) < int(k[3])) == up else 0.0) for k in names}
        elif mode == "one-way":
            c = dict.fromkeys(names, 0.0)
            c[ctx.rng.choice(names)] = ctx.rng.uniform(0.05, 1.5)
        elif mode == "sparse":
            c = {k: (ctx.rng.uniform(0, 1.5) if ctx.rng.random() < 0.4 else 0) for k in names}
        elif mode == "negative":
            c = {k: ctx.rng.uniform(0, 0.5) for k in names}
            c[ctx.rng.choice(names)] = -ctx.rng.uniform(0.01, 0.5)
        elif mode == "singular":
            c = dict.fromkeys(names, 0)
            a, b = ctx.rng.choice([("ct21", "ct12"), ("ct31", "ct13"), ("ct32", "ct23")])
            c[a], c[b] = 1, 1
        else:
            c = dict.fromkeys(names, 0)
        C = [[Fraction(1), Fraction(c["ct12"]), Fraction(c["ct13"])],
             [Fraction(c["ct21"]), Fraction(1), Fraction(c["ct23"])],
             [Fraction(c["ct31"]), Fraction(c["ct32"]), Fraction(1)]]
        det = (C[0][0] * (C[1][1] * C[2][2] - C[1][2] * C[2][1])
               - C[0][1] * (C[1][0] * C[2][2] - C[1][2] * C[2][0])
               + C[0][2] * (C[1][0] * C[2][1] - C[1][1] * C[2][0]))
        if mode not in ("negative", "singular") and abs(det) < Fraction(1, 20):
            ctx.stat("E:ill-conditioned-skipped")
            continue
        shape = ctx.rng.choice(["scalar", "array"])
        k = 1 if shape == "scalar" else ctx.rng.randint(2, 5)
        x = [[ctx.rng.choice([ctx.rng.uniform(0, 1e4), float(ctx.rng.randint(0, 5000))])
              for _ in range(k)] for _ in range(3)]
        # measured signals y_j = sum_i x_i c_ij, exactly, then rounded to float64
        y = [[float(sum(Fraction(x[i][e]) * C[i][j] for i in range(3))) for e in range(k)]
             for j in range(3)]
        fl = [np.array(v) if shape == "array" else v[0] for v in y]
        outs = [guarded(ct.correct_crosstalk, fl[0], fl[1], fl[2], ch, **c) for ch in (1, 2, 3)]
        ctx.stat("E:" + mode)
        ctx.case(("E", tuple(sorted(c.items())), tuple(map(tuple, x))),
                 nontrivial=mode in ("full", "two", "sparse", "receiver", "triangular", "one-way"),
                 sample={"part": "E", "mode": mode, "ct": c, "x": [v[0] for v in x]})
        rp = {"part": "E", "ct": c, "x": x, "y": y}
        kinds = {o[1] if o[0] == "exc" else "ok" for o in outs}
        if mode == "negative":
            if kinds != {"err:value"}:
                ctx.violation("spec", f"negative crosstalk coefficient not rejected with "
                                      f"ValueError ({kinds})", rp)
        elif mode == "singular":
            if kinds != {"err:singular"}:
                ctx.note(f"C18/E: singular spill matrix gave {sorted(kinds)} instead of LinAlgError")
        elif kinds != {"ok"}:
            ctx.violation("spec", f"correct_crosstalk raised {kinds} for a non-negative invertible "
                                  f"spill matrix", rp)
            continue
        else:
            scale = max(max(abs(v) for v in row) for row in x) + 1.0
            for ch in range(3):
                got = np.atleast_1d(np.asarray(outs[ch][1], dtype=float))
                if got.shape != (k,) or not all(
                        U.close_to(got[e], x[ch][e], 1e-9, scale=scale) for e in range(k)):
                    ctx.violation("spec", f"compensation does not invert the spill-over "
                                          f"(channel {ch + 1}: {got.tolist()} vs {x[ch]})", rp)
                    break
        for e in range(k):
            want = [o[1] if o[0] == "exc" else float(np.atleast_1d(o[1])[e]) for o in outs]

            def cb(ans, want=want, rp=rp, x=x, e=e):
                if ans.startswith("err"):
                    return None if all(w == ans for w in want) else (
                        "correct_crosstalk vs model", str(want), ans, rp)
                if any(isinstance(w, str) for w in want):
                    return ("correct_crosstalk vs model", str(want), ans[:60], rp)
                mv = [float(U.unrat(v)) for v in ans.split()]
                sc = max(abs(v) for v in mv) + 1.0
                for a, b in zip(want, mv):
                    if not U.close_to(a, b, 1e-9, scale=sc):
                        return ("correct_crosstalk vs model", repr(want), repr(mv), rp)
            jobs.add("comp " + " ".join(U.rat(c[n_]) for n_ in names) + " "
                     + " ".join(U.rat(y[j][e]) for j in range(3)), cb)
        # per-channel model (`correctChannel`): fl_channel = 1, 2, 3 on the first event
        scale_e = max(max(abs(v) for v in row) for row in x) + 1.0
        for ch in (1, 2, 3):
            o = outs[ch - 1]
            want1 = o[1] if o[0] == "exc" else float(np.atleast_1d(o[1])[0])

            def cbc(ans, want1=want1, rp=rp, ch=ch, scale_e=scale_e):
                if ans.startswith("err") or isinstance(want1, str):
                    return None if ans == want1 else (
                        f"correct_crosstalk(fl_channel={ch}) vs model", str(want1), ans, rp)
                mv = float(U.unrat(ans))
                if not U.close_to(want1, mv, 1e-9, scale=abs(mv) + scale_e):
                    return (f"correct_crosstalk(fl_channel={ch}) vs model", repr(want1), repr(mv), rp)
            jobs.add(f"compch {ch} " + " ".join(U.rat(c[n_]) for n_ in names) + " "
                     + " ".join(U.rat(y[j][0]) for j in range(3)), cbc)
        if i % 40 == 0:
            # channel numbers other than 1, 2, 3 are rejected before anything is computed
            for ch in (0, 4):
                r = guarded(ct.correct_crosstalk, fl[0], fl[1], fl[2], ch, **c)
                w = r[1] if r[0] == "exc" else "ok"

                def cbx(ans, w=w, rp=rp, ch=ch):
                    if ans.startswith("err") != w.startswith("err"):   # class not compared
                        return (f"correct_crosstalk(fl_channel={ch}) vs model", w, ans, rp)
                ctx.stat("E:invalid-channel")
                jobs.add(f"compch {ch} " + " ".join(U.rat(c[n_]) for n_ in names) + " "
                         + " ".join(U.rat(y[j][0]) for j in range(3)), cbx)
        if pair is not None and kinds == {"ok"}:
            # closed 2x2 form (`twoChannel`) for the two channels that exchange spill
            a, b, _o = pair
            wa = float(np.atleast_1d(outs[a - 1][1])[0])
            wb = float(np.atleast_1d(outs[b - 1][1])[0])

            def cb2(ans, wa=wa, wb=wb, rp=rp, pair=pair):
                if ans.startswith("err"):
                    return ("two-channel closed form vs correct_crosstalk", repr((wa, wb)), ans, rp)
                ma, mb = [float(U.unrat(v)) for v in ans.split()]
                sc2 = max(abs(ma), abs(mb)) + 1.0
                if not (U.close_to(wa, ma, 1e-9, scale=sc2) and U.close_to(wb, mb, 1e-9, scale=sc2)):
                    return (f"two-channel closed form (channels {pair[0]},{pair[1]}) vs "
                            f"correct_crosstalk", repr((wa, wb)), repr((ma, mb)), rp)
            ctx.stat(f"E:pair={a}{b}")
            jobs.add("two " + U.rat(c[f"ct{a}{b}"]) + " " + U.rat(c[f"ct{b}{a}"]) + " "
                     + U.rat(y[a - 1][0]) + " " + U.rat(y[b - 1][0]), cb2)
        # the model's spill is the matrix product used above
        flat = [C[0][0], C[0][1], C[0][2], C[1][0], C[1][1], C[1][2], C[2][0], C[2][1], C[2][2]]
        yy = [sum(Fraction(x[i][0]) * C[i][j] for i in range(3)) for j in range(3)]

        def cbs(ans, yy=yy, rp=rp):
            if [U.unrat(v) for v in ans.split()] != yy:
                return ("spill (harness) vs model", str(yy), ans[:60], rp)
        jobs.add("spill " + " ".join(U.rat(v) for v in flat) + " "
                 + " ".join(U.rat(x[i][0]) for i in range(3)), cbs)


# ---- feature subsets: which fluorescence channels were measured
CT_SUBSETS = [(1,), (2,), (3,), (1, 2), (1, 3), (2, 3), (1, 2, 3)]


def subset_eval(M, chans, ct, x, route):
    """crosstalk correction when only the channels `chans` were measured.

    `x[i]` (i in chans) are the true signals of k events, `ct` the spill coefficients between the
    measured channels (keys 'ctij', i != j in chans).  The measured signals are y_j = sum_i x_i c_ij
    (exact, rounded to float64).  Routes: "direct" - correct_crosstalk with the scalar 0 for every
    channel that was not measured (what the ancillary features pass) and arrays for the others;
    "dataset" - an in-memory dataset holding exactly the features fl{i}_max (i in chans) with the
    matching 'crosstalk flij' keys in its [calculation] section, read through ds['fl{i}_max_ctc'].
    Oracle (property text): the correction inverts the spill-over, i.e. returns x_i for every
    measured channel, one value per event.  Returns (failures, {channel: corrected values})."""
    chans = tuple(chans)
    k = len(x[chans[0]])
    C = {(i, j): (Fraction(1) if i == j else Fraction(ct.get(f"ct{i}{j}", 0)))
         for i in chans for j in chans}
    y = {j: np.array([float(sum(Fraction(x[i][e]) * C[(i, j)] for i in chans)) for e in range(k)])
         for j in chans}
    scale = max(max(abs(v) for v in x[i]) for i in chans) + 1.0
    fails, got = [], {}
    if route == "direct":
        fl = [y[i] if i in chans else 0 for i in (1, 2, 3)]
        for ch in chans:
            r = guarded(M["ct"].correct_crosstalk, fl[0], fl[1], fl[2], ch, **ct)
            if r[0] != "ok":
                fails.append(f"correct_crosstalk(fl_channel={ch}) raised {r[1]} when the channels "
                             f"{[i for i in (1, 2, 3) if i not in chans]} are not measured (scalar 0) "
                             f"and the others are arrays of {k} events")
                continue
            got[ch] = np.asarray(r[1], dtype=float)
    else:
        dclab = common.import_dclab()

        def build():
            data = {"deform": np.linspace(0.01, 0.02, k), "area_um": np.linspace(20, 30, k)}
            for i in chans:
                data[f"fl{i}_max"] = y[i]
            ds = dclab.new_dataset(data)
            for key, v in ct.items():
                ds.config["calculation"][f"crosstalk fl{key[2:]}"] = v
            return ds
        r = guarded(build)
        if r[0] != "ok":
            return [f"in-memory dataset with features fl{list(chans)}_max could not be built: "
                    f"{r[1]}"], got
        ds = r[1]
        for ch in chans:
            feat = f"fl{ch}_max_ctc"
            if len(chans) == 1:
                # one channel: nothing to correct, no recipe is registered for it
                a = guarded(lambda: feat in ds)
                if a[0] == "ok" and not a[1]:
                    continue
            r = guarded(lambda: np.array(ds[feat][:], dtype=float))
            if r[0] != "ok":
                fails.append(f"ds[{feat!r}] raised {r[1]} on a dataset that has "
                             f"{', '.join(f'fl{i}_max' for i in chans)} and the crosstalk keys "
                             f"{sorted(ct)}")
                continue
            got[ch] = r[1]
    for ch, g in got.items():
        if g.shape != (k,):
            fails.append(f"crosstalk-corrected channel {ch} has shape {g.shape} for {k} events "
                         f"(measured channels {list(chans)}, route {route})")
        elif not all(U.close_to(g[e], x[ch][e], 1e-9, scale=scale) for e in range(k)):
            fails.append(f"compensation does not invert the spill-over (measured channels "
                         f"{list(chans)}, route {route}, channel {ch}: {g.tolist()} vs {x[ch]})")
    return fails, got


def part_e_subsets(ctx, M, jobs):
    """every non-empty subset of {fl1_max, fl2_max, fl3_max} with the matching crosstalk keys, by
    direct calls (absent channel = scalar 0) and through the ancillary features of datasets"""
    for i in range(ctx.n(70, 700)):
        chans = CT_SUBSETS[i % len(CT_SUBSETS)]
        route = "dataset" if (i // len(CT_SUBSETS)) % 2 == 0 else "direct"
        for _try in range(20):
            ct = {f"ct{a}{b}": ctx.rng.choice([round(ctx.rng.uniform(0, 0.9), 2),
                                                 ctx.rng.uniform(0, 0.9), 0.0, 0])
                  for a in chans for b in chans if a != b}
            Cm = np.eye(3)
            for key, v in ct.items():
                Cm[int(key[2]) - 1, int(key[3]) - 1] = v
            if abs(np.linalg.det(Cm)) >= 0.05:
                break
        else:
            continue
        k = ctx.rng.randint(1, 6)
        x = {c: [ctx.rng.choice([ctx.rng.uniform(0, 1e4), float(ctx.rng.randint(0, 5000))])
                 for _ in range(k)] for c in chans}
        rp = {"part": "E-subset", "channels": list(chans), "ct": ct, "route": route,
              "x": {str(c): v for c, v in x.items()}}
        ctx.stat("E:subset=" + "".join(map(str, chans)) + "/" + route)
        ctx.case(("E-subset", chans, route, tuple(sorted(ct.items())),
                  tuple((c, tuple(v)) for c, v in sorted(x.items()))),
                 nontrivial=len(chans) >= 2,
                 sample={"part": "E-subset", "channels": list(chans), "route": route, "events": k})
        r = guarded(subset_eval, M, chans, ct, x, route)
        if r[0] != "ok":
            ctx.violation("spec", f"crosstalk feature-subset evaluation crashed: {r[1]}", rp)
            continue
        fails, got = r[1]
        if fails:
            ctx.violation("spec", fails[0], dict(rp, failures=fails))
            continue
        if len(chans) == 2 and all(c in got for c in chans):
            # the two measured channels vs the closed 2x2 form of the model (`twoChannel`)
            a, b = chans
            Cf = {(p_, q_): Fraction(ct[f"ct{p_}{q_}"]) for p_, q_ in ((a, b), (b, a))}
            ya = Fraction(x[a][0]) + Fraction(x[b][0]) * Cf[(b, a)]
            yb = Fraction(x[b][0]) + Fraction(x[a][0]) * Cf[(a, b)]
            wa, wb = float(got[a][0]), float(got[b][0])

            def cb2(ans, wa=wa, wb=wb, rp=rp, chans=chans):
                if ans.startswith("err"):
                    return ("two-channel closed form vs feature subset", repr((wa, wb)), ans, rp)
                ma, mb = [float(U.unrat(v)) for v in ans.split()]
                sc2 = max(abs(ma), abs(mb)) + 1.0
                if not (U.close_to(wa, ma, 1e-9, scale=sc2) and U.close_to(wb, mb, 1e-9, scale=sc2)):
                    return (f"two-channel closed form vs fl{chans[0]}/fl{chans[1]}_max_ctc",
                            repr((wa, wb)), repr((ma, mb)), rp)
            jobs.add("two " + U.rat(ct[f"ct{a}{b}"]) + " " + U.rat(ct[f"ct{b}{a}"]) + " "
                     + U.rat(float(ya)) + " " + U.rat(float(yb)), cb2)


# =============================================================================================
# F. contour access histories (LazyContourList / ds["contour"])
def distinct_masks(rng, n, shape):
    """n pairwise different connected hole-free masks (>= 2 pixels) that do not touch the border"""
    out, seen = [], set()
    h, w = shape
    tries = 0
    while len(out) < n and tries < 50 * n + 200:
        tries += 1
        k = rng.random()
        if k < 0.6:
            m = U.grow_blob(rng, h, w, rng.randint(2, h * w // 2))
        elif k < 0.8:
            m = U.thin_path(rng, h, w, rng.randint(2, h + w))
        else:
            m = np.zeros(shape, dtype=bool)
            r0, c0 = rng.randrange(1, h - 2), rng.randrange(1, w - 2)
            m[r0:rng.randint(r0 + 1, h - 1), c0:rng.randint(c0 + 1, w - 1)] = True
        if m.sum() < 2 or U.touches_border(m) or not U.is_connected8(m):
            continue
        key = m.tobytes()
        if key not in seen:
            seen.add(key)
            out.append(np.ascontiguousarray(m))
    return out


FAIL_KINDS = ["empty", "single", "single-border", "isolated", "full"]


def degenerate_mask(rng, shape):
    """a mask outside the property's domain (no pixel, isolated single pixels, the whole image):
    `get_contour` has no contour to return for it and raises"""
    h, w = shape
    kind = rng.choice(FAIL_KINDS)
    m = np.zeros(shape, dtype=bool)
    if kind == "single":
        m[rng.randrange(1, h - 1), rng.randrange(1, w - 1)] = True
    elif kind == "single-border":
        r, c = rng.choice([(0, rng.randrange(w)), (h - 1, rng.randrange(w)),
                           (rng.randrange(h), 0), (rng.randrange(h), w - 1)])
        m[r, c] = True
    elif kind == "isolated":
        for _ in range(rng.randint(2, 3)):
            r, c = rng.randrange(h), rng.randrange(w)
            if not m[max(0, r - 2):r + 3, max(0, c - 2):c + 3].any():
                m[r, c] = True
        if not m.any():
            m[h // 2, w // 2] = True
    elif kind == "full":
        m[:] = True
    return kind, np.ascontiguousarray(m)


def fresh_contours(M, masks):
    """per event ("ok", get_contour(mask)) or ("exc", error class) computed directly"""
    out = []
    for m in masks:
        r = guarded(M["contour"].get_contour, m)
        out.append(("ok", np.array(r[1])) if r[0] == "ok" else r)
    return out


def cached_indices(obj):
    """event indices currently cached by a LazyContourList (attribute `indices`); None when the
    object does not expose them (the generator and the comparisons then do without)"""
    try:
        return [int(i) for i in obj.indices]
    except Exception:  # noqa
        return None


def shrink_deques(lcl, maxev):
    """give the contour list of ds["contour"] (fixed cache of 1000) a small cache; False when the
    object is not built from the two deques `contours` / `indices` any more"""
    from collections import deque
    if not (isinstance(getattr(lcl, "contours", None), deque)
            and isinstance(getattr(lcl, "indices", None), deque)):
        return False
    lcl.contours = deque(maxlen=maxev or None)
    lcl.indices = deque(maxlen=maxev or None)
    return True


def gen_access_ops(rng, nm, nops, cached, failing=()):
    """op alphabet of the access histories; `cached()` returns the currently cached indices,
    `failing` = events whose mask has no contour (an access to them raises)"""
    ops = []
    last = 0
    failing = list(failing)
    alphabet = ["int", "int", "repeat", "cached", "cached", "oldest", "npint", "neg",
                "slice", "list", "scan"]
    if failing:
        alphabet += ["failing", "failing", "after-failure", "after-failure"]
    after_failure = False
    newest = None
    for _ in range(nops):
        k = rng.choice(alphabet)
        if k == "int":
            op = ("i", rng.randrange(nm))
        elif k == "repeat":
            op = ("i", last)
        elif k == "cached":                  # still cached, any position (not only the newest)
            c = cached()
            op = ("i", int(c[rng.randrange(len(c))]) if c else rng.randrange(nm))
        elif k == "oldest":
            c = cached()
            op = ("i", int(c[0]) if c else 0)
        elif k == "npint":
            op = ("n", rng.randrange(nm))
        elif k == "neg":
            op = ("i", -rng.randint(1, nm))
        elif k == "slice":
            a = rng.randrange(nm)
            op = ("s", a, min(nm, a + rng.randint(0, 4)), rng.choice([1, 1, 2]))
        elif k == "list":
            op = ("l", [rng.randrange(nm) for _ in range(rng.randint(1, 4))])
        elif k == "failing":                 # the fault point: get_contour raises inside __getitem__
            op = ("i", rng.choice(failing))
        elif k == "after-failure":
            # re-access of what was requested after a failure (or an event not requested yet)
            if after_failure and newest is not None and rng.random() < 0.7:
                op = ("i", newest)
            else:
                op = ("i", rng.choice([j for j in range(nm) if j not in failing] or [0]))
        else:
            a = rng.randrange(nm)
            op = ("s", a, min(nm, a + rng.randint(3, 8)), 1)
        if op[0] in ("i", "n"):
            last = op[1] % nm
            if last in failing:
                after_failure = True
            else:
                newest = last
        ops.append(op)
        yield op


def op_events(op, nm):
    """the event indices an access asks for, in the order in which they are computed"""
    if op[0] == "i":
        return [op[1] % nm]
    if op[0] == "n":
        return [op[1]]
    if op[0] == "s":
        return list(range(nm))[op[1]:op[2]:op[3]]
    return list(op[1])


def apply_access(obj, op, nm):
    """perform one access; returns list of (event index, returned contour)"""
    if op[0] == "i":
        return [(op[1] % nm, obj[op[1]])]
    if op[0] == "n":
        return [(op[1], obj[np.int64(op[1])])]
    if op[0] == "s":
        return list(zip(op_events(op, nm), obj[op[1]:op[2]:op[3]]))
    idx = list(op[1])
    return list(zip(idx, obj[np.array(idx, dtype=int)]))


def flat_accesses(ops, nm, failing):
    """the integer accesses a history performs, as (key, event): an access that covers several
    events stops at the first event without contour (the exception propagates). A negative
    integer index is looked up and registered as given (`indices.index(-2)`), i.e. under another
    key than its non-negative alias: key = index + 2*nm for negative indices."""
    out = []
    for op in ops:
        if op[0] == "i" and op[1] < 0:
            out.append((op[1] + 2 * nm, op[1] % nm))
            continue
        for e in op_events(op, nm):
            out.append((e, e))
            if e in failing:
                break
    return out


class CountingMasks:
    """an indexable mask container ("any structure that supports indexing") that counts how often
    an event mask is read: LazyContourList reads a mask exactly when it computes a contour"""

    def __init__(self, masks):
        self._m = list(masks)
        self.reads = 0

    def __len__(self):
        return len(self._m)

    def __getitem__(self, i):
        self.reads += 1
        return self._m[i]


def history_fails(M, masks, fresh, make_obj, ops, degenerate=(), notes=None, trace=None):
    """run an access history on a fresh contour list; first failure (str) or None.
    `fresh[e]` = ("ok", get_contour(mask[e])) | ("exc", class): an access that covers an event
    without contour must raise, every other access returns the contour of ITS event.
    `trace` (list) receives the cached indices after the history (None when not exposed)."""
    nm = len(masks)
    obj = make_obj()
    for k, op in enumerate(ops):
        r = guarded(apply_access, obj, op, nm)
        want_exc = [e for e in op_events(op, nm) if fresh[e][0] != "ok"]
        if r[0] != "ok":
            if not want_exc:
                return f"access {k} {op} raised {r[1]}"
            if r[1] != fresh[want_exc[0]][1] and notes is not None:
                notes.append(f"an access to an event without contour raises {r[1]}, the direct "
                             f"get_contour(mask) raises {fresh[want_exc[0]][1]}")
            continue
        if want_exc:
            return (f"access {k} {op} returned a contour for event {want_exc[0]} although "
                    f"get_contour(mask[{want_exc[0]}]) raises ({fresh[want_exc[0]][1]})")
        for e, c in r[1]:
            c = np.asarray(c)
            if not np.array_equal(c, fresh[e][1]):
                which = [j for j in range(nm) if fresh[j][0] == "ok"
                         and np.array_equal(c, fresh[j][1])]
                return (f"access {k} {op}: the contour returned for event {e} is not "
                        f"get_contour(mask[{e}])" + (f" but that of event {which[0]}" if which else ""))
            if e not in degenerate and \
                    not np.array_equal(repo_fill(M, c, masks[e].shape), masks[e]):
                return f"access {k} {op}: refilling the contour of event {e} does not reproduce its mask"
    if trace is not None:
        trace.append(cached_indices(obj))
    return None


def lcl_model_line(maxev, failing, nm, ops):
    """`lclops <max_events> <keys without contour> <op> ...` (model `lclOps`): an integer index is
    `i:<key>` — a negative index is looked up and registered as given, i.e. under another key than
    its non-negative alias (key = index + 2*nm) —, a slice / index array is `m:<events>`"""
    fl = sorted(failing) + [e + nm for e in sorted(failing)]
    toks = []
    for op in ops:
        if op[0] == "i":
            toks.append(f"i:{op[1] + 2 * nm if op[1] < 0 else op[1]}")
        elif op[0] == "n":
            toks.append(f"i:{op[1]}")
        else:
            toks.append("m:" + ",".join(str(e) for e in op_events(op, nm)))
    return (f"lclops {int(maxev or 0)} " + (",".join(str(e) for e in fl) or "-") + " "
            + " ".join(toks)).rstrip()


def lcl_model_diff(ans, nm, ops, failing, final, reads, note=None):
    """compare the model's run of a history with what was observed on the implementation:
    outcome of every access and the cached events afterwards (differences -> mirror); the number of
    contour computations (masks read) is only reported"""
    toks, _, idx = ans.partition(" idx ")
    outs = toks.split()
    if len(outs) != len(ops):
        return ("number of accesses", str(len(ops)), str(len(outs)))
    for op, t in zip(ops, outs):
        ev = op_events(op, nm)
        bad = [e for e in ev if e in failing]
        if bad:
            if t != "x":
                return (f"access {op} (event {bad[0]} has no contour)", "raises", t)
        elif not t.startswith("ok:") or \
                [int(v) % nm for v in t[3:].split(",") if v] != ev:
            return (f"access {op}", f"contours of the events {ev}", t)
    midx = [] if idx.strip() == "-" else [int(v) for v in idx.split(",")]
    # compared as events (modulo the number of events): whether a negative index is registered as
    # given or normalised first is not judged
    if final is not None and [i % nm for i in final] != [k % nm for k in midx]:
        return ("cached events after the history", str(final), idx)
    return None


def part_f(ctx, M, jobs):
    dclab = common.import_dclab()
    fc = M["contour"]
    for hno in range(ctx.n(60, 600)):
        shape = (ctx.rng.randint(6, 10), ctx.rng.randint(6, 12))
        nm = ctx.rng.randint(3, 14)
        masks = distinct_masks(ctx.rng, nm, shape)
        nm = len(masks)
        if nm < 2:
            continue
        # events without contour (fault points inside __getitem__): in about half of the histories
        # 1-3 events get a degenerate mask
        degenerate = {}
        if ctx.rng.random() < 0.55:
            for e in ctx.rng.sample(range(nm), min(nm - 1, ctx.rng.randint(1, 3))):
                kind, masks[e] = degenerate_mask(ctx.rng, shape)
                degenerate[e] = kind
        fresh = fresh_contours(M, masks)
        failing = sorted(e for e in range(nm) if fresh[e][0] != "ok")
        for e in failing:
            if e not in degenerate:            # a mask of the domain must have a contour (part A)
                ctx.violation("spec", f"get_contour raises {fresh[e][1]} for a connected hole-free "
                                      f"mask of {int(masks[e].sum())} pixels",
                              {"part": "A", "mask": masks[e].astype(int).tolist()})
        maxev = ctx.rng.choice([1, 2, 3, 4, 5, 2, 3, nm - 1, nm, nm + 3, None, 0])
        route = ctx.rng.choice(["list", "array3d", "dataset", "indexable"])
        state = {"shrunk": True, "counter": None}
        if route == "dataset":
            # ds["contour"] of an in-memory dataset that only has masks; the cache size of the
            # ancillary feature is fixed (1000), so shrink its deques to exercise eviction
            def make_obj(masks=masks, maxev=maxev, state=state):
                ds = dclab.new_dataset({"mask": np.array(masks),
                                        "deform": np.linspace(0.01, 0.02, len(masks))})
                lcl = ds["contour"]
                state["shrunk"] = shrink_deques(lcl, maxev)
                return lcl
        elif route == "indexable":
            def make_obj(masks=masks, maxev=maxev, state=state):
                cm = CountingMasks(masks)
                lcl = fc.LazyContourList(cm, max_events=maxev)
                cm.reads = 0                     # the constructor looks at the first mask
                state["counter"] = cm
                return lcl
        else:
            def make_obj(masks=masks, maxev=maxev, route=route):
                data = np.array(masks) if route == "array3d" else list(masks)
                return fc.LazyContourList(data, max_events=maxev)
        # the generator looks at the cache of a shadow object driven in lockstep (or, when the
        # object does not expose its cached indices, at the most recent successful accesses)
        r0 = guarded(make_obj)
        if r0[0] != "ok":
            ctx.violation("spec", f"contour list ({route}, {nm} events, "
                                  f"{len(failing)} without contour) cannot be created: {r0[1]}",
                          {"part": "F", "route": route, "max_events": maxev,
                           "masks": [m.astype(int).tolist() for m in masks], "ops": []})
            continue
        shadow = r0[1]
        recent = []

        def cached(shadow=shadow, recent=recent):
            c = cached_indices(shadow)
            return c if c is not None else list(recent)
        ops = []
        for op in gen_access_ops(ctx.rng, nm, ctx.rng.randint(10, 60), cached, failing):
            ops.append(op)
            if guarded(apply_access, shadow, op, nm)[0] == "ok":
                recent.extend(op_events(op, nm))
                del recent[:-(maxev or 1000)]
        if route == "dataset" and not state["shrunk"]:
            ctx.note("C18 part F: ds['contour'] is not built from the deques `contours`/`indices`; "
                     "its cache size was left unchanged (eviction only exercised on LazyContourList)")
        final = cached_indices(shadow)
        if final is None:
            ctx.note("C18 part F: the contour list does not expose `indices`; cache-size bound and "
                     "the comparison of the cached indices with the model are skipped")
        bounded = maxev in (None, 0) or final is None or len(final) <= maxev \
            or (route == "dataset" and not state["shrunk"])
        ctx.stat(f"F:route={route}")
        ctx.stat("F:max_events=" + ("all" if not maxev else "<n" if maxev < nm else ">=n"))
        ctx.stat(f"F:events-without-contour={min(len(failing), 3)}")
        for e in failing:
            ctx.stat(f"F:degenerate={degenerate.get(e, '?')}")
        flat = flat_accesses(ops, nm, set(failing))
        if failing:
            # fault followed by a re-access of a later computed event that is still cached
            seen_fail, later, hit = False, set(), False
            for _k, e in flat:
                if e in failing:
                    seen_fail = True
                elif seen_fail:
                    hit = hit or e in later
                    later.add(e)
            ctx.stat("F:re-access-after-failure" if hit else "F:no-re-access-after-failure")
        ctx.case(("F", route, maxev, tuple(m.tobytes() for m in masks), repr(ops)),
                 nontrivial=bool(maxev) and maxev < nm,
                 sample={"part": "F", "route": route, "events": nm, "max_events": maxev,
                         "without_contour": failing,
                         "ops": [list(map(str, o)) for o in ops[:8]]} if hno == 0 else None)
        notes, trace = [], []
        r = guarded(history_fails, M, masks, fresh, make_obj, ops, degenerate, notes, trace)
        for t in notes[:1]:
            ctx.note("C18 part F: " + t + " (exception classes are not part of the property)")
        bad = r[1] if r[0] == "ok" else f"history evaluation raised {r[1]}"
        reads = state["counter"].reads if state["counter"] is not None else None
        if bad is None and not bounded:
            bad = f"more than max_events={maxev} contours are kept ({len(final)})"
        if bad is None and trace and (route != "dataset" or state["shrunk"]):
            # impl-mirror: the Lean model of the two deques with failing events (`lclGet`)
            rpm = {"part": "F", "route": route, "max_events": maxev,
                   "masks": [m.astype(int).tolist() for m in masks],
                   "degenerate": sorted(degenerate), "ops": [list(o) for o in ops]}

            def cbl(ans, nm=nm, ops=list(ops), failing=set(failing), final=trace[0], rpm=rpm):
                d = lcl_model_diff(ans, nm, ops, failing, final, None)
                if d:
                    return ("LazyContourList history vs model: " + d[0], d[1], d[2], rpm)
            jobs.add(lcl_model_line(maxev, failing, nm, ops), cbl)
            # integer-access model (`lclRun`) on the flattened history: computed / hit / raised
            def cbf(ans, flat=flat, failing=set(failing), nm=nm, reads=reads, rpm=rpm):
                outs = ans.partition(" idx ")[0].split()
                if len(outs) != len(flat):
                    return ("flattened history vs model: number of accesses", str(len(flat)),
                            str(len(outs)), rpm)
                for (k, e), t in zip(flat, outs):
                    if (t == "x") != (e in failing) or (t != "x" and int(t[2:]) % nm != e):
                        return (f"flattened history vs model: access to event {e}", "own contour"
                                if e not in failing else "raises", t, rpm)
                computed = sum(1 for t in outs if t == "x" or t.startswith("c:"))
                if reads is not None and reads != computed:
                    ctx.note(f"C18 part F: a history read {reads} masks where the model computes "
                             f"{computed} contours (how often a mask is read is not part of the "
                             f"property; reported only)")
            fl = sorted(failing) + [e + nm for e in sorted(failing)]
            jobs.add((f"lcl {int(maxev or 0)} " + (",".join(str(e) for e in fl) or "-") + " "
                      + " ".join(str(k) for k, _ in flat)).rstrip(), cbf)
        if bad:
            small = ops
            if r[0] == "ok" and r[1]:
                small = common.ddmin(ops, lambda o: history_fails(M, masks, fresh, make_obj, o,
                                                                  degenerate) is not None)
                bad = history_fails(M, masks, fresh, make_obj, small, degenerate) or bad
            ctx.violation("spec", f"contour access history ({route}, max_events={maxev}, "
                                  f"{nm} events, {len(failing)} without contour): {bad}",
                          {"part": "F", "route": route, "max_events": maxev,
                           "masks": [m.astype(int).tolist() for m in masks],
                           "degenerate": sorted(degenerate),
                           "ops": [list(o) for o in small]})
    # datasets larger than the default cache of ds["contour"] (1000 events), untouched deques
    for rep in range(ctx.n(1, 3)):
        nm = 1000 + ctx.rng.randint(20, 120)
        masks = distinct_masks(ctx.rng, nm, (7, 9))
        nm = len(masks)
        fresh = fresh_contours(M, masks)

        def make_ds(masks=masks):
            ds = dclab.new_dataset({"mask": np.array(masks),
                                    "deform": np.linspace(0.01, 0.02, len(masks))})
            return ds["contour"]
        ops = [("s", 0, nm, 1)]                                  # one pass fills the cache
        for _ in range(ctx.rng.randint(20, 60)):
            k = ctx.rng.random()
            if k < 0.5:
                ops.append(("i", ctx.rng.randrange(nm - 900, nm)))     # cached, not the newest
            elif k < 0.7:
                ops.append(("i", ctx.rng.randrange(0, nm - 1000)))     # evicted
            elif k < 0.85:
                a = ctx.rng.randrange(nm - 10)
                ops.append(("s", a, a + ctx.rng.randint(1, 8), 1))
            else:
                ops.append(("i", ops[-1][1] if ops[-1][0] == "i" else nm - 1))
        ctx.stat("F:dataset>1000-events")
        ctx.case(("F-big", nm, repr(ops[1:])), nontrivial=True)
        r = guarded(history_fails, M, masks, fresh, make_ds, ops)
        bad = r[1] if r[0] == "ok" else f"history evaluation raised {r[1]}"
        if bad is None:
            # features derived through ds["contour"] after a history are those of the own event
            def derived(masks=masks):
                ds = dclab.new_dataset({"mask": np.array(masks),
                                        "deform": np.linspace(0.01, 0.02, len(masks))})
                for op in ops[1:]:
                    apply_access(ds["contour"], op, len(masks))
                return np.array(ds["inert_ratio_raw"][:])
            d = guarded(derived)
            want = np.array([M["inert"].get_inert_ratio_raw(c[1]) for c in fresh])
            if d[0] != "ok":
                bad = f"ds['inert_ratio_raw'] raised {d[1]} after an access history"
            elif not np.allclose(d[1], want, rtol=1e-12, atol=0, equal_nan=True):
                k = int(np.nonzero(~np.isclose(d[1], want, rtol=1e-12, atol=0, equal_nan=True))[0][0])
                bad = (f"ds['inert_ratio_raw'][{k}] = {d[1][k]!r} is not the inertia ratio of "
                       f"the contour of mask {k} ({want[k]!r})")
        if bad:
            ctx.violation("spec", f"ds['contour'] of a dataset with {nm} events (> cache of 1000): "
                                  f"{bad}",
                          {"part": "F-big", "events": nm, "seed_note": "re-run the check with the "
                           "same VERIF_SEED", "ops": [list(o) for o in ops[:40]]})


# =============================================================================================
def run_parts(ctx, M, jobs):
    conts = part_a(ctx, M, jobs)
    part_b(ctx, M, jobs, conts)
    part_c(ctx, M, jobs, conts)
    part_d(ctx, M, jobs)
    part_e(ctx, M, jobs)
    part_e_subsets(ctx, M, jobs)
    part_f(ctx, M, jobs)


def run(ctx):
    M = mods()
    jobs = Jobs()
    run_parts(ctx, M, jobs)
    if not ctx.lean_ok:
        return                      # budgets were already multiplied by 10 (ctx.n)
    # pre-fix model of `if bg_off:` (documentation of F19 in the evidence)
    jobs.add("truth arr 3 1", lambda a: None if a == "raises" else ("truthOf", "raises", a, {}))
    # the witness history of `early_registration_wrong_witness` (event 1 has no contour): today's
    # code follows `lclGet`, not the early-registration variant
    jobs.add("lcl 0 1 1 2 3 2", lambda a: None if a == "x c:2 c:3 h:2 idx 2,3,2" else (
        "lclGet on the witness history", "x c:2 c:3 h:2 idx 2,3,2", a, {}))
    out = ctx.lean("C18", jobs.lines)
    diffs = []
    for line, cb, ans in zip(jobs.lines, jobs.cbs, out):
        if ans == "bad-op":
            diffs.append(("driver rejected the line", line[:80], ans, {"line": line[:300]}))
            continue
        try:
            d = cb(ans)
        except Exception as e:  # noqa
            d = ("unparsable model answer", repr(e), ans[:80], {"line": line[:300]})
        if d:
            diffs.append(d)
    ctx.stat("model_lines", len(jobs.lines))
    if diffs and not any(v["kind"] == "spec" for v in ctx.violations):
        # impl and impl-mirror differ but every property oracle held: extended search (10x)
        ctx.stat("mirror_diffs", len(diffs))
        ctx2_before = len(ctx.violations)
        ctx.lean_ok = False
        try:
            run_parts(ctx, M, Jobs())
        finally:
            ctx.lean_ok = True
        if len(ctx.violations) == ctx2_before:
            d = diffs[0]
            ctx.violation("mirror", f"{len(diffs)} answers differ between dclab and the Lean model; "
                                    f"first: {d[0]}: impl {d[1]} model {d[2]}",
                          {"correspondence": "Drive/C18.lean (Model/Feat.lean) vs dclab.features.*",
                           "what": d[0], "impl": d[1], "model": d[2], "input": d[3]})


def replay(ctx, data):
    M = mods()
    p = data.get("replay", data)
    part = p.get("part")
    fails = []
    if part == "D":
        fails = bright_eval(M, bright_unpayload(p))[0]
    elif part == "A":
        fails = contour_oracle(M, np.array(p["mask"], dtype=bool))[0]
    elif part == "F":
        dclab = common.import_dclab()
        masks = [np.array(m, dtype=bool) for m in p["masks"]]
        fresh = fresh_contours(M, masks)
        maxev = p["max_events"]

        def make_obj():
            if p["route"] == "dataset":
                ds = dclab.new_dataset({"mask": np.array(masks),
                                        "deform": np.linspace(0.01, 0.02, len(masks))})
                lcl = ds["contour"]
                shrink_deques(lcl, maxev)
                return lcl
            data = np.array(masks) if p["route"] == "array3d" else \
                CountingMasks(masks) if p["route"] == "indexable" else list(masks)
            return M["contour"].LazyContourList(data, max_events=maxev)
        ops = [tuple(o) for o in p["ops"]]
        f = history_fails(M, masks, fresh, make_obj, ops, set(p.get("degenerate", ())))
        fails = [f] if f else []
    elif part == "A-dedup":
        pts = [tuple(q) for q in p["points"]]
        got = M["contour"].remove_duplicates(np.array(pts, dtype=int))
        if [tuple(int(v) for v in q) for q in got] != U.dedup_cyclic(pts):
            fails = ["remove_duplicates differs from the reference"]
    elif part == "B":
        import random
        cc = np.array(p["cont"], dtype=np.dtype(p["dtype"]))
        fails, cc = purity_fails(M["inert"], cc)
        fails = fails or moments_oracles(M, cc, random.Random(0))
    elif part == "B-dtype":
        fails = dtype_fails(M, np.array(p["cont"], dtype=np.int64))[0]
    elif part == "E-subset":
        fails = subset_eval(M, tuple(p["channels"]), p["ct"],
                            {int(c): v for c, v in p["x"].items()}, p["route"])[0]
    elif part == "C":
        import random
        fails = volume_oracles(M, np.array(p["cont"], dtype=np.dtype(p["dtype"])), p["pos_x"],
                               p["pos_y"], p["pix"], random.Random(0))
    else:
        run(ctx)
        return bool(ctx.violations)
    for f in fails:
        ctx.violation("spec", f, p)
    return bool(fails)
