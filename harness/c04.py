"""C04 — a hierarchy child is exactly the filtered view of its parent.

Seeded histories over hierarchies of depth 1–4 on RTDC_Dict and RTDC_HDF5 roots (scalar, image,
mask, contour, trace, the computed feature `area_um` and a temporary feature).  Operations:
range edits at any level (biased towards *equal-cardinality* changes of an ancestor — the F04
trigger — and towards making manually excluded events vanish and return), manual exclusion /
re-inclusion at any level, temporary-feature assignment at any member, a root configuration
change (pixel size → `area_um`), `rejuvenate()` of the youngest member, and — in half of the
histories — `rejuvenate()` / `set_temporary_feature` on an *intermediate* member, which refreshes
only the chain above it (F32, seeded change C04-4), later followed by a refresh from the youngest.

After every refresh, for the members it went through (all of them after a refresh from the
youngest member):
* the property's own oracle on the real objects:  `len(child) == sum(parent.filter.all)`,
  `child[feat] == parent[feat][parent.filter.all]` for every feature kind, manual exclusions
  attached to root ids (excluded == M∩vis, root ids read from the identity feature
  `userdef0`), `filter.all == ranges(current config, current events) & manual`;
* the Lean model (Drive/C04.lean, one run per check): ids, len, filter.all, filter.manual,
  `_man_root_ids`, `parent_changed` (for *all* members, also the stale ones below a partial
  refresh); the tokens of every feature against root tokens at the model's ids.
Access patterns: at every checked member, `child[feat][index]` for integers (incl. negative),
slices with steps, boolean masks, sorted / reversed / permuted / repeated / out-of-range index
lists and arrays on every feature kind: returned data must be the numpy-indexed selection of the
parent's events; an exception is only accepted if the parent container refuses the mapped access
too (h5py rejects unsorted lists).  12 % of the histories run on scalar-only roots with 300–70000
events and narrow windows far from index 0 (small members with root indices >= 256 / >= 65536;
property oracle only, the Lean model is not run on them).
Lazily filled caches (session 4, Model/HierCache.lean): 16 % of the operations of the small-root
histories are `np.asarray(L[f][:])` / `L[f].min()|max()|mean()` on two scalar features that nothing
else reads (`userdef1` = root index, `verif_tmp2` = a temporary feature assigned on the root only),
re-assignments of `verif_tmp2` on the root and changes of `root.config["calculation"]`, at any
member and at any time — also on members below a partial refresh; every answer is compared with
the model (`read` / `summ` / `calc` lines), and on a synchronised hierarchy with the property's own
oracle (root data at the member's events, numpy fold).  Every history ends with reads and summaries
of both features at every member.
Scripted scenarios: stale-member witness (`stale_member_mixed_witness`), fixed access-pattern list on a dict and an hdf5 root, error paths of unsynchronised hierarchies (`apply_manual_indices` must refuse
on members below a partial refresh), the F32 history, and the corpus.
"""
import json
import time

import numpy as np

from . import common, gen

ID = "C04"
LEAN_MODULES = ["DclabModel.Properties.C04"]
RULE = ("seeded histories of 10-80 operations over {set range at any level (50% equal-width "
        "shifts of an identity-feature window on an ancestor), manual exclude/re-include at any "
        "level, temporary feature at any member, pixel-size change, rejuvenate youngest, and in "
        "50% of the histories rejuvenate / set_temporary_feature on an intermediate member} on "
        "hierarchies of depth 1-4 over RTDC_Dict / RTDC_HDF5 roots with 6-14 events (12%: "
        "scalar-only roots with 300-70000 events, narrow windows at large indices); random index "
        "expressions (int, negative, slices, masks, sorted/reversed/permuted/repeated/out-of-range "
        "lists and arrays) on sampled feature kinds of every checked member; a history is "
        "non-trivial when at least one rejuvenate saw an ancestor change that kept the parent's "
        "boolean pattern of some deeper member or re-created a filter with hidden manual ids; "
        "16% of the operations (small roots): lazy array read / min / max / mean of two otherwise "
        "unread scalar features at any member (also stale ones), root data re-assignment, root "
        "calculation-section change; every history ends with reads + summaries at every member; "
        "distinct = distinct canonical (root, depth, op list).")
TRUSTED_BASE = [
    "modelled, not verified: numpy boolean/integer indexing, np.where, np.isin, sorted(set()), "
    "md5 (hashobj) treated as injective on the lists of filter arrays that are hashed",
    "Filter.update is reduced to box ranges on integer-valued features + manual (polygon, "
    "invalid, limit events: C03/C16)",
    "feature payloads are opaque tokens (harness/gen.py); the identity feature userdef0 carries "
    "the root index",
    "cache layer (Model/HierCache.lean): NaN-free integer-valued scalar features; the root's "
    "features are read without cache; numpy's IndexError for a boolean index of another length "
    "(reads through two stale levels) is the driver's guard `readOk`, `sel` itself truncates — "
    "after a refresh from the youngest member the lengths agree (synced_after_rejuvenate), this "
    "composition is not a Lean theorem; after such a refused read the history re-synchronises "
    "with a refresh from the youngest member"]
ASSUMPTIONS = [
    "set_temporary_feature is only called on members that are not stale themselves (assigning "
    "data through a member whose ancestors were refreshed without it is a usage error: its "
    "length and index maps are outdated)",
    "while a member is stale (an ancestor was refreshed without it) 'the event at position p' "
    "means the event its cached identity feature shows; its n-d features and len() are not read",
    "ranges are set as min/max pairs and never removed (removal is F03, property C03)",
    "'limit events' = 0 inside the hierarchy so that root ids determine the filters",
    "the cache-modelled scalar features carry no box filter (Filter.update would read them "
    "during the refresh itself); `_length` of a member is cached by its first refresh after the "
    "constructor (the constructor leaves it lazy)"]
NOT_PROVED = [
    "polygon / invalid / limit-events filters inside a hierarchy (reduced to C03; the C03 filter "
    "spec is not composed into the hierarchy model)",
    "stale members (below a partial refresh): proved are read_is_frozen and the witness "
    "stale_member_mixed_witness (features frozen at first read / current / old len); a general "
    "'frozen until the member's own refresh' theorem over arbitrary op sequences and n-d reads of "
    "stale members are correspondence-only",
    "cache layer: length agreement of every boolean selection after a refresh is taken from the "
    "base model's Synced invariant, not re-proved for the lazily read chain; NaN handling of "
    "nanmin/nanmax/nanmean; H5ScalarEvent summaries of an HDF5 root (trusted)"]

TMP = "verif_tmp"
# cache-modelled scalar features (Model/HierCache.lean): never box-filtered, never read by the
# per-refresh oracle, only by explicit `read` / `summ` operations, so they are read *lazily*
LAZY = "userdef1"            # slot 0: identity (root index), immutable
TMP2 = "verif_tmp2"          # slot 1: temporary feature that is only ever assigned on the root
SLOTS = [LAZY, TMP2]
CALC_KEY = "emodulus temperature"
FILT = ["userdef0", "area_cvx", "bright_avg"]          # box-filterable, integer valued
TOKF = ["deform", "image", "mask", "contour", "trace/fl1_raw", "trace/fl1_median"]
UNIVERSE = list(range(48))
_tables = {}


class HErr(Exception):
    pass


def table(feat):
    if feat not in _tables:
        t = {}
        for k in UNIVERSE:
            p = gen.payload(feat, k)
            if feat == "mask":
                p = np.asarray(p, dtype=bool)
            t.setdefault(np.ascontiguousarray(p).tobytes(), k)
        _tables[feat] = t
    return _tables[feat]


def ctok(feat, t):
    """canonical representative of token `t` (payloads of mask are not injective)"""
    p = gen.payload(feat, t)
    if feat == "mask":
        p = np.asarray(p, dtype=bool)
    return table(feat)[np.ascontiguousarray(p).tobytes()]


def tok(feat, value):
    a = np.asarray(value)
    if feat == "mask":
        a = a != 0
    else:
        a = a.astype(np.asarray(gen.payload(feat, 0)).dtype, copy=False)
    return table(feat).get(np.ascontiguousarray(a).tobytes())


# ------------------------------------------------------------------------------------------
def make_spec(rng, kind):
    n = rng.randint(6, 14)
    return {"kind": kind, "n": n, "tokens": rng.sample(UNIVERSE, n),
            "area_cvx": [rng.randint(0, 4) for _ in range(n)],
            "bright_avg": [rng.randint(0, 3) for _ in range(n)]}


def make_big_spec(rng):
    """scalar-only root with many events: members deep down are small but their root indices
    are large (>= 256, >= 65536), so any narrowing of stored indices shows"""
    n = rng.choice([300, 700, 3000, 66000, 70000])
    return {"kind": "dict", "big": True, "n": n, "seed": rng.randrange(10**6)}


def big_columns(spec):
    n = spec["n"]
    r = np.random.RandomState(spec["seed"])
    return {"userdef0": np.arange(n, dtype=float),
            "area_cvx": r.randint(0, 5, n).astype(float),
            "bright_avg": r.randint(0, 4, n).astype(float),
            "deform": ((np.arange(n) * 7919) % 65536) / 1024.0 + 1 / 1024}


def open_root(ctx, spec):
    dclab = common.import_dclab()
    from dclab.rtdc_dataset import feat_temp
    if not dclab.definitions.feature_exists(TMP):
        feat_temp.register_temporary_feature(TMP)
    if not dclab.definitions.feature_exists(TMP2):
        feat_temp.register_temporary_feature(TMP2)
    if spec.get("big"):
        ds = dclab.new_dataset(big_columns(spec))
        ds.config["imaging"]["pixel size"] = 0.34
        feat_temp.set_temporary_feature(ds, TMP, np.arange(spec["n"], dtype=float) * 0.5 + 100)
        return ds
    toks, n = spec["tokens"], spec["n"]
    if spec["kind"] == "dict":
        d = {"deform": gen.rows("deform", toks), "image": gen.rows("image", toks),
             "mask": gen.rows("mask", toks), "contour": gen.rows("contour", toks),
             "trace": gen.trace_dict(("fl1_raw", "fl1_median"), toks),
             "userdef0": np.arange(n, dtype=float),
             LAZY: np.arange(n, dtype=float),
             "area_cvx": np.array(spec["area_cvx"], dtype=float),
             "bright_avg": np.array(spec["bright_avg"], dtype=float)}
        ds = dclab.new_dataset(d)
        ds.config["imaging"]["pixel size"] = 0.34
    else:
        path = spec.get("path")
        if path is None:
            h = abs(hash(json.dumps(spec, sort_keys=True))) % 10**9
            path = ctx.workdir / f"root_{h}.rtdc"
        if not path.exists():
            gen.make_rtdc(path, toks, feats=("deform", "image", "mask", "contour", "trace"),
                          trace_names=("fl1_raw", "fl1_median"))
            with dclab.RTDCWriter(path, mode="append") as hw:
                hw.store_feature("userdef0", np.arange(n, dtype=float))
                hw.store_feature(LAZY, np.arange(n, dtype=float))
                hw.store_feature("area_cvx", np.array(spec["area_cvx"], dtype=float))
                hw.store_feature("bright_avg", np.array(spec["bright_avg"], dtype=float))
        ds = dclab.new_dataset(path)
    feat_temp.set_temporary_feature(ds, TMP, np.arange(n, dtype=float) * 0.5 + 100)
    feat_temp.set_temporary_feature(ds, TMP2, tmp2_initial(n))
    return ds


def tmp2_initial(n):
    return (np.arange(n, dtype=float) * 3) % 7


def index_patterns(rng, n, k):
    """k random index expressions for a container of n events: (description, index)"""
    out = []
    kinds = ["int", "neg", "slice", "bool", "sorted", "reversed", "perm", "repeat", "oob",
             "perm", "perm"]
    for _ in range(k):
        kind = rng.choice(kinds)
        m = rng.randint(0, min(n, 6))
        sub = sorted(rng.sample(range(n), m)) if n else []
        if kind == "int" and n:
            ix = rng.randrange(n)
        elif kind == "neg" and n:
            ix = -rng.randint(1, n)
        elif kind == "slice":
            ix = slice(rng.choice([None, 0, 1, -2, n // 2]), rng.choice([None, n, -1, n // 2 + 1]),
                       rng.choice([None, 1, 2, 3, -1, -2]))
        elif kind == "bool":
            ix = np.array([rng.random() < 0.5 for _ in range(n)], dtype=bool)
        elif kind == "sorted":
            ix = sub
        elif kind == "reversed":
            ix = sub[::-1]
        elif kind == "perm":
            ix = list(sub)
            rng.shuffle(ix)
        elif kind == "repeat" and n:
            ix = [rng.choice(sub or [0]) for _ in range(rng.randint(1, 5))]
        elif kind == "oob":
            ix = rng.choice([n, n + 3, -n - 1, [0, n] if n else [0]])
        else:
            ix = []
        if isinstance(ix, list) and rng.random() < 0.5:
            ix = np.array(ix, dtype=int)
            kind += "/array"
        elif isinstance(ix, list):
            kind += "/list"
        out.append((kind, ix))
    return out


PSTAT = {}


def _get(container, ix):
    try:
        return "data", container[ix]
    except Exception as e:
        return "err", common.err_class(e)


def _same(a, b):
    try:
        if isinstance(a, (list, tuple)) or isinstance(b, (list, tuple)) \
                or (hasattr(a, "dtype") and a.dtype == object):
            a, b = list(a), list(b)
            return len(a) == len(b) and all(np.array_equal(np.asarray(x), np.asarray(y))
                                            for x, y in zip(a, b))
        return np.array_equal(np.asarray(a), np.asarray(b), equal_nan=True) \
            and np.asarray(a).shape == np.asarray(b).shape
    except Exception:
        return False


def _take(full, ix):
    """numpy indexing semantics on a materialised list of events"""
    pos = np.arange(len(full))[ix]                   # may raise IndexError like numpy
    if np.ndim(pos) == 0:
        return full[int(pos)]
    return [full[int(q)] for q in pos]


def access_patterns(L, P, i, rng, k, big, patterns=None, all_feats=False):
    """`child[feat][index]` for many kinds of index: when it returns data these must be the
    events `parent[feat][parent.filter.all][index]` in numpy's sense (order, repetitions);
    when it raises, accessing the parent with the mapped indices must raise the same way."""
    bad = []
    n = len(L)
    sel = np.where(np.asarray(P.filter.all))[0]
    feats = ["deform", "userdef0"] if big else \
        ["deform", "image", "mask", "contour", "trace/fl1_raw", "trace/fl1_median"]
    for f in (feats if all_feats else rng.sample(feats, min(len(feats), 3))):
        if f.startswith("trace/"):
            cL, cP = L["trace"][f[6:]], P["trace"][f[6:]]
        else:
            cL, cP = L[f], P[f]
        full = [cP[int(q)] for q in sel]             # one event at a time: the plain path
        for kind, ix in (patterns or index_patterns(rng, n, k)):
            tag, got = _get(cL, ix)
            key = f"access_{kind}_{'ok' if tag == 'data' else got}"
            PSTAT[key] = PSTAT.get(key, 0) + 1
            try:
                want = ("data", _take(full, ix))
            except IndexError:
                want = ("err", "err:index")
            if tag == "data":
                if want[0] != "data" or not _same(got, want[1]):
                    bad.append(f"L{i}: {f}[{kind} index] does not return the selected events of "
                               f"the parent in the requested order")
                    return bad
            else:
                try:
                    direct = _get(cP, sel[ix])
                except IndexError:
                    direct = ("err", "err:index")
                if want[0] == "data" and direct[0] == "data":
                    bad.append(f"L{i}: {f}[{kind} index] raises {got} although the parent "
                               f"supports the mapped access")
                    return bad
    return bad


def man_root(flt):
    """the private bookkeeping list `HierarchyFilter._man_root_ids` as a sorted list of root ids,
    or None when this dclab keeps it under another name / in another form (then the model's
    `mr=` field is not compared; hidden exclusions are still judged through observable behaviour:
    `excluded == M ∩ visible` when the events return)"""
    if not hasattr(flt, "_man_root_ids"):
        # a plain `Filter` (root) has no such bookkeeping at all: empty
        return None if hasattr(flt, "retrieve_manual_indices") else []
    try:
        return sorted({int(x) for x in flt._man_root_ids})
    except Exception:
        return None


def drop_mr(state):
    """a state line without its `mr=` field"""
    return " ".join(w for w in state.split(" ") if not w.startswith("mr="))


def sort_mr(state):
    """a state line with the ids of its `mr=` field sorted (the order of a private list is not
    observable)"""
    out = []
    for w in state.split(" "):
        if w.startswith("mr=") and w[3:]:
            w = "mr=" + ",".join(map(str, sorted({int(x) for x in w[3:].split(",")})))
        out.append(w)
    return " ".join(out)


class Real:
    """the real hierarchy + the harness' root-id bookkeeping of the user's manual edits"""

    def __init__(self, ctx, spec, depth):
        from dclab.rtdc_dataset import RTDC_Hierarchy
        self.spec, self.depth = spec, depth
        self.lv = [open_root(ctx, spec)]
        for _ in range(depth):
            self.lv.append(RTDC_Hierarchy(self.lv[-1]))
        self.M = [set() for _ in self.lv]
        self.last_tmp = None
        self.synced = True           # no edit since the last refresh from the youngest member
        self.col2 = None if spec.get("big") else [int(v) for v in tmp2_initial(spec["n"])]
        self.lazy_fail = []          # property oracle on lazily read features / summaries

    def close(self):
        try:
            self.lv[0].close()
            if hasattr(self.lv[0], "h5file"):
                self.lv[0].h5file.close()
        except Exception:
            pass

    def ids(self, i):
        return [int(v) for v in np.asarray(self.lv[i]["userdef0"][:])]

    def apply(self, op, rng=None):
        """execute one op; returns 'ok' or an err:* class"""
        from dclab.rtdc_dataset import feat_temp
        from dclab.rtdc_dataset.fmt_hierarchy import hfilter
        self.last_tmp = None
        try:
            if op[0] == "set":
                _, lvl, f, lo, hi = op
                cfg = self.lv[lvl].config["filtering"]
                cfg[FILT[f] + " min"] = float(lo)
                cfg[FILT[f] + " max"] = float(hi)
            elif op[0] == "man":
                _, lvl, p, b = op
                ids = self.ids(lvl)
                man = self.lv[lvl].filter.manual
                if p >= len(man):
                    raise IndexError("manual position")
                man[p] = bool(b)
                r = ids[p]
                if b:
                    self.M[lvl].discard(r)
                else:
                    self.M[lvl].add(r)
            elif op[0] == "rejuv":
                self.lv[-1].rejuvenate()
            elif op[0] == "rejuvat":
                self.lv[op[1]].rejuvenate()
            elif op[0] == "tmp":
                _, where, vals = op
                lvl = tmp_level(op, self.depth)
                ds = self.lv[lvl]
                data = np.array((vals * (len(ds) // max(1, len(vals)) + 1))[:len(ds)], dtype=float)
                old_ids = self.ids(lvl)
                feat_temp.set_temporary_feature(ds, TMP, data)
                if lvl > 0:
                    self.last_tmp = (lvl, dict(zip(old_ids, data)))
            elif op[0] == "pix":
                self.lv[0].config["imaging"]["pixel size"] = op[1]
            elif op[0] == "col":
                feat_temp.set_temporary_feature(self.lv[0], TMP2, np.array(op[1], dtype=float))
                self.col2 = [int(v) for v in op[1]]
            elif op[0] == "calc":
                self.lv[0].config["calculation"][CALC_KEY] = float(op[1])
            elif op[0] in ("read", "summ"):
                return self.lazy(op)
            else:
                raise HErr(f"unknown op {op}")
        except hfilter.HierarchyFilterError:
            return "err:hierarchy"
        except HErr:
            raise
        except Exception as e:
            return common.err_class(e)
        finally:
            if op[0] not in ("read", "summ"):
                self.synced = op[0] == "rejuv"
        return "ok"

    def lazy(self, op):
        """`np.asarray(L[f][:])` / `L[f].min()|max()|mean()` on a cache-modelled scalar feature;
        canonical answer (protocol of Drive/C04.lean).  When the hierarchy is synchronised (no
        edit since the last refresh from the youngest member) the property's own oracle applies:
        the data are the root's current data at the member's events, the summary is the fold."""
        import warnings
        lvl, slot = op[1], op[2]
        L = self.lv[lvl]
        try:
            with warnings.catch_warnings():
                warnings.simplefilter("ignore")
                if op[0] == "read":
                    val = np.asarray(L[SLOTS[slot]][:], dtype=float)
                    ans = ",".join(str(int(v)) if v == int(v) else repr(float(v)) for v in val)
                else:
                    u = op[3]
                    c = L[SLOTS[slot]]
                    r = float([c.min, c.max, c.mean][u]())
                    if u < 2:
                        ans = str(int(r)) if r == int(r) else repr(r)
                    else:
                        # (the array is cached by now; `len(c)` would be the member's possibly
                        # stale `_length`)
                        n = len(np.asarray(c[:]))
                        sm = int(round(r * n)) if n and r == r else 0
                        ans = "nan" if r != r else f"{sm}/{n}" if sm / n == r else repr(r)
        except Exception as e:
            ans = common.err_class(e)
        if self.synced:
            try:
                rootcol = np.arange(self.spec["n"]) if slot == 0 else np.array(self.col2)
                want = rootcol[np.array(self.ids(lvl), dtype=int)].astype(float)
                with warnings.catch_warnings():
                    warnings.simplefilter("ignore")
                    if op[0] == "read":
                        exp = ",".join(str(int(v)) for v in want)
                    elif op[3] < 2:
                        exp = str(int([np.min, np.max][op[3]](want))) if len(want) else "err:value"
                    else:
                        exp = f"{int(want.sum())}/{len(want)}" if len(want) else "nan"
                if exp != ans:
                    what = "data" if op[0] == "read" else ["min()", "max()", "mean()"][op[3]]
                    self.lazy_fail.append(
                        f"L{lvl}: {what} of scalar {SLOTS[slot]} after a refresh is {ans[:40]}, "
                        f"the root's data at the member's events give {exp[:40]}")
            except Exception as e:
                self.lazy_fail.append(f"L{lvl}: reading the refreshed level raised "
                                      f"{type(e).__name__}")
        return ans

    def calc_token(self, i):
        try:
            return str(int(float(self.lv[i].config["calculation"].get(CALC_KEY, 0))))
        except Exception as e:
            return common.err_class(e)

    # -------------------------------------------------------------------- observations
    def canon(self, i):
        L = self.lv[i]
        bits = lambda a: "".join("1" if x else "0" for x in np.asarray(a))  # noqa: E731
        mr = man_root(L.filter)
        pc = int(bool(L.filter.parent_changed)) if i > 0 else 0
        return "len=%d ids=%s all=%s man=%s mr=%s pc=%d" % (
            len(L), ",".join(map(str, self.ids(i))), bits(L.filter.all), bits(L.filter.manual),
            "?" if mr is None else ",".join(map(str, mr)), pc)

    def tokens(self, i, rng, full):
        """{feature: [(position, token)]} of level i (n-d kinds sampled unless `full`)"""
        L = self.lv[i]
        n = len(L)
        out = {"deform": [(p, tok("deform", v)) for p, v in enumerate(np.asarray(L["deform"][:]))]}
        pos = list(range(n)) if full or n <= 2 else sorted(rng.sample(range(n), 2))
        for f in ("image", "mask", "contour"):
            out[f] = [(p, tok(f, L[f][p])) for p in pos]
        for tn in ("fl1_raw", "fl1_median"):
            out["trace/" + tn] = [(p, tok("trace/" + tn, L["trace"][tn][p])) for p in pos]
        return out

    def oracle(self, rng, full, upto=None):
        """the property's own statement evaluated on the real objects (members 0..upto, i.e.
        the ones the last refresh went through); list of failures"""
        bad = []
        upto = self.depth if upto is None else upto
        root = self.lv[0]
        rtmp = np.asarray(root[TMP][:])
        rarea = np.asarray(root["area_um"][:])
        big = bool(self.spec.get("big"))
        rtoks = self.spec.get("tokens")
        for i in range(upto + 1):
            L = self.lv[i]
            try:
                ids = self.ids(i)
                n = len(L)
                if i > 0:
                    P = self.lv[i - 1]
                    pall = np.asarray(P.filter.all)
                    if n != int(pall.sum()) or len(ids) != n:
                        bad.append(f"L{i}: len {n} / {len(ids)} scalar values, but the parent's "
                                   f"filter selects {int(pall.sum())} events")
                        continue
                    sel = np.where(pall)[0]
                    for f in FILT + ["deform", "area_um", TMP]:
                        a, b = np.asarray(L[f][:]), np.asarray(P[f][:])[pall]
                        if a.shape != b.shape or not np.array_equal(a, b, equal_nan=True):
                            bad.append(f"L{i}: scalar {f} is not parent[{f}][parent.filter.all]")
                    pos = list(range(n)) if full or n <= 2 else sorted(rng.sample(range(n), 2))
                    bad.extend(access_patterns(L, P, i, rng, 6 if full else 2, big))
                    for p in ([] if big else pos):
                        q = int(sel[p])
                        for f in ("image", "mask", "contour"):
                            if not np.array_equal(np.asarray(L[f][p]), np.asarray(P[f][q])):
                                bad.append(f"L{i}: {f}[{p}] is not the parent's selected event")
                        for tn in ("fl1_raw", "fl1_median"):
                            if not np.array_equal(np.asarray(L["trace"][tn][p]),
                                                  np.asarray(P["trace"][tn][q])):
                                bad.append(f"L{i}: trace {tn}[{p}] is not the parent's event")
                # every feature is the root's feature at the level's root ids (identity feature)
                idx = np.array(ids, dtype=int)
                if not np.array_equal(np.asarray(L[TMP][:]), rtmp[idx], equal_nan=True):
                    bad.append(f"L{i}: temporary feature differs from the root's at its ids")
                if not np.array_equal(np.asarray(L["area_um"][:]), rarea[idx], equal_nan=True):
                    bad.append(f"L{i}: computed area_um differs from the root's at its ids")
                if big:
                    if not np.array_equal(np.asarray(L["deform"][:]),
                                          np.asarray(root["deform"][:])[idx]):
                        bad.append(f"L{i}: deform differs from the root's at its ids")
                else:
                    dt = [tok("deform", v) for v in np.asarray(L["deform"][:])]
                    if dt != [ctok("deform", rtoks[r]) for r in ids]:
                        bad.append(f"L{i}: deform tokens are not the root tokens at its ids")
                # manual exclusions stick to events
                man = np.asarray(L.filter.manual)
                if len(man) != n:
                    bad.append(f"L{i}: manual has size {len(man)}, len {n}")
                    continue
                excluded = {r for r, m in zip(ids, man) if not m}
                vis = set(ids)
                lost = (self.M[i] & vis) - excluded
                extra = excluded - self.M[i]
                if lost:
                    bad.append(f"L{i}: manual exclusion lost for visible root events {sorted(lost)}")
                if extra:
                    bad.append(f"L{i}: root events {sorted(extra)} excluded although the user did "
                               f"not exclude them (or re-included them)")
                # the level's filter is the configured one on its current events
                want = man.copy()
                cfg = L.config["filtering"]
                for f in FILT:
                    if f + " min" in cfg and f + " max" in cfg:
                        lo, hi = cfg[f + " min"], cfg[f + " max"]
                        if lo != hi:
                            lo, hi = min(lo, hi), max(lo, hi)
                            d = np.asarray(L[f][:])
                            want &= (lo <= d) & (d <= hi)
                if not np.array_equal(np.asarray(L.filter.all), want):
                    bad.append(f"L{i}: filter.all is not ranges(current events) & manual "
                               f"(stale box filter)")
            except Exception as e:      # an exception while reading a refreshed hierarchy
                bad.append(f"L{i}: reading the refreshed level raised {type(e).__name__}")
        if self.last_tmp is not None:
            # the data were assigned to the events the user saw; events that joined are NaN
            lvl, assigned = self.last_tmp
            want = np.array([assigned.get(r, np.nan) for r in self.ids(lvl)])
            if not np.array_equal(np.asarray(self.lv[lvl][TMP][:]), want, equal_nan=True):
                bad.append(f"L{lvl}: temporary feature differs from the data just assigned")
        return bad


# ------------------------------------------------------------------------------------------
def gen_history(rng, spec, depth, real, nops):
    """generate ops while executing them on `real` (positions depend on current lengths).

    style 'shift' (60 %): an identity-feature window on the root (or the lowest child) is moved
    with constant width while the members in between keep their boolean pattern; ranges and manual
    exclusions live on the deeper members — the F04 situation.  style 'mixed': anything anywhere.
    """
    n = spec["n"]
    big = bool(spec.get("big"))
    style = "shift" if depth >= 2 and (big or rng.random() < 0.6) else "mixed"
    # big roots: narrow windows far from index 0, so that small members hold large root indices
    base = 0 if not big else (rng.randint(65536, n - 40) if n > 66000 and rng.random() < 0.7
                              else rng.randint(256, n - 40))
    partial = depth >= 2 and rng.random() < 0.5      # refreshes of intermediate members, too
    synced_upto = depth                              # members above this one may be stale
    low = [0] if depth < 3 or rng.random() < 0.6 else [0, 1]        # members that carry windows
    deep = list(range(max(low) + 2, depth + 1)) or [depth]
    windows = {}
    since = 0
    last = None
    if big:
        windows[0] = (base, rng.randint(4, 12))
        yield ("set", 0, 0, windows[0][0], windows[0][0] + windows[0][1])
        yield ("rejuv",)
    for _ in range(nops):
        x = rng.random()
        if not big and rng.random() < 0.16:
            # lazily read scalar features / summaries at any member at any time (also on members
            # below a partial refresh), root data and root calculation-section changes
            y = rng.random()
            if y < 0.45:
                op = ("read", rng.randrange(0, depth + 1), rng.randrange(2))
            elif y < 0.80:
                op = ("summ", rng.randrange(0, depth + 1), rng.randrange(2), rng.randrange(3))
            elif y < 0.92:
                op = ("col", [rng.randint(-5, 20) for _ in range(n)])
            else:
                op = ("calc", rng.randint(1, 60))
            since += 1
            last = op
            yield op
            continue
        if partial and since > 0 and rng.random() < 0.10:
            # refresh an intermediate member only; usually followed by more edits and, at the
            # latest after a few operations, by a refresh from the youngest member
            k = rng.randrange(1, depth)
            if k <= synced_upto and rng.random() < 0.5:
                op = ("tmp", k, [float(rng.randint(0, 30)) for _ in range(rng.randint(1, 4))])
            else:
                op = ("rejuvat", k)
        elif since > 6 or x < 0.22:
            op = ("rejuv",)
        elif x < 0.56:
            if rng.random() < (0.75 if style == "shift" else 0.35):
                lvl = rng.choice(low) if style == "shift" else rng.randrange(0, depth + 1)
                if lvl in windows and rng.random() < 0.85:
                    a, w = windows[lvl]
                    a = max(0, min(n - 1 - w, a + rng.choice([-2, -1, 1, 1, 2])))
                elif big:
                    w = rng.randint(2, 12)
                    a = base + rng.randint(0, 20)
                else:
                    w = rng.randint(1, max(1, n - 4))
                    a = rng.randint(0, max(0, n - 1 - w))
                windows[lvl] = (a, w)
                op = ("set", lvl, 0, a, a + w)
            else:
                lvl = rng.choice(deep) if style == "shift" and rng.random() < 0.85 \
                    else rng.randrange(0, depth + 1)
                f = rng.choice([1, 1, 2, 0]) if not big else rng.choice([1, 1, 2])
                top = n - 1 if f == 0 else (4 if f == 1 else 3)
                lo, hi = rng.randint(-1, top), rng.randint(0, top + 1)
                if rng.random() < 0.15:
                    hi = lo                                    # inactive
                op = ("set", lvl, f, lo, hi)                   # lo > hi: reversed bounds
        elif x < 0.90:
            if style == "shift" and rng.random() < 0.85:
                lvl = rng.choice(deep)
            else:
                lvl = rng.randrange(1, depth + 1) if rng.random() < 0.9 else 0
            man = np.asarray(real.lv[lvl].filter.manual)
            ln = len(man)
            if ln == 0 or rng.random() < 0.02:
                op = ("man", lvl, ln + rng.randint(0, 2), 0)   # error path
            elif (~man).any() and rng.random() < 0.2:
                op = ("man", lvl, int(rng.choice(list(np.where(~man)[0]))), 1)
            else:
                op = ("man", lvl, rng.randrange(ln), 0 if rng.random() < 0.92 else 1)
        elif x < 0.96:
            vals = [float(rng.randint(0, 30)) for _ in range(rng.randint(1, 5))]
            where = rng.choice(["root", "young"])
            # (assigning through a stale member is a usage error: refresh it first)
            op = ("tmp", where, vals) if where == "root" or synced_upto == depth else ("rejuv",)
        else:
            op = ("pix", rng.choice([0.34, 0.25, 0.5]))
        rl = refresh_level(op, depth)
        if rl is not None:
            synced_upto = rl if rl < depth else depth
        since = 0 if rl == depth else since + 1
        last = op
        yield op
    if last is not None and last[0] != "rejuv":
        yield ("rejuv",)
    if not big:
        # synchronised hierarchy: every member, both cache-modelled features, some summaries
        for lvl in range(depth + 1):
            for slot in (0, 1):
                if rng.random() < 0.5:
                    yield ("summ", lvl, slot, rng.randrange(3))
                yield ("read", lvl, slot)
                yield ("summ", lvl, slot, rng.randrange(3))


def tmp_level(op, depth):
    w = op[1]
    return 0 if w == "root" else depth if w == "young" else int(w)


def refresh_level(op, depth):
    """the member whose rejuvenate() the op calls (None: no refresh)"""
    if op[0] == "rejuv":
        return depth
    if op[0] == "rejuvat":
        return op[1]
    if op[0] == "tmp" and tmp_level(op, depth) > 0:
        return tmp_level(op, depth)
    return None


def op_line(op, depth):
    if op[0] == "set":
        return "set %d %d %d %d" % op[1:]
    if op[0] == "man":
        return "man %d %d %d" % op[1:]
    if op[0] == "read":
        return "read %d %d" % op[1:]
    if op[0] == "summ":
        return "summ %d %d %d" % op[1:]
    if op[0] == "col":
        return "setcol 1 " + " ".join(str(int(v)) for v in op[1])
    if op[0] == "calc":
        return "setcalc %d" % op[1]
    k = refresh_level(op, depth)
    if k is not None:
        return "rejuv" if k == depth else f"rejuvat {k}"
    return None


def execute(ctx, spec, depth, ops, rng, lines=None, expect=None, full_last=True, stats=None):
    """run `ops` on a fresh real hierarchy; returns (oracle failures, info).
    When `lines` is given, the protocol lines for the model and the real answers are appended."""
    real = Real(ctx, spec, depth)
    fails = []
    info = {"f04_trigger": False, "hidden": False, "refreshes": 0, "errs": 0, "partial": 0}
    try:
        if lines is not None:
            lines.append(f"new 1 1 {spec['n']} {depth}")
            expect.append(("ok", None))
            for col in (list(range(spec["n"])), spec["area_cvx"], spec["bright_avg"]):
                lines.append("feat " + " ".join(str(v) for v in col))
                expect.append(("ok", None))
            for col in (list(range(spec["n"])), real.col2):
                lines.append("col " + " ".join(str(v) for v in col))
                expect.append(("ok", None))
            lines.append("init")
            expect.append(("ok", None))
        it = ops(real) if callable(ops) else iter(ops)
        done = []
        pending = list(it) if not callable(ops) else None
        k = 0
        forced = []
        try:
            while True:
                if forced:
                    op = forced.pop()
                elif pending is not None:
                    if k >= len(pending):
                        break
                    op = pending[k]
                    k += 1
                else:
                    try:
                        op = next(it)
                    except StopIteration:
                        break
                    k += 1
                done.append(op)
                rl = refresh_level(op, depth)
                refresh = rl is not None
                if refresh:
                    before = [(np.asarray(L.filter.all).copy(), real.ids(i))
                              for i, L in enumerate(real.lv)]
                ans = real.apply(op)
                if ans.startswith("err"):
                    info["errs"] += 1
                if op[0] in ("read", "summ"):
                    info["lazy"] = info.get("lazy", 0) + 1
                    if not real.synced:
                        info["lazy_stale"] = info.get("lazy_stale", 0) + 1
                    if ans == "err:index" and pending is None:
                        # numpy refused a stale member (lengths differ): the caches above the
                        # failure are half filled; re-synchronise before going on
                        info["lazy_index_error"] = info.get("lazy_index_error", 0) + 1
                        forced.append(("rejuv",))
                    if real.lazy_fail:
                        fails.extend(real.lazy_fail)
                        break
                ln = op_line(op, depth)
                if lines is not None and ln is not None:
                    lines.append(ln)
                    expect.append((ans, ("op", len(done) - 1)))
                if ans != "ok" and refresh:
                    fails.append(f"rejuvenate raised {ans}")
                    break
                if refresh and ans == "ok":
                    info["refreshes"] += 1
                    if pending is not None:
                        full = full_last and k == len(pending)
                    else:
                        full = rng.random() < 0.15
                    if rl < depth:
                        info["partial"] += 1
                    bad = real.oracle(rng, full, upto=rl)
                    for i in range(1, rl + 1):
                        pa_old, _ = before[i - 1]
                        _, ids_old = before[i]
                        pa_new = np.asarray(real.lv[i - 1].filter.all)
                        if (pa_old.shape == pa_new.shape and (pa_old == pa_new).all()
                                and ids_old != real.ids(i)):
                            info["f04_trigger"] = True
                        if real.M[i] - set(real.ids(i)):      # excluded events that are hidden
                            info["hidden"] = True
                    if lines is not None:
                        for i in range(rl + 1):
                            lines.append(f"calc {i}")
                            expect.append((real.calc_token(i), ("calc", i, len(done) - 1)))
                        for i in range(depth + 1):
                            lines.append(f"state {i}")
                            expect.append((real.canon(i), ("state", i, len(done) - 1, i <= rl)))
                        # members below the refreshed one are stale: their n-d data are not read
                        toks = {i: real.tokens(i, rng, full) for i in range(rl + 1)}
                        expect[-1] = (expect[-1][0],
                                      ("state", depth, len(done) - 1, depth <= rl, toks))
                    if bad:
                        fails.extend(bad)
                        break
        except HErr:
            raise
        except Exception as e:      # dclab raised while the harness was looking at the hierarchy
            fails.append(f"observing the hierarchy raised {type(e).__name__}")
        info["ops"] = done
    finally:
        real.close()
    return fails, info


def fails_on_real(ctx, spec, depth, ops):
    import random
    try:                                      # deterministic sampler for shrinker and replay
        f, _ = execute(ctx, spec, depth, list(ops), random.Random(20260929), full_last=True)
    except HErr:
        return []
    return f


def drop_level(ops, depth, j):
    """remove hierarchy level j (1 ≤ j ≤ depth) from a history"""
    out = []
    for op in ops:
        if op[0] in ("set", "man", "rejuvat", "read", "summ") \
                or (op[0] == "tmp" and isinstance(op[1], int)):
            lvl = op[1]
            if lvl == j:
                continue
            if lvl > j:
                op = (op[0], lvl - 1) + tuple(op[2:])
            if op[0] in ("rejuvat", "tmp") and op[1] >= depth - 1:
                op = ("rejuv",) if op[0] == "rejuvat" else ("tmp", "young", op[2])
        out.append(op)
    return out


def shrink(ctx, spec, depth, ops):
    ops = [tuple(o) for o in ops]
    first = fails_on_real(ctx, spec, depth, ops)
    if not first:
        return depth, ops, first

    def cls(fl):
        return {f.split(":")[-1].strip()[:25] for f in fl}
    want = cls(first[:1])

    def still(d):
        return lambda cand: bool(cls(fails_on_real(ctx, spec, d, cand)[:1]) & want)
    ops = common.ddmin(ops, still(depth), max_tests=250)
    changed = True
    while changed and depth > 1:
        changed = False
        for j in range(depth, 0, -1):
            cand = drop_level(ops, depth, j)
            if cand and still(depth - 1)(cand):
                ops, depth, changed = cand, depth - 1, True
                break
    ops = common.ddmin(ops, still(depth), max_tests=150)
    return depth, ops, fails_on_real(ctx, spec, depth, ops)


def script(spec, depth, ops):
    """self-contained replay script for humans"""
    s = ["# root: %s with %d events; userdef0 = arange(n) (identity), area_cvx = %s, bright_avg = %s"
         % (spec["kind"], spec["n"], spec.get("area_cvx", "RandomState(seed).randint(0, 5, n)"),
            spec.get("bright_avg", "…randint(0, 4, n)")),
         "L = [root]; " + "; ".join(f"L.append(RTDC_Hierarchy(L[{i}]))" for i in range(depth))]
    for op in ops:
        if op[0] == "set":
            s.append(f"L[{op[1]}].config['filtering']['{FILT[op[2]]} min'] = {op[3]}; "
                     f"L[{op[1]}].config['filtering']['{FILT[op[2]]} max'] = {op[4]}")
        elif op[0] == "man":
            s.append(f"L[{op[1]}].filter.manual[{op[2]}] = {bool(op[3])}")
        elif op[0] == "rejuv":
            s.append(f"L[{depth}].rejuvenate()")
        elif op[0] == "rejuvat":
            s.append(f"L[{op[1]}].rejuvenate()")
        elif op[0] == "tmp":
            s.append(f"set_temporary_feature(L[{tmp_level(op, depth)}], '{TMP}', "
                     f"cycle({op[2]}))")
        elif op[0] == "pix":
            s.append(f"L[0].config['imaging']['pixel size'] = {op[1]}")
        elif op[0] == "col":
            s.append(f"set_temporary_feature(L[0], '{TMP2}', {list(op[1])})")
        elif op[0] == "calc":
            s.append(f"L[0].config['calculation']['{CALC_KEY}'] = {float(op[1])}")
        elif op[0] == "read":
            s.append(f"np.asarray(L[{op[1]}]['{SLOTS[op[2]]}'][:])")
        elif op[0] == "summ":
            s.append(f"L[{op[1]}]['{SLOTS[op[2]]}'].{['min', 'max', 'mean'][op[3]]}()")
    return s


def report(ctx, spec, depth, ops, fails):
    d2, o2, f2 = shrink(ctx, spec, depth, ops)
    if not f2:
        d2, o2, f2 = depth, ops, fails
    sp = {k: v for k, v in spec.items() if k != "path"}
    ctx.violation("spec", f2[0] + f" (depth {d2}, {len(o2)} ops)",
                  {"root": sp, "depth": d2, "ops": [list(o) for o in o2],
                   "failures": f2[:6], "script": script(sp, d2, o2)})


# ------------------------------------------------------------------------------------------
def error_paths(ctx):
    try:
        _error_paths(ctx)
    except Exception as e:
        ctx.violation("spec", f"unsynchronised-hierarchy error-path scenario raised "
                              f"{type(e).__name__}", {"part": "error_paths"})


def _error_paths(ctx):
    """API error paths of unsynchronised hierarchies (replayed apart from the histories)"""
    from dclab.rtdc_dataset import RTDC_Hierarchy
    from dclab.rtdc_dataset.fmt_hierarchy import hfilter
    spec = make_spec(ctx.rng, "dict")
    root = open_root(ctx, spec)
    c1 = RTDC_Hierarchy(root)
    c2 = RTDC_Hierarchy(c1)
    root.config["filtering"]["userdef0 min"] = 1.0
    root.config["filtering"]["userdef0 max"] = float(spec["n"] - 2)
    root.apply_filter()                       # the parent changed, the children did not hear
    got = []
    try:
        c1.filter.apply_manual_indices(c1, [1])
        got.append("ok")
    except hfilter.HierarchyFilterError:
        got.append("err:hierarchy")
    except Exception as e:
        got.append(common.err_class(e))
    # (public return value; nothing was excluded, so the list of excluded root events is empty)
    r1 = c1.filter.retrieve_manual_indices(c1)     # must not be confused by the changed parent
    got.append("kept" if [int(x) for x in r1] == [] else "changed")
    c2.rejuvenate()
    try:
        c1.filter.apply_manual_indices(c1, [1])
        r2 = [int(x) for x in c1.filter.retrieve_manual_indices(c1)]
        got.append("ok" if not c1.filter.manual[0] and r2 == [1] else "wrong")
    except BaseException as e:
        got.append(common.err_class(e))
    # a member two levels below a partial refresh must know that its parent changed
    # (`apply_manual_indices` is documented to refuse working on an outdated index mapping)
    d1 = RTDC_Hierarchy(open_root(ctx, spec))
    d2 = RTDC_Hierarchy(d1)
    d3 = RTDC_Hierarchy(d2)
    d1.hparent.config["filtering"]["userdef0 min"] = 2.0
    d1.hparent.config["filtering"]["userdef0 max"] = float(spec["n"] - 1)
    d1.rejuvenate()                           # root and d1 only
    deep = []
    for ch in (d2, d3):
        deep.append(bool(ch.filter.parent_changed))
        try:
            ch.filter.apply_manual_indices(ch, [2])
            deep.append("ok")
        except hfilter.HierarchyFilterError:
            deep.append("err:hierarchy")
        except Exception as e:
            deep.append(common.err_class(e))
    ctx.stat("error_path_checks")
    if deep != [True, "err:hierarchy", True, "err:hierarchy"]:
        ctx.violation("spec", f"members below a partially refreshed hierarchy answered {deep} to "
                              f"(parent_changed, apply_manual_indices), expected "
                              f"[True, 'err:hierarchy', True, 'err:hierarchy']",
                      {"part": "error_paths"})
    if got != ["err:hierarchy", "kept", "ok"]:
        ctx.violation("spec", f"unsynchronised-hierarchy error paths answered {got}, expected "
                              f"['err:hierarchy', 'kept', 'ok']", {"part": "error_paths"})


def access_scenario(ctx):
    """fixed list of index expressions on every feature kind, members of a dict and an hdf5 root"""
    from dclab.rtdc_dataset import RTDC_Hierarchy
    pats = [("int", 0), ("neg", -1), ("neg", -3), ("slice", slice(None, None, 2)),
            ("slice", slice(1, -1, None)), ("slice", slice(None, None, -1)),
            ("slice", slice(4, 0, -2)), ("bool", None), ("sorted/list", [0, 2, 3]),
            ("reversed/list", [3, 2, 0]), ("perm/list", [2, 0, 1]), ("perm/array", None),
            ("perm/list", [3, 1, 0, 2]), ("repeat/list", [1, 1, 0]), ("repeat/array", None),
            ("empty/list", []), ("oob", 99), ("oob", [0, 99])]
    try:
        for kind in ("dict", "hdf5"):
            spec = make_spec(ctx.rng, kind)
            spec["n"], spec["tokens"] = 12, list(range(12))
            spec["area_cvx"] = [i % 5 for i in range(12)]
            spec["bright_avg"] = [i % 4 for i in range(12)]
            if kind == "hdf5":
                spec["path"] = ctx.workdir / "access.rtdc"
            root = open_root(ctx, spec)
            c1 = RTDC_Hierarchy(root)
            c2 = RTDC_Hierarchy(c1)
            root.config["filtering"]["userdef0 min"] = 1.0
            root.config["filtering"]["userdef0 max"] = 10.0
            c1.filter.manual[4] = False
            c2.rejuvenate()
            for i, (L, P) in enumerate([(c1, root), (c2, c1)], start=1):
                n = len(L)
                pp = []
                for k, ix in pats:
                    if k == "bool":
                        ix = np.arange(n) % 3 != 1
                    elif k == "perm/array":
                        ix = np.array([2, 0, 1])
                    elif k == "repeat/array":
                        ix = np.array([0, 2, 2, 1])
                    pp.append((k, ix))
                bad = access_patterns(L, P, i, ctx.rng, 0, False, patterns=pp, all_feats=True)
                ctx.stat("access_scenario_members")
                if bad:
                    ctx.violation("spec", f"{kind} root, " + bad[0], {"part": "access_scenario"})
                    return
            if hasattr(root, "h5file"):
                root.h5file.close()
    except Exception as e:
        ctx.violation("spec", f"access scenario raised {type(e).__name__}: {e}"[:200],
                      {"part": "access_scenario"})


def intermediate_refresh(ctx):
    """F32 (Properties/C04.lean: intermediate_refresh_witness, history h1) replayed on dclab"""
    from dclab.rtdc_dataset import RTDC_Hierarchy, feat_temp
    try:
        spec = {"kind": "dict", "n": 12, "tokens": list(range(12)),
                "area_cvx": [i % 5 for i in range(12)], "bright_avg": [0] * 12}
        root = open_root(ctx, spec)
        c1 = RTDC_Hierarchy(root)
        c2 = RTDC_Hierarchy(c1)
        c2.filter.manual[5] = False
        root.config["filtering"]["userdef0 min"] = 2.0
        root.config["filtering"]["userdef0 max"] = 7.0
        feat_temp.set_temporary_feature(c1, TMP, np.arange(len(c1), dtype=float))
        c2.rejuvenate()
        ids = [int(v) for v in c2["userdef0"][:]]
        excluded = [r for r, m in zip(ids, c2.filter.manual) if not m]
        view_ok = ids == [int(v) for v in np.asarray(c1["userdef0"][:])[c1.filter.all]]
    except Exception as e:
        ctx.violation("spec", f"intermediate-refresh scenario raised {type(e).__name__}",
                      {"part": "intermediate_refresh"})
        return
    ctx.stat("f32_scenario_replays")
    if not view_ok:
        ctx.violation("spec", "after an intermediate refresh and a refresh of the youngest member "
                              "the child is not the view of its parent",
                      {"part": "intermediate_refresh"})
    if 5 in ids and 5 not in excluded:
        ctx.violation("spec", "F32: refreshing an intermediate member (set_temporary_feature on L1) "
                              "after an ancestor change loses the pending manual exclusion of root "
                              "event 5 at L2",
                      {"root": {k: v for k, v in spec.items()}, "depth": 2,
                       "ops": [["man", 2, 5, 0], ["set", 0, 0, 2, 7], ["tmp", 1, [1.0]], ["rejuv"]],
                       "part": "intermediate_refresh"})


def stale_mixed(ctx):
    """Properties/C04.lean `stale_member_mixed_witness` (history hx0) replayed on dclab: a member
    below a partial refresh shows a feature it read before frozen, a feature it reads for the first
    time through the refreshed parent, and its old length"""
    from dclab.rtdc_dataset import RTDC_Hierarchy, feat_temp
    try:
        spec = {"kind": "dict", "n": 12, "tokens": list(range(12)),
                "area_cvx": [i % 5 for i in range(12)], "bright_avg": [0] * 12}
        root = open_root(ctx, spec)
        feat_temp.set_temporary_feature(root, TMP2, np.arange(12, dtype=float))
        c1 = RTDC_Hierarchy(root)
        c2 = RTDC_Hierarchy(c1)
        first = [int(v) for v in c2[LAZY][:]]
        len(c2)        # (`_length` is lazy after the constructor, cached after any later refresh)
        root.config["filtering"]["userdef0 min"] = 2.0
        root.config["filtering"]["userdef0 max"] = 7.0
        c1.rejuvenate()
        got = (first, [int(v) for v in c2[LAZY][:]], [int(v) for v in c2[TMP2][:]], int(len(c2)))
        c2.rejuvenate()
        after = ([int(v) for v in c2[LAZY][:]], [int(v) for v in c2[TMP2][:]], int(len(c2)))
    except Exception as e:
        ctx.violation("spec", f"stale-member scenario raised {type(e).__name__}",
                      {"part": "stale_mixed"})
        return
    ctx.stat("stale_member_witness_replays")
    if after != ([2, 3, 4, 5, 6, 7], [2, 3, 4, 5, 6, 7], 6):
        ctx.violation("spec", f"after its own refresh the member shows {after}, expected root "
                              f"events 2..7 in both features", {"part": "stale_mixed"})
    elif got != (list(range(12)), list(range(12)), [2, 3, 4, 5, 6, 7], 12):
        ctx.violation("mirror", f"stale member below a partial refresh shows {got}; the model "
                                f"(stale_member_mixed_witness) says frozen 0..11 / current 2..7 / "
                                f"len 12", {"correspondence": "Model/HierCache.lean readArr vs "
                                            "ChildScalar.__array__", "part": "stale_mixed"})


def norm_ops(ops):
    out = []
    for o in ops:
        o = tuple(o)
        out.append((o[0], o[1], list(o[2])) if o[0] == "tmp" else
                   (o[0], list(o[1])) if o[0] == "col" else o)
    return out


def corpus(ctx):
    """minimised past failures, replayed first (property oracle on the real code)"""
    for f in sorted((common.VERIF / "corpus" / "C04").glob("*.json")):
        d = json.loads(f.read_text())
        ops = norm_ops(d["ops"])
        fails = fails_on_real(ctx, dict(d["root"]), d["depth"], ops)
        ctx.stat("corpus_replays")
        if fails:
            ctx.stat("oracle_failures")
            report(ctx, dict(d["root"]), d["depth"], ops, fails)


def run(ctx):
    common.import_dclab()
    corpus(ctx)
    nhist = ctx.n(200, 3000)
    if not ctx.lean_ok:                      # search-only mode (10x), keep inside the tier's budget
        nhist = min(nhist, 4000 if ctx.thorough else 550)
    budget = 780 if ctx.thorough else 95     # seconds of CPU time of this process for the histories
    h5specs = []
    for _ in range(3 if not ctx.thorough else 12):
        sp = make_spec(ctx.rng, "hdf5")
        sp["path"] = ctx.workdir / f"root{len(h5specs)}.rtdc"
        h5specs.append(sp)
    lines, expect, cases = [], [], []
    error_paths(ctx)
    intermediate_refresh(ctx)
    access_scenario(ctx)
    stale_mixed(ctx)
    for h in range(nhist):
        if time.process_time() > budget:       # CPU time of this process: machine load must not decide what is explored
            ctx.stat("histories_skipped_for_time", nhist - h)
            break
        x = ctx.rng.random()
        if x < 0.12:
            spec = make_big_spec(ctx.rng)
        elif x < 0.38:
            spec = ctx.rng.choice(h5specs)
        else:
            spec = make_spec(ctx.rng, "dict")
        big = bool(spec.get("big"))
        depth = ctx.rng.choice([1, 2, 2, 3, 3, 4]) if not big else ctx.rng.choice([2, 3, 3, 4])
        nops = ctx.rng.randint(10, 80 if ctx.thorough else 45)
        start = len(lines)
        fails, info = execute(
            ctx, spec, depth,
            lambda real: gen_history(ctx.rng, spec, depth, real, nops),
            ctx.rng, lines=lines if ctx.lean_ok and not big else None, expect=expect)
        ops = info["ops"]
        sp = {k: v for k, v in spec.items() if k != "path"}
        ctx.stat("histories")
        ctx.stat(f"depth_{depth}")
        ctx.stat(f"root_{spec['kind']}" + ("_big_scalar_only(oracle only)" if big else ""))
        ctx.stat("ops", len(ops))
        ctx.stat("refreshes", info["refreshes"])
        ctx.stat("refreshes_of_intermediate_members", info["partial"])
        if info["partial"]:
            ctx.stat("histories_with_partial_refresh")
        ctx.stat("op_errors(err:index)", info["errs"])
        ctx.stat("lazy_reads_and_summaries", info.get("lazy", 0))
        ctx.stat("lazy_reads_on_unsynchronised_hierarchy", info.get("lazy_stale", 0))
        ctx.stat("lazy_reads_refused_by_numpy(err:index)", info.get("lazy_index_error", 0))
        if info["f04_trigger"]:
            ctx.stat("histories_with_same_pattern_other_events")
        if info["hidden"]:
            ctx.stat("histories_with_hidden_manual_ids")
        ctx.case((json.dumps(sp, sort_keys=True), depth, tuple(map(tuple, map(list, ops)))),
                 nontrivial=info["f04_trigger"] or info["hidden"],
                 sample={"root": f"{spec['kind']} n={spec['n']}", "depth": depth,
                         "ops": [list(o) for o in ops[:8]], "n_ops": len(ops)} if h < 3 else None)
        if not big:
            cases.append((spec, depth, ops, start, len(lines)))
        if fails:
            ctx.stat("oracle_failures")
            if sum(1 for v in ctx.violations if v["kind"] == "spec") < 2:
                report(ctx, spec, depth, ops, fails)
            if len(ctx.violations) >= 2 and h > 20:
                break
    for k, v in sorted(PSTAT.items()):
        ctx.stat(k, v)
    PSTAT.clear()
    if not ctx.lean_ok:
        return
    out = ctx.lean("C04", lines)
    diffs = []
    for spec, depth, ops, a, b in cases:
        for j in range(a, b):
            want, tag = expect[j]
            got = out[j]
            if tag and tag[0] == "state":
                model = got.split(" view=")[0]
                flags = got[len(model):]
                if not tag[3]:
                    # stale member: `_length` may or may not be cached in dclab; not compared
                    model, want = model.split(" ", 1)[1], want.split(" ", 1)[1]
                if "mr=?" in want.split(" "):
                    # this dclab has no `_man_root_ids` attribute (private name): not compared
                    ctx.note("HierarchyFilter._man_root_ids is absent: the model's private "
                             "bookkeeping field `mr` is not compared (manual exclusions are "
                             "judged through filter.manual / filter.all / feature data)")
                    model, want = drop_mr(model), drop_mr(want)
                if sort_mr(model) != want:
                    diffs.append((spec, depth, ops[:tag[2] + 1], lines[j], want, got))
                    break
                fl = flags.split()
                must = fl if tag[3] else [x for x in fl if x[:3] in ("low", "up=")]
                if any(not x.endswith("=1") for x in must):
                    ctx.violation("mirror", f"the model's own spec flags are '{flags.strip()}' on "
                                            f"a history (theorems say 1)", {"line": lines[j]})
                if len(tag) > 4:
                    bad = token_diff(spec, depth, tag[4], out, j)
                    if bad:
                        diffs.append((spec, depth, ops[:tag[2] + 1], lines[j], bad, "tokens"))
                        break
            elif got != want:
                diffs.append((spec, depth, ops, lines[j], want, got))
                break
    ctx.stat("model_lines", len(lines))
    if diffs and not any(v["kind"] == "spec" for v in ctx.violations):
        # mirror differs, property oracle silent so far: extended search on the implementation
        found = False
        for spec, depth, ops, *_ in diffs[:40]:
            f = fails_on_real(ctx, spec, depth, ops)
            if f:
                report(ctx, spec, depth, ops, f)
                found = True
                break
        if not found:
            for _ in range(nhist * 10):
                spec = make_spec(ctx.rng, "dict")
                depth = ctx.rng.choice([2, 3, 4])
                fails, info = execute(ctx, spec, depth,
                                      lambda real: gen_history(ctx.rng, spec, depth, real, 40),
                                      ctx.rng)
                if fails:
                    report(ctx, spec, depth, info["ops"], fails)
                    found = True
                    break
        if not found:
            spec, depth, ops, ln, want, got = diffs[0]
            sp = {k: v for k, v in spec.items() if k != "path"}
            ctx.violation("mirror", f"{len(diffs)} histories: dclab and the Lean model differ; "
                                    f"first at '{ln}': impl '{want}' model '{got}'",
                          {"correspondence": "Drive/C04.lean vs RTDC_Hierarchy/HierarchyFilter",
                           "root": sp, "depth": depth, "ops": [list(o) for o in ops],
                           "impl": str(want), "model": str(got)})


def token_diff(spec, depth, toks, out, j):
    """tokens read from the real levels vs root tokens at the *model's* ids"""
    rt = spec["tokens"]
    for i in sorted(toks):
        line = out[j - depth + i]
        ids = line.split(" ids=")[1].split(" ")[0]
        ids = [int(x) for x in ids.split(",")] if ids else []
        for f, pairs in toks[i].items():
            for p, t in pairs:
                if p >= len(ids) or t != ctok(f, rt[ids[p]]):
                    return f"L{i} {f}[{p}] token {t}, model expects root event {ids[p:p+1]}"
    return None


def replay(ctx, data):
    rp = data["replay"] if "replay" in data and "ops" not in data else data
    if "ops" not in rp:
        run(ctx)
        return bool(ctx.violations)
    common.import_dclab()
    spec = dict(rp["root"])
    ops = norm_ops(rp["ops"])
    f = fails_on_real(ctx, spec, rp["depth"], ops)
    for line in f[:5]:
        print("  replay:", line)
    return bool(f)
