"""C03 — The combined event filter equals the specification of the current settings.

Seeded histories of filter operations drive the *real* `RTDCBase`/`Filter`/`PolygonFilter`
objects in-process.  After every operation the answer — and after every `apply_filter` the
arrays `ds.filter.all/box/polygon/invalid` — are compared with the Lean model
(`Drive/C03.lean`, impl mirror and `spec`), and with a stateless reference evaluation of the
current settings written directly in Python (the property's own oracle).
"""
import json
import math

import numpy as np

from . import common
from .filt_util import tok, bits, ChoiceRecorder

ID = "C03"
LEAN_MODULES = ["DclabModel.Properties.C03"]
RULE = ("seeded histories of 5..60 operations on a dict-backed dataset with 1..25 events and 2..7 "
        "innate scalar features plus the computed ones they make available and that have NOT been "
        "accessed when the filter is applied (index, area_ratio, the plugin feature verif_anc, in "
        "a few histories emodulus); the harness never reads the dataset under test, all reference "
        "data come from a twin with every feature accessed (small integers so that ties with the bounds are frequent, NaN and +-inf "
        "anywhere; thorough: also dyadic floats): set/change a min or max key (reversed, equal, "
        "+-inf, on absent features), remove keys (pop), create polygon filters, edit ONE of axes / "
        "points / inverted of a registered polygon filter in place or re-assign all three, add/"
        "remove polygon filters, toggle 'remove invalid events' and 'enable filters', set "
        "'limit events' in {0,1,2,n/2,n,n+3}, edit ds.filter.manual, reset_filter(), "
        "apply_filter() with and without force; about a third of the applies happen while a range is "
        "half-set (the apply raises) and the history continues, often by restoring the settings "
        "applied last; while a limit is active 30% of the steps change the qualifying events to a "
        "different set of the same size (manual swap, shifted range on `index`). After every apply the four arrays are compared "
        "with the Lean model and ds.filter.all with (a) a stateless Python evaluation of "
        "ds.config['filtering'] and (b) a fresh dataset given the same settings. distinct = "
        "distinct histories with >= 2 successful applies and a range change/removal or polygon "
        "modification between two of them. Thorough tier additionally enumerates all 16105 "
        "sequences of <= 4 macro operations (range set / changed+reversed / removed, polygon "
        "added / modified+inverted / axes swapped in place / removed, invalid, limit, manual, reset; each followed by an "
        "apply) on a fixed 4-event dataset.")
TRUSTED_BASE = [
    "modelled, not verified: NumPy comparison semantics (<=, isnan, isinf) beyond the Val order, "
    "hashobj/md5 of the polygon content (assumed injective), warnings",
    "point-in-polygon is an abstract parameter `pip` (property C15): the harness observes "
    "dclab's own points_in_poly for every polygon and hands the table to the model",
    "np.random.choice (seed 47) is recorded while dclab runs, checked for ChoiceOK and handed "
    "to the model",
    "headline theorem assumes ValidHist: polygon filters in the settings have their axes in "
    "the dataset (otherwise update raises a KeyError that is not modelled); applies that raise "
    "because a range is half-set are part of the histories (F25 fixed by fix-F25)",
]
ASSUMPTIONS = ["range bounds are not NaN", "polygon filter ids in the settings are registered "
               "instances whose axes exist in the dataset", "forced feature names are valid "
               "scalar feature names", "the set of features and the number of events of the "
               "dataset do not change during a history"]
NOT_PROVED = ["KeyError path of update (polygon filter whose axes are missing from the dataset) and "
              "ValueError for unknown forced feature names: outside the model",
              "pip is a parameter (C15 covers containment); md5 injectivity",
              "hierarchy children (property C04) and the 'hierarchy parent' key"]

#: alphabetical, so that np.unique's order of feature names is the order of the ids
FEATS = ["area_cvx", "area_msd", "area_ratio", "area_um", "aspect", "bright_avg", "deform",
         "emodulus", "fl1_max", "index", "pos_x", "tilt", "verif_anc"]
assert FEATS == sorted(FEATS)
PRESENT_POOL = ["area_cvx", "area_msd", "area_um", "aspect", "bright_avg", "deform", "pos_x"]
ABSENT = ["fl1_max", "tilt"]
FID = {f: i for i, f in enumerate(FEATS)}

#: computed (ancillary) scalar features a dataset offers without the harness having touched them:
#:   area_ratio  (rapid ancillary)      <- area_cvx, area_msd      (0/0 = nan, x/0 = inf)
#:   verif_anc   (plugin, non-rapid)    <- bright_avg              (1 -> inf, 3 -> nan)
#:   emodulus    (non-rapid ancillary)  <- area_um, deform + setup/calculation metadata (nan
#:                                         outside the look-up table)
EMOD_CFG = {"setup": {"channel width": 20, "flow rate": 0.04},
            "imaging": {"pixel size": 0.34},
            "calculation": {"emodulus lut": "LE-2D-FEM-19", "emodulus medium": "CellCarrier",
                            "emodulus temperature": 23.0,
                            "emodulus viscosity model": "buyukurganci-2022"}}


def ensure_plugin():
    """register the plugin feature `verif_anc` once per process"""
    common.import_dclab()
    from dclab import definitions as dfn
    if dfn.scalar_feature_exists("verif_anc"):
        return
    from dclab.rtdc_dataset.feat_anc_plugin import PlugInFeature

    def compute(ds):
        x = np.asarray(ds["bright_avg"][:], dtype=np.float64)
        with np.errstate(all="ignore"):
            return {"verif_anc": np.where(x == 3, np.nan, np.where(x == 1, np.inf, x))}
    PlugInFeature("verif_anc", {
        "method": compute, "description": "verification plugin feature",
        "long description": "nan/inf pattern derived from bright_avg",
        "feature names": ["verif_anc"], "feature labels": ["Verif anc"],
        "features required": ["bright_avg"], "config required": [],
        "method check required": lambda x: True, "scalar feature": [True], "version": "1"})


def ancillaries(present, emod):
    anc = []
    if "area_cvx" in present and "area_msd" in present:
        anc.append("area_ratio")
    if "bright_avg" in present:
        anc.append("verif_anc")
    if emod and "area_um" in present and "deform" in present:
        anc.append("emodulus")
    return anc

SHAPES = [
    [(0.5, 0.5), (3.5, 0.5), (3.5, 3.5), (0.5, 3.5)],
    [(-0.5, -0.5), (4.5, -0.5), (-0.5, 4.5)],
    [(-1.5, -1.5), (6.5, -1.5), (6.5, 6.5), (-1.5, 6.5)],
    [(-0.5, -0.5), (5.5, -0.5), (5.5, 1.5), (1.5, 1.5), (1.5, 5.5), (-0.5, 5.5)],
    [(2.25, 2.25), (2.75, 2.25), (2.5, 2.75)],
    [(0.5, 4.5), (4.5, 0.5), (4.5, 4.5), (0.5, 0.5)],          # self-intersecting bow tie
]


def untok(t):
    if t == "nan":
        return math.nan
    if t == "+inf":
        return math.inf
    if t == "-inf":
        return -math.inf
    if "/" in t:
        p, q = t.split("/")
        return int(p) / int(q)
    return float(int(t))


# --------------------------------------------------------------------------------------------
def gen_value(rng, thorough):
    r = rng.random()
    if r < 0.08:
        return math.nan
    if r < 0.13:
        return rng.choice([math.inf, -math.inf])
    if thorough and r < 0.3:
        return rng.randint(-16, 48) / 8.0
    return float(rng.randint(0, 5))


def gen_bound(rng, thorough, vals=None):
    r = rng.random()
    if vals and rng.random() < 0.35:          # tie with a value of the data
        v = untok(rng.choice(vals))
        if not math.isnan(v):
            return v
    if r < 0.06:
        return rng.choice([math.inf, -math.inf])
    if thorough and r < 0.2:
        return rng.randint(-16, 48) / 8.0
    return float(rng.randint(-1, 6))


def gen_history(rng, thorough, emod=False):
    n = rng.choice([1, 2, 3, 5, 8, 13, 25])
    present = sorted(rng.sample(PRESENT_POOL, rng.randint(2, len(PRESENT_POOL))))
    if emod:
        present = sorted(set(present) | {"area_um", "deform"})
    data = {f: [tok(gen_value(rng, thorough)) for _ in range(n)] for f in present}
    if emod:        # realistic values: partly inside, partly outside the look-up table
        data["area_um"] = [tok(rng.choice([30.0, 60.0, 120.0, 250.0, 400.0, math.nan]))
                           for _ in range(n)]
        data["deform"] = [tok(rng.choice([0.005, 0.02, 0.08, 0.3])) for _ in range(n)]
    anc = ancillaries(present, emod)
    axes_pool = present + ["index"] + anc
    filterable = present + ["index"] + anc + ABSENT
    nops = rng.randint(5, 14) if emod else rng.randint(5, 60)
    ops = []
    if anc and rng.random() < 0.5:
        ops.append(("invalid", 1))
    keys = {}          # (feat, ismax) -> value token (generator's view, to steer validity)
    applied = {}       # the keys at the last apply that did not raise
    polys = {}         # pid -> [ax, ay, shape, inv]  (names of the axes)
    active = []
    manual = [True] * n
    limit = 0

    def eqcard():
        """change the qualifying events to a different set of (mostly) the same size"""
        out = []
        r2 = rng.random()
        inc = [i for i in range(n) if manual[i]]
        exc = [i for i in range(n) if not manual[i]]
        if r2 < 0.45 and inc and exc:
            i, j = rng.choice(inc), rng.choice(exc)
            out += [("manual", i, 0), ("manual", j, 1)]
            manual[i], manual[j] = False, True
        elif r2 < 0.55 and inc:
            i = rng.choice(inc)
            out.append(("manual", i, 0))
            manual[i] = False
        else:
            lo, hi = keys.get(("index", 0)), keys.get(("index", 1))
            if lo is not None and hi is not None and "/" not in lo + hi and "inf" not in lo + hi \
                    and "nan" not in lo + hi:
                sh = rng.choice([-1, 1])
                lo, hi = str(int(lo) + sh), str(int(hi) + sh)
            else:
                lo = rng.randint(1, max(n - 1, 1))
                lo, hi = str(lo), str(lo + rng.randint(0, max(n // 2, 1)))
            out += [("set", FID["index"], 0, lo), ("set", FID["index"], 1, hi)]
            keys[("index", 0)], keys[("index", 1)] = lo, hi
        return out

    def half_set():
        return [f for f in filterable if ((f, 0) in keys) != ((f, 1) in keys)]

    while len(ops) < nops:
        r = rng.random()
        if limit > 0 and rng.random() < 0.3:
            ops += eqcard()
            if not half_set():
                ops.append(("apply", []))
                applied = dict(keys)
            continue
        if r < 0.30:
            f = rng.choice(filterable if rng.random() < 0.85 else present)
            v = gen_bound(rng, thorough, data.get(f))
            if rng.random() < 0.8:      # both keys
                w = v if rng.random() < 0.12 else gen_bound(rng, thorough, data.get(f))
                ops.append(("set", FID[f], 0, tok(v)))
                ops.append(("set", FID[f], 1, tok(w)))
                keys[(f, 0)], keys[(f, 1)] = tok(v), tok(w)
            else:
                mx = rng.randint(0, 1)
                ops.append(("set", FID[f], mx, tok(v)))
                keys[(f, mx)] = tok(v)
        elif r < 0.40:
            cand = sorted({f for (f, _m) in keys})
            if cand and rng.random() < 0.9:
                f = rng.choice(cand)
                which = [0, 1] if rng.random() < 0.8 else [rng.randint(0, 1)]
                for mx in which:
                    ops.append(("pop", FID[f], mx))
                    keys.pop((f, mx), None)
            else:
                ops.append(("pop", FID[rng.choice(filterable)], rng.randint(0, 1)))
        elif r < 0.50:
            pid = rng.randint(0, 3)
            if pid in polys and rng.random() < 0.7:
                # edit ONE attribute of a registered polygon filter in place
                cur = polys[pid]
                r2 = rng.random()
                if r2 < 0.45:
                    if rng.random() < 0.4:
                        cur[0], cur[1] = cur[1], cur[0]
                    else:
                        k = rng.randint(0, 1)
                        cur[k] = rng.choice([f for f in axes_pool if f != cur[1 - k]])
                    ops.append(("polyaxes", pid, FID[cur[0]], FID[cur[1]]))
                elif r2 < 0.75:
                    cur[2] = rng.randrange(len(SHAPES))
                    ops.append(("polypoints", pid, cur[2]))
                else:
                    cur[3] = 1 - cur[3]
                    ops.append(("polyinv", pid, cur[3]))
            else:
                ax, ay = rng.sample(axes_pool, 2)
                polys[pid] = [ax, ay, rng.randrange(len(SHAPES)), int(rng.random() < 0.3)]
                ops.append(("polyset", pid, FID[ax], FID[ay], polys[pid][2], polys[pid][3]))
        elif r < 0.56:
            if polys:
                pid = rng.choice(sorted(polys))
                ops.append(("polyadd", pid))
                active.append(pid)
        elif r < 0.60:
            if active and rng.random() < 0.9:
                pid = rng.choice(active)
                active.remove(pid)
                ops.append(("polyrm", pid))
            elif polys:
                ops.append(("polyrm", rng.choice(sorted(polys))))
        elif r < 0.64:
            ops.append(("invalid", rng.randint(0, 1)))
        elif r < 0.66 and anc:
            # the user looks at a computed feature (must not change what the filter does)
            ops.append(("access", FID[rng.choice(anc)]))
        elif r < 0.68:
            ops.append(("enable", int(rng.random() < 0.7)))
        elif r < 0.73:
            limit = rng.choice([0, 0, 1, 2, n // 2, n // 2, max(n - 1, 0), n, n + 3])
            ops.append(("limit", limit))
        elif r < 0.80:
            i, bnew = rng.randrange(n), rng.random() < 0.35
            manual[i] = bnew
            ops.append(("manual", i, int(bnew)))
        elif r < 0.83:
            ops.append(("reset",))
            active = []
            manual = [True] * n
            limit = 0
        else:
            hs = half_set()
            if hs and rng.random() < 0.7:
                for f in hs:           # complete or drop the half-set ranges first
                    if rng.random() < 0.5:
                        mx = 0 if (f, 1) in keys else 1
                        v = tok(gen_bound(rng, thorough, data.get(f)))
                        ops.append(("set", FID[f], mx, v))
                        keys[(f, mx)] = v
                    else:
                        mx = 0 if (f, 0) in keys else 1
                        ops.append(("pop", FID[f], mx))
                        keys.pop((f, mx), None)
                hs = []
            force = []
            if rng.random() < 0.15:
                force = sorted({FID[rng.choice(filterable)] for _ in range(rng.randint(1, 2))})
            ops.append(("apply", force))
            if not hs:
                applied = dict(keys)
            elif rng.random() < 0.6:
                # the apply raised: go back to the settings applied last (F25 pattern) ...
                for key in sorted(set(keys) | set(applied)):
                    if key in applied and keys.get(key) != applied[key]:
                        ops.append(("set", FID[key[0]], key[1], applied[key]))
                    elif key not in applied:
                        ops.append(("pop", FID[key[0]], key[1]))
                keys = dict(applied)
                if rng.random() < 0.7:      # ... and apply again
                    ops.append(("apply", []))
    if not ops or ops[-1][0] != "apply":
        if not half_set():
            ops.append(("apply", []))
    case = {"n": n, "data": data, "ops": [list(o) for o in ops]}
    if emod:
        case["emod"] = True
    return case


# --------------------------------------------------------------------------------------------
class Impl:
    """the real objects of one history"""

    def __init__(self, case):
        dclab = common.import_dclab()
        from dclab.polygon_filter import PolygonFilter
        self.PF = PolygonFilter
        PolygonFilter.clear_all_filters()
        self.case = case
        ensure_plugin()
        self.arrays = {f: np.array([untok(t) for t in v], dtype=np.float64)
                       for f, v in case["data"].items()}
        #: the dataset under test: the harness never reads a feature from it
        self.ds = self.make_ds()
        #: its twin with every scalar feature accessed: source of all reference data
        self.ref = self.make_ds(access=True)
        self.n = len(self.ds)
        self.pf = {}          # pid -> PolygonFilter
        self.shape_of = {}    # pid -> shape token

    def make_ds(self, access=False):
        dclab = common.import_dclab()
        ds = dclab.new_dataset({f: v.copy() for f, v in self.arrays.items()})
        if self.case.get("emod"):
            for sec, kv in EMOD_CFG.items():
                for k, v in kv.items():
                    ds.config[sec][k] = v
        if access:
            with np.errstate(all="ignore"):
                for feat in ds.features_scalar:
                    ds[feat][:]
        return ds

    def features(self):
        return list(self.ds.features_scalar)

    def column(self, feat):
        with np.errstate(all="ignore"):
            return np.asarray(self.ref[feat][:], dtype=np.float64)

    def pip_bits(self, shape, ax, ay):
        from dclab.external.skimage.measure import points_in_poly
        pts = np.zeros((self.n, 2), dtype=np.float64)
        pts[:, 0] = self.column(FEATS[ax])
        pts[:, 1] = self.column(FEATS[ay])
        return np.asarray(points_in_poly(points=pts, verts=np.array(SHAPES[shape], dtype=np.float64)),
                          dtype=bool)

    def do(self, op, rec=None):
        """returns the canonical answer of one operation"""
        ds = self.ds
        cfg = ds.config["filtering"]
        kind = op[0]
        try:
            if kind == "set":
                cfg["{} {}".format(FEATS[op[1]], "max" if op[2] else "min")] = untok(op[3])
            elif kind == "pop":
                cfg.pop("{} {}".format(FEATS[op[1]], "max" if op[2] else "min"))
            elif kind == "polyset":
                _k, pid, ax, ay, shape, inv = op
                pts = np.array(SHAPES[shape], dtype=np.float64)
                if pid not in self.pf:
                    self.pf[pid] = self.PF(axes=(FEATS[ax], FEATS[ay]), points=pts,
                                           inverted=bool(inv))
                else:
                    pf = self.pf[pid]
                    pf.axes = (FEATS[ax], FEATS[ay])
                    pf.points = pts
                    pf.inverted = bool(inv)
            elif kind in ("polyaxes", "polypoints", "polyinv") and op[1] not in self.pf:
                pass        # no such instance yet: nothing to edit (a later polyset creates it)
            elif kind == "polyaxes":
                self.pf[op[1]].axes = (FEATS[op[2]], FEATS[op[3]])
            elif kind == "polypoints":
                self.pf[op[1]].points = np.array(SHAPES[op[2]], dtype=np.float64)
            elif kind == "polyinv":
                self.pf[op[1]].inverted = bool(op[2])
            elif kind == "access":
                ds[FEATS[op[1]]][:]
            elif kind == "polyadd":
                ds.polygon_filter_add(self.pf[op[1]])
            elif kind == "polyrm":
                # a polygon that was never created cannot be in the settings: ValueError
                ds.polygon_filter_rm(self.pf[op[1]] if op[1] in self.pf else 10000 + op[1])
            elif kind == "invalid":
                cfg["remove invalid events"] = bool(op[1])
            elif kind == "enable":
                cfg["enable filters"] = bool(op[1])
            elif kind == "limit":
                cfg["limit events"] = int(op[1])
            elif kind == "manual":
                ds.filter.manual[op[1]] = bool(op[2])
            elif kind == "reset":
                ds.reset_filter()
            elif kind == "apply":
                force = [FEATS[i] for i in op[1]]
                if rec is not None:
                    with rec:
                        ds.apply_filter(force=force)
                else:
                    ds.apply_filter(force=force)
            else:
                return "bad-op"
            out = "ok"
        except Exception as e:  # noqa
            out = common.err_class(e)
        if kind == "apply":
            f = ds.filter
            out += (" all=" + bits(f.all) + " box=" + bits(f.box) + " poly=" + bits(f.polygon)
                    + " inv=" + bits(f.invalid))
        return out

    # ---- the property's own oracle: stateless evaluation of the current settings ----------
    def reference(self):
        """(pre-limit selection, limit) from ds.config['filtering'], manual, polygon registry"""
        from dclab.external.skimage.measure import points_in_poly
        ds = self.ds
        cfg = ds.config["filtering"]
        n = self.n
        if not cfg["enable filters"]:
            return np.ones(n, dtype=bool), 0
        sel = np.array(ds.filter.manual, dtype=bool).copy()
        with np.errstate(all="ignore"):
            for feat in ds.features_scalar:
                kmin, kmax = feat + " min", feat + " max"
                x = self.column(feat)
                if kmin in cfg and kmax in cfg and cfg[kmin] != cfg[kmax]:
                    lo, hi = min(cfg[kmin], cfg[kmax]), max(cfg[kmin], cfg[kmax])
                    sel &= ~np.isnan(x) & (x >= lo) & (x <= hi)
                if cfg["remove invalid events"]:
                    sel &= ~(np.isnan(x) | np.isinf(x))
            for pid in cfg["polygon filters"]:
                pf = self.PF.get_instance_from_id(pid)
                pts = np.zeros((n, 2), dtype=np.float64)
                pts[:, 0] = self.column(pf.axes[0])
                pts[:, 1] = self.column(pf.axes[1])
                inside = np.asarray(points_in_poly(points=pts, verts=np.array(pf.points)), dtype=bool)
                sel &= ~inside if pf.inverted else inside
        return sel, int(cfg["limit events"])

    def fresh_all(self):
        """`all` of a new dataset (every feature accessed first) that is given the current
        settings once"""
        ds2 = self.make_ds(access=True)
        src = self.ds.config["filtering"]
        for k in src.keys():
            v = src[k]
            if k == "polygon filters":
                # not through __setitem__: its converter `fintlist` drops the id 0
                for pid in v:
                    ds2.polygon_filter_add(pid)
            else:
                ds2.config["filtering"][k] = v
        ds2.filter.manual[:] = self.ds.filter.manual
        ds2.apply_filter()
        return np.array(ds2.filter.all, dtype=bool)


def run_impl(case, want_lines=True):
    """drive the real code; returns (answers, model lines, line index of each op's answer,
    spec failures [(op index, text)], recorder problems)"""
    im = Impl(case)
    rec = ChoiceRecorder()
    sent = set()
    lines, slots = [], []
    if want_lines:
        lines.append(f"new {im.n}")
        for feat in im.features():
            if feat not in FID:
                raise RuntimeError(f"unexpected scalar feature {feat}")
            lines.append(f"col {FID[feat]} " + " ".join(tok(x) for x in im.column(feat)))
    answers, specfail = [], []
    pip_sent = set()
    content = {}          # pid -> [ax, ay, shape] currently registered
    for i, op in enumerate(case["ops"]):
        op = tuple(op)
        if op[0] in ("polyset", "polyaxes", "polypoints") :
            cur = content.get(op[1], [0, 0, 0])
            if op[0] == "polyset":
                cur = [op[2], op[3], op[4]]
            elif op[0] == "polyaxes":
                cur = [op[2], op[3], cur[2]]
            else:
                cur = [cur[0], cur[1], op[2]]
            content[op[1]] = cur
            key = (cur[2], cur[0], cur[1])
            if want_lines and key not in pip_sent:
                pip_sent.add(key)
                lines.append(f"pip {key[0]} {key[1]} {key[2]} " + bits(im.pip_bits(*key)))
        ans = im.do(op, rec)
        answers.append(ans)
        if want_lines:
            lines += rec.lines(sent)
            if op[0] == "access":
                slots.append(None)
                continue
            if op[0] == "set":
                lines.append(f"set {op[1]} {op[2]} {op[3]}")
            elif op[0] == "apply":
                lines.append("apply " + " ".join(str(f) for f in op[1]))
            else:
                lines.append(" ".join(str(x) for x in op))
            slots.append(len(lines) - 1)
        if op[0] == "apply":
            if not ans.startswith("ok"):
                cfg = im.ds.config["filtering"]
                half = [f for f in FEATS if (f + " min" in cfg) != (f + " max" in cfg)]
                if not (ans.startswith("err:value") and half):
                    specfail.append((i, f"apply_filter raised ({ans.split(' ')[0]}) although every "
                                        f"range of the current settings has both keys"))
                continue
            try:
                pre, limit = im.reference()
                got = np.array(im.ds.filter.all, dtype=bool)
                q = int(pre.sum())
                if limit > 0 and q > limit:
                    if int(got.sum()) != limit or (got & ~pre).any():
                        specfail.append((i, f"limit events={limit}: {int(got.sum())} of {q} qualifying "
                                            f"events remain / non-qualifying selected"))
                    elif not np.array_equal(got, im.fresh_all()):
                        specfail.append((i, "limit events: selection differs from a fresh dataset "
                                            "with the same settings"))
                elif not np.array_equal(got, pre):
                    specfail.append((i, f"ds.filter.all = {bits(got)} but the current settings "
                                        f"specify {bits(pre)}"))
                else:
                    try:
                        fresh = im.fresh_all()
                    except Exception as e:  # noqa
                        specfail.append((i, f"apply_filter succeeded, but a fresh dataset with the same "
                                            f"settings raises {type(e).__name__}"))
                        continue
                    if not np.array_equal(got, fresh):
                        specfail.append((i, f"ds.filter.all = {bits(got)} but a fresh dataset with "
                                            f"the same settings gives {bits(fresh)}"))
            except Exception as e:  # noqa
                specfail.append((i, f"reference evaluation impossible: {e!r}"[:160]))
    return answers, lines, slots, specfail, rec.bad


def compare(case, answers, model_out, slots):
    """first disagreement between the implementation and the model (impl mirror, and the model's
    stateless `specApply`: bits of `all`, or `raise`), or None"""
    for i, op in enumerate(case["ops"]):
        if slots[i] is None:
            continue
        m = model_out[slots[i]].strip()
        m_impl = m.split(" ## ")[0].strip()
        if m_impl != answers[i].strip():
            return i, f"op {i} {op}: impl '{answers[i][:70]}' model '{m_impl[:70]}'"
        if op[0] == "apply":
            spec_ans = m.split(" ## ")[1].strip() if " ## " in m else ""
            if answers[i].startswith("ok"):
                got = answers[i].split(" all=")[1].split(" ")[0] if " all=" in answers[i] else ""
            else:
                got = "raise"
            if spec_ans != got:
                return i, f"op {i}: apply gives {got}, the model's specification {spec_ans}"
    return None


def nontrivial(case, answers):
    applies = [i for i, o in enumerate(case["ops"]) if o[0] == "apply" and answers[i].startswith("ok")]
    if len(applies) < 2:
        return False
    a, b = applies[0], applies[-1]
    return any(o[0] in ("set", "pop", "polyset", "polyaxes", "polypoints", "polyinv", "manual")
               for o in case["ops"][a + 1:b])


def spec_fails(case):
    try:
        return bool(run_impl(case, want_lines=False)[3])
    except Exception:
        return False


def statically_valid(ops):
    """no apply happens while only one of a feature's min/max keys is set"""
    keys = set()
    for o in ops:
        if o[0] == "set":
            keys.add((o[1], o[2]))
        elif o[0] == "pop":
            keys.discard((o[1], o[2]))
        elif o[0] == "apply":
            if any(((f, 0) in keys) != ((f, 1) in keys) for f in range(len(FEATS))):
                return False
    return True


def shrink(case):
    """minimise the history; prefer histories in which every apply is acceptable to the code"""
    if statically_valid(case["ops"]):
        ops = common.ddmin(case["ops"], lambda o: statically_valid(o) and spec_fails(dict(case, ops=o)))
    else:
        ops = common.ddmin(case["ops"], lambda o: spec_fails(dict(case, ops=o)))
    small = dict(case, ops=ops)
    # fewer events
    n = case["n"]
    for keep in range(1, n):
        cand = dict(small, n=keep, data={f: v[:keep] for f, v in case["data"].items()},
                    ops=[o for o in ops if not (o[0] == "manual" and o[1] >= keep)])
        if spec_fails(cand):
            small = cand
            break
    return small


#: F25 (fixed by fix-F25): an apply that raises must not leave recomputed box filters behind
F25_HISTORY = {"n": 5, "data": {"area_um": ["0", "1", "3", "2", "4"], "deform": ["5", "6", "7", "0", "1"]},
               "ops": [["set", FID["area_um"], 0, "1"], ["set", FID["area_um"], 1, "2"], ["apply", []],
                       ["set", FID["area_um"], 0, "3"], ["set", FID["area_um"], 1, "4"],
                       ["set", FID["deform"], 0, "0"], ["apply", []],
                       ["set", FID["area_um"], 0, "1"], ["set", FID["area_um"], 1, "2"],
                       ["pop", FID["deform"], 0], ["apply", []]]}


# ---- recorded histories: replayed first on every run ------------------------------------------
def builtin_corpus():
    a, d = FID["area_um"], FID["deform"]
    data = {"area_um": ["0", "1", "3", "2", "nan"], "deform": ["5", "6", "7", "0", "1"]}
    f03 = {"n": 5, "data": data, "ops": [
        ["set", a, 0, "1"], ["set", a, 1, "2"], ["apply", []],
        ["pop", a, 0], ["pop", a, 1], ["apply", []]]}
    mixed = {"n": 5, "data": data, "ops": [
        ["polyset", 0, a, d, 2, 0], ["polyadd", 0], ["set", d, 0, "6"], ["set", d, 1, "0"],
        ["apply", []], ["polyset", 0, a, d, 2, 1], ["limit", 1], ["apply", []],
        ["reset"], ["apply", []], ["pop", d, 1], ["set", d, 1, "6"], ["manual", 1, 0],
        ["invalid", 1], ["apply", [d]], ["enable", 0], ["apply", []]]}
    anc = {"n": 4, "data": {"area_cvx": ["1", "0", "2", "3"], "area_msd": ["1", "0", "0", "2"],
                            "bright_avg": ["0", "2", "2", "3"]},
           "ops": [["invalid", 1], ["apply", []], ["access", FID["verif_anc"]], ["apply", []]]}
    emo = {"n": 4, "emod": True, "data": {"area_um": ["60", "120", "400", "120"],
                                          "deform": ["1/50", "1/50", "1/50", "3/10"]},
           "ops": [["invalid", 1], ["apply", []], ["access", FID["emodulus"]], ["apply", []]]}
    return [f03, F25_HISTORY, mixed, anc, emo]


def exhaustive_cases(max_len=4):
    """thorough tier: every sequence of at most `max_len` macro operations (each followed by an
    apply) over an 11-letter alphabet on a fixed 4-event dataset"""
    import itertools
    a, d = FID["area_um"], FID["deform"]
    data = {"area_um": ["0", "1", "3", "nan"], "deform": ["3", "1", "0", "1"]}
    alphabet = [
        [["set", a, 0, "1"], ["set", a, 1, "3"]],          # range
        [["set", a, 0, "3"], ["set", a, 1, "0"]],          # changed, reversed
        [["pop", a, 0], ["pop", a, 1]],                    # removed
        [["polyset", 0, a, d, 0, 0], ["polyadd", 0]],      # polygon created and added
        [["polyset", 0, a, d, 1, 1]],                      # modified + inverted
        [["polyaxes", 0, d, a]],                           # axes swapped in place
        [["polyrm", 0]],
        [["invalid", 1]],
        [["limit", 1]],
        [["manual", 1, 0]],
        [["reset"]],
    ]
    out = []
    for ln in range(1, max_len + 1):
        for combo in itertools.product(range(len(alphabet)), repeat=ln):
            ops = []
            for k in combo:
                ops += [list(o) for o in alphabet[k]]
                ops.append(["apply", []])
            out.append({"n": 4, "data": data, "ops": ops})
    return out


def run(ctx):
    common.import_dclab()
    cases = builtin_corpus()
    corpus = common.VERIF / "corpus" / "C03"
    if corpus.exists():
        for p in sorted(corpus.glob("*.json")):
            cases.append(json.loads(p.read_text()))
    for _ in range(ctx.n(1200, 10000)):
        cases.append(gen_history(ctx.rng, ctx.thorough))
    for _ in range(ctx.n(10, 60) if ctx.lean_ok else 10):
        cases.append(gen_history(ctx.rng, ctx.thorough, emod=True))
    if ctx.thorough:
        ex = exhaustive_cases(4)
        cases += ex
        ctx.stat("exhaustive_histories", len(ex))
    impl = [run_impl(c) for c in cases]
    model = None
    if ctx.lean_ok:
        lines, spans = [], []
        for (_a, ml, _s, _f, _b) in impl:
            spans.append((len(lines), len(lines) + len(ml)))
            lines += ml
        out = ctx.lean("C03", lines)
        model = [out[a:b] for a, b in spans]
    mirror_bad = []
    reported = 0
    for idx, c in enumerate(cases):
        answers, _ml, slots, specfail, recbad = impl[idx]
        nt = nontrivial(c, answers)
        ctx.case((c["n"], sorted(c["data"].items()), c["ops"]), nontrivial=nt,
                 sample={"n": c["n"], "features": sorted(c["data"]), "ops": c["ops"][:14],
                         "impl": answers[:14]} if nt else None)
        ctx.stat("ops", len(c["ops"]))
        for o, a in zip(c["ops"], answers):
            ctx.stat("op=" + o[0])
            if not a.startswith("ok"):
                ctx.stat("answer=" + a.split(" ")[0])
        for b in recbad:
            ctx.violation("spec", f"np.random.choice: {b}", {"correspondence": "ChoiceOK"})
        if specfail:
            if reported < 3:
                small = shrink(c)
                sf = run_impl(small, want_lines=False)[3]
                ctx.violation("spec", "Filter: " + (sf[0][1] if sf else specfail[0][1]), small)
                reported += 1
            continue
        if model is not None:
            d = compare(c, answers, model[idx], slots)
            if d is not None:
                mirror_bad.append((c, d))
    if mirror_bad:          # (without Lean the loop above already ran with the 10x budget)
        found = reported > 0
        if not found:
            for _ in range(ctx.n(6000, 40000)):
                c = gen_history(ctx.rng, True)
                if spec_fails(c):
                    small = shrink(c)
                    sf = run_impl(small, want_lines=False)[3]
                    ctx.violation("spec", "Filter: " + (sf[0][1] if sf else "ds.filter.all differs from "
                                                        "the specification"), small)
                    found = True
                    break
        if mirror_bad and not found:
            c, d = mirror_bad[0]
            ctx.violation("mirror", f"Filter differs from its Lean model ({len(mirror_bad)} histories), "
                                    f"first: {d[1]}",
                          {"correspondence": "Drive/C03.lean vs dclab.rtdc_dataset.filter.Filter",
                           "case": c})


def replay(ctx, data):
    rp = data["replay"]
    case = rp.get("case", rp)
    if "ops" not in case:
        print("no concrete input in this replay file:", json.dumps(rp)[:300])
        return True
    answers, _l, _s, specfail, _b = run_impl(case, want_lines=False)
    for o, a in zip(case["ops"], answers):
        print(o, "->", a)
    print("specfail:", specfail)
    return bool(specfail)
